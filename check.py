#!/venv/bin/python
"""
check.py <Cnn> [--tier quick|thorough] [--replay <report.json>]

Static analysis of /repo's current source for one property.  Exit codes:
  0  every obligation held (listed findings print KNOWN-FINDING lines)
  1  at least one unlisted violation: ``VIOLATION property=<id> replay=<path>``
  2  ANALYSIS-ERROR: the analysis could not be carried out (never a verdict)
"""

from __future__ import annotations

import argparse
import importlib
import json
import os
import sys
import traceback

sys.path.insert(0, os.path.dirname(os.path.abspath(__file__)))

from sa.model import AnalysisError, Program, Source  # noqa: E402
from sa.report import (  # noqa: E402
    Context,
    Timer,
    load_known,
    write_evidence,
    write_replay,
)

CLAIMED = ["C01", "C02", "C04", "C07", "C10", "C11", "C12", "C13", "C14", "C15", "C16", "C17", "C18", "C19", "C20"]


def analyse(prop: str, tier: str, source: Source | None = None) -> Context:
    module = importlib.import_module(f"sa.rules.{prop.lower()}")
    prog = Program(source)
    ctx = Context(prog, tier, prop)
    module.run(ctx)
    ctx.check_floors()
    return ctx


def main() -> int:
    parser = argparse.ArgumentParser()
    parser.add_argument("prop")
    parser.add_argument("--tier", default=os.environ.get("VERIF_TIER", "quick"), choices=["quick", "thorough"])
    parser.add_argument("--replay", default=None)
    args = parser.parse_args()
    prop = args.prop.upper()
    seed = int(os.environ.get("VERIF_SEED", "0") or 0)
    timer = Timer()

    if args.replay:
        with open(args.replay, encoding="utf-8") as handle:
            report = json.load(handle)
        print(f"replaying {report.get('rule')} on the current tree: {report.get('construct_key')}")

    if prop not in CLAIMED:
        print(f"ANALYSIS-ERROR property {prop} is not claimed by this framework (see MANIFEST.not_applicable)")
        return 2

    try:
        module = importlib.import_module(f"sa.rules.{prop.lower()}")
        ctx = analyse(prop, args.tier)
        floor = getattr(module, "RESOLUTION_FLOOR", 0.97)
        if ctx.prog.resolution_rate() < floor:
            raise AnalysisError(
                f"call resolution rate {ctx.prog.resolution_rate():.3f} fell below the floor {floor}: "
                "the call graph lost edges, refusing to vouch"
            )
        known = load_known()
        unlisted = []
        listed = []
        for finding in ctx.findings():
            entry = known.get(f"{prop}|{finding.rule}|{finding.key}")
            if entry is not None:
                listed.append((finding, entry))
            else:
                unlisted.append(finding)

        extra = {}
        if ctx.prog.source.renames:
            extra["renamed_private_members"] = ctx.prog.source.renames[:50]
            for note in ctx.prog.source.renames[:20]:
                print(f"note: {note}")
        selftest_problem = None
        if args.tier == "thorough":
            from sa import selftest

            summary = selftest.run(prop, seed, [f.ident() for f in ctx.findings()])
            extra["self_validation"] = summary
            if summary["missed"] or summary["false_alarms"]:
                selftest_problem = (
                    f"self-validation: missed mutants {summary['missed']}, twins that fired {summary['false_alarms']}"
                )

        titles = {rule.rule_id: rule.title for rule in ctx.rules}
        for finding, entry in listed:
            print(f"KNOWN-FINDING: property={prop} {finding.rule} {finding.key} -- {entry.get('what', finding.message)}")
        for index, finding in enumerate(unlisted):
            path = write_replay(prop, index, finding, titles.get(finding.rule, ""))
            print(f"  {finding.rule} {finding.where}: {finding.message}")
            for step in finding.witness[:12]:
                print(f"      via {step}")
            print(f"VIOLATION property={prop} replay={path}")

        for rule in ctx.rules:
            print(
                f"[{prop}] {rule.rule_id} {rule.title}: {rule.obligations} obligation(s), "
                f"{len(rule.findings)} finding(s) (floor {rule.floor})"
            )
        write_evidence(
            prop,
            args.tier,
            seed,
            ctx,
            module.EXPLANATION,
            list(getattr(module, "ASSUMPTIONS", [])),
            timer.elapsed(),
            len(unlisted),
            extra,
        )
        if unlisted:
            return 1
        if selftest_problem:
            print(f"ANALYSIS-ERROR {selftest_problem}")
            return 2
        print(f"[{prop}] OK tier={args.tier} wall={timer.elapsed():.1f}s")
        return 0
    except AnalysisError as exc:
        print(f"ANALYSIS-ERROR {exc}")
        return 2
    except Exception:  # never a traceback-as-verdict
        print("ANALYSIS-ERROR internal error in the checker:")
        print(traceback.format_exc())
        return 2


if __name__ == "__main__":
    sys.exit(main())
