"""Static-analysis engine for the pymarkdown property checks (pure stdlib ast)."""
