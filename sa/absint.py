"""
Driver-skeleton exploration: abstract interpretation of the run driver's AST over a small
finite domain (thorough tier of C10 / C15 / C18).

Nothing is executed and no solver is involved.  The functions of the run driver
(PyMarkdownLint.main and what it calls inside main.py, FileScanHelper) are interpreted
statement by statement over their CFGs with an abstract store:

    value ::= True | False | None | Unknown | Enum(member) | Temp(n) | TempObj(n, keep)
            | UserFile | Tuple(values) | Str

Calls that leave the driver (tokenizer, plugin dispatchers, source providers, presentation)
are *fault points*: they either return Unknown or raise one of the exception classes the
may-raise analysis says can escape them (restricted to the failure classes of C15).  Loops
over the file list and the fix levels are unrolled up to ``unroll`` iterations.  Every abstract
path from ``main`` to a process exit is enumerated and its end state checked.

End-state facts collected per exit:
  category        the ApplicationResult handed to exit_application (or 'RAISED:<cls>')
  faults          failure classes injected on the path (per file index)
  written         user-file slots written back (set of file indices)
  announced       file indices for which print_fix_message ran
  temps           temporary files created and not removed
  in_fix_mode, continue_on_error, stdin   the mode booleans as chosen on the path
"""

from __future__ import annotations

import ast
from dataclasses import dataclass, field
from typing import Any, Dict, FrozenSet, List, Optional, Set, Tuple

from sa.cfg import CFG, handler_catches
from sa.model import AnalysisError, CallSite, FuncInfo, Program, dotted, norm, walk_local
from sa.raises import RaiseAnalysis

UNKNOWN = "?"
FAULT_CLASSES = ("BadPluginError", "BadPluginFixError", "BadTokenizationError", "OSError", "UnicodeDecodeError")


@dataclass(frozen=True)
class Frame:
    func: str
    node: int
    env: Tuple[Tuple[str, Any], ...]
    loops: Tuple[Tuple[int, int], ...]  # loop node -> iterations taken
    pending_exc: Optional[str] = None  # exception class being propagated inside this frame
    ret_target: Optional[Tuple[str, ...]] = None  # names (in the caller) receiving the return value

    def get(self, name: str) -> Any:
        for key, value in self.env:
            if key == name:
                return value
        return UNKNOWN

    def set(self, name: str, value: Any) -> "Frame":
        env = tuple((k, v) for k, v in self.env if k != name) + ((name, value),)
        return Frame(self.func, self.node, tuple(sorted(env, key=lambda kv: kv[0])), self.loops, self.pending_exc, self.ret_target)

    def at(self, node: int) -> "Frame":
        return Frame(self.func, node, self.env, self.loops, self.pending_exc, self.ret_target)

    def with_exc(self, exc: Optional[str]) -> "Frame":
        return Frame(self.func, self.node, self.env, self.loops, exc, self.ret_target)

    def loop_count(self, node: int) -> int:
        for key, value in self.loops:
            if key == node:
                return value
        return 0

    def bump(self, node: int) -> "Frame":
        loops = tuple((k, v) for k, v in self.loops if k != node) + ((node, self.loop_count(node) + 1),)
        return Frame(self.func, self.node, self.env, tuple(sorted(loops)), self.pending_exc, self.ret_target)


@dataclass(frozen=True)
class World:
    fields: Tuple[Tuple[str, Any], ...] = ()  # fields of the driver objects (self.__x)
    temps: FrozenSet[int] = frozenset()
    temp_counter: int = 0
    written: FrozenSet[int] = frozenset()
    announced: FrozenSet[int] = frozenset()
    faults: Tuple[Tuple[int, str], ...] = ()
    file_index: int = -1
    reported_errors: int = 0

    def get_field(self, name: str) -> Any:
        for key, value in self.fields:
            if key == name:
                return value
        return UNKNOWN

    def set_field(self, name: str, value: Any) -> "World":
        fields = tuple((k, v) for k, v in self.fields if k != name) + ((name, value),)
        return World(tuple(sorted(fields, key=lambda kv: kv[0])), self.temps, self.temp_counter, self.written, self.announced, self.faults, self.file_index, self.reported_errors)

    def replace(self, **kwargs: Any) -> "World":
        data = dict(fields=self.fields, temps=self.temps, temp_counter=self.temp_counter, written=self.written,
                    announced=self.announced, faults=self.faults, file_index=self.file_index, reported_errors=self.reported_errors)
        data.update(kwargs)
        return World(**data)


@dataclass
class Exit:
    category: str
    world: World
    modes: Dict[str, Any]
    trace: List[str]


class Explorer:
    def __init__(self, prog: Program, ra: RaiseAnalysis, unroll: int = 2, budget: int = 400000):
        self.prog = prog
        self.ra = ra
        self.unroll = unroll
        self.budget = budget
        self.driver: Dict[str, FuncInfo] = {}
        for func in prog.iter_functions("pymarkdown.file_scan_helper.FileScanHelper."):
            self.driver[func.qualname] = func
        for name in ("main", "__scan_files_if_no_errors", "__handle_error", "__handle_file_scanner_error", "__handle_file_scanner_output"):
            func = prog.method("pymarkdown.main.PyMarkdownLint", name)
            self.driver[func.qualname] = func
        self.exit_fn = prog.method("pymarkdown.return_code_helper.ReturnCodeHelper", "exit_application")
        self.cfgs: Dict[str, CFG] = {}
        self.states = 0
        self.transitions = 0
        self.exits: List[Exit] = []
        self.truncated = False
        self._pending_exits: List[Tuple[str, Tuple[Frame, ...], World, str]] = []
        self._effect_free: Dict[str, bool] = {}

    # ------------------------------------------------------------------ helpers
    @staticmethod
    def tracked(name: str) -> bool:
        """Booleans whose value is remembered once a branch was taken on them (the flags the
        driver passes around); everything else is re-chosen freely at every test."""
        name = name.lstrip("_")
        return name.startswith(("did_", "in_fix_mode", "use_standard_in", "allow_shortcut", "keep_processing", "continue_on_error",
                                "exit_on_error", "scan_exception", "temporary_file", "string_to_scan"))

    @staticmethod
    def fresh_temp(frames: Tuple[Frame, ...], world: World) -> int:
        used = set(world.temps)
        for frame in frames:
            for _, value in frame.env:
                stack = [value]
                while stack:
                    cur = stack.pop()
                    if isinstance(cur, tuple) and cur:
                        if cur[0] in ("temp", "tempobj"):
                            used.add(cur[1])
                        elif cur[0] == "tuple":
                            stack.extend(cur[1])
        number = 1
        while number in used:
            number += 1
        return number

    def effect_free(self, func: FuncInfo) -> bool:
        """Driver functions whose closure (inside the driver) has no tracked effect: no temp file, no
        write-back, no announcement, no exit, no handler.  They are summarised as fault points."""
        if func.qualname in self._effect_free:
            return self._effect_free[func.qualname]
        self._effect_free[func.qualname] = False  # recursion guard
        relevant = ("os.remove", "os.unlink", "os.replace", "os.rename", "shutil.", "tempfile.", "exit_application", "print_fix_message", "print_system_error", "__handle_error", "__handle_scan_error")
        result = True
        for node in walk_local(func.node):
            if isinstance(node, (ast.Try, ast.With)):
                result = False
            if isinstance(node, ast.Call):
                text = norm(node.func)
                if any(word in text for word in relevant):
                    result = False
        if result:
            for site in self.prog.sites_in(func):
                for target in site.targets:
                    if target.qualname in self.driver and target != func and not self.effect_free(target):
                        result = False
        self._effect_free[func.qualname] = result
        return result

    def cfg(self, qual: str) -> CFG:
        if qual not in self.cfgs:
            func = self.driver[qual]
            self.cfgs[qual] = CFG(func.node, raising=lambda node: True)
        return self.cfgs[qual]

    def site(self, func: FuncInfo, call: ast.Call) -> Optional[CallSite]:
        for candidate in self.prog.sites_in(func):
            if candidate.node is call:
                return candidate
        return None

    # ------------------------------------------------------------------ expression evaluation
    def eval(self, func: FuncInfo, frame: Frame, world: World, expr: ast.AST) -> Any:
        if isinstance(expr, ast.Constant):
            if expr.value is None or isinstance(expr.value, bool):
                return expr.value
            if isinstance(expr.value, str):
                return ("str", expr.value)
            return UNKNOWN
        if isinstance(expr, ast.Name):
            return frame.get(expr.id)
        if isinstance(expr, ast.Attribute):
            text = dotted(expr) or ""
            if text.startswith("ApplicationResult."):
                return ("enum", expr.attr)
            if isinstance(expr.value, ast.Name) and expr.value.id == (func.params[0] if func.params else "") and func.kind == "instance":
                return world.get_field(f"{func.cls.name if func.cls else ''}.{expr.attr}")
            if isinstance(expr.value, ast.Name) and expr.attr == "name":
                base = frame.get(expr.value.id)
                if isinstance(base, tuple) and base and base[0] == "tempobj":
                    return ("temp", base[1])
            if isinstance(expr.value, ast.Name) and expr.value.id == "args":
                if expr.attr.startswith("x_"):
                    return False  # hidden -x-* debug switches are assumed off
                return frame.get(f"args.{expr.attr}")
            return UNKNOWN
        if isinstance(expr, ast.UnaryOp) and isinstance(expr.op, ast.Not):
            value = self.truth(self.eval(func, frame, world, expr.operand))
            return UNKNOWN if value is None else (not value)
        if isinstance(expr, ast.BoolOp):
            values = [self.eval(func, frame, world, v) for v in expr.values]
            truths = [self.truth(v) for v in values]
            if isinstance(expr.op, ast.And):
                if any(t is False for t in truths):
                    return False
                return True if all(t is True for t in truths) else UNKNOWN
            if any(t is True for t in truths):
                return True
            return False if all(t is False for t in truths) else UNKNOWN
        if isinstance(expr, ast.Compare) and len(expr.ops) == 1:
            left = self.eval(func, frame, world, expr.left)
            right = self.eval(func, frame, world, expr.comparators[0])
            op = expr.ops[0]
            if isinstance(op, (ast.Is, ast.Eq)) and right is None:
                return UNKNOWN if left == UNKNOWN else (left is None)
            if isinstance(op, (ast.IsNot, ast.NotEq)) and right is None:
                return UNKNOWN if left == UNKNOWN else (left is not None)
            if isinstance(op, (ast.Eq, ast.NotEq)) and left != UNKNOWN and right != UNKNOWN:
                if self._is_path(left) and self._is_path(right):
                    same = left == right
                    return same if isinstance(op, ast.Eq) else not same
                if isinstance(left, tuple) and isinstance(right, tuple) and left[0] == right[0] == "str":
                    same = left == right
                    return same if isinstance(op, ast.Eq) else not same
            return UNKNOWN
        if isinstance(expr, ast.IfExp):
            test = self.truth(self.eval(func, frame, world, expr.test))
            if test is True:
                return self.eval(func, frame, world, expr.body)
            if test is False:
                return self.eval(func, frame, world, expr.orelse)
            left = self.eval(func, frame, world, expr.body)
            right = self.eval(func, frame, world, expr.orelse)
            return left if left == right else UNKNOWN
        if isinstance(expr, ast.Tuple):
            return ("tuple", tuple(self.eval(func, frame, world, e) for e in expr.elts))
        if isinstance(expr, ast.Call):
            name = dotted(expr.func) or ""
            cached = f"<cval>{expr.lineno}:{expr.col_offset}"
            for key, value in frame.env:
                if key == cached:
                    return value
            if name == "bool" and expr.args:
                value = self.truth(self.eval(func, frame, world, expr.args[0]))
                return UNKNOWN if value is None else value
            if name == "os.path.exists" and expr.args:
                value = self.eval(func, frame, world, expr.args[0])
                if isinstance(value, tuple) and value[0] == "temp":
                    return value[1] in world.temps
                return UNKNOWN
            if name in ("os.path.realpath", "os.path.abspath", "str") and expr.args:
                return self.eval(func, frame, world, expr.args[0])
            return UNKNOWN
        if isinstance(expr, ast.NamedExpr):
            return self.eval(func, frame, world, expr.value)
        return UNKNOWN

    @staticmethod
    def _is_path(value: Any) -> bool:
        return isinstance(value, tuple) and value and value[0] in ("temp", "user")

    @staticmethod
    def truth(value: Any) -> Optional[bool]:
        if value is True or value is False:
            return value
        if value is None:
            return False
        if value == UNKNOWN:
            return None
        if isinstance(value, tuple):
            if value[0] in ("temp", "user", "enum", "tempobj"):
                return True
            if value[0] == "str":
                return bool(value[1])
            if value[0] == "tuple":
                return bool(value[1])
        return None

    # ------------------------------------------------------------------ exploration
    def explore(self) -> None:
        main = self.prog.method("pymarkdown.main.PyMarkdownLint", "main")
        cfg = self.cfg(main.qualname)
        start = Frame(main.qualname, cfg.entry, (), ())
        initial = ((start,), World())
        seen: Set[Any] = {initial}
        stack: List[Tuple[Tuple[Frame, ...], World, Tuple[str, ...]]] = [((start,), World(), ())]
        while stack:
            frames, world, trace = stack.pop()
            self.states += 1
            if self.states > self.budget:
                self.truncated = True
                break
            self._pending_exits = []
            successors = self.step(frames, world)
            for category, exit_frames, exit_world, note in self._pending_exits:
                self._record_exit(category, exit_frames, exit_world, trace + (note,))
            for nxt_frames, nxt_world, note in successors:
                self.transitions += 1
                if nxt_frames is None:
                    continue
                key = (nxt_frames, nxt_world)
                if key in seen:
                    continue
                seen.add(key)
                stack.append((nxt_frames, nxt_world, trace + ((note,) if note else ())))

    def finish(self, category: str, frames: Tuple[Frame, ...], world: World, trace_note: str) -> None:
        self._pending_exits.append((category, frames, world, trace_note))

    def _record_exit(self, category: str, frames: Tuple[Frame, ...], world: World, trace: Tuple[str, ...]) -> None:
        modes: Dict[str, Any] = {}
        for frame in frames:
            for key in ("in_fix_mode", "use_standard_in"):
                value = frame.get(key)
                if value != UNKNOWN:
                    modes[key] = value
        modes["continue_on_error"] = world.get_field("FileScanHelper.__continue_on_error")
        for key in ("in_fix_mode", "use_standard_in"):
            value = world.get_field(f"<mode>{key}")
            if value != UNKNOWN:
                modes[key] = value
        self.exits.append(Exit(category, world, modes, list(trace)))

    def step(self, frames: Tuple[Frame, ...], world: World):
        frame = frames[-1]
        func = self.driver[frame.func]
        cfg = self.cfg(frame.func)
        node = cfg.nodes[frame.node]
        out: List[Tuple[Optional[Tuple[Frame, ...]], World, str]] = []

        # ---- exception propagation inside this frame
        if frame.pending_exc is not None and node.kind != "handler":
            # we are at a node reached through an exc edge that is not a handler (finally copy / RAISE)
            pass

        if frame.node == cfg.exit:
            return self.do_return(frames, world, None)
        if frame.node == cfg.raise_exit:
            exc = frame.pending_exc or "Exception"
            if len(frames) == 1:
                if exc == "SystemExit":
                    self.finish(str(world.get_field("<exit>")), frames, world, "process exits")
                else:
                    self.finish(f"RAISED:{exc}", frames, world, f"{func.short} raises {exc} out of main")
                return []
            caller = frames[-2]
            return self.raise_in(frames[:-1], world, exc, f"{func.short} raises {exc}")

        if node.kind == "handler":
            handler = node.ast_node
            exc = frame.pending_exc or "Exception"
            assert isinstance(handler, ast.ExceptHandler)
            if not any(self.ra.is_subclass(exc, caught) for caught in handler_catches(handler)):
                return []  # this handler does not take the exception (another edge does)
            new = frame.with_exc(None)
            if handler.name:
                new = new.set(handler.name, ("exc", exc))
            new = new.set("<handled>", exc)
            for dst, label in cfg.succ[frame.node]:
                out.append((frames[:-1] + (new.at(dst),), world, f"{func.short}: except {norm(handler.type) if handler.type else ''} catches {exc}"))
            return out

        if node.kind in ("entry", "join"):
            for dst, label in cfg.succ[frame.node]:
                if label != "exc":
                    out.append((frames[:-1] + (frame.at(dst),), world, ""))
            return out

        if node.kind == "loop":
            count = frame.loop_count(frame.node)
            stmt = node.ast_node
            for dst, label in cfg.succ[frame.node]:
                if label == "exc":
                    continue
                if isinstance(stmt, ast.For):
                    if label == "true":
                        limit = self.unroll if norm(stmt.iter) == "files_to_scan" else 1
                        if count >= limit:
                            continue
                        new = frame.bump(frame.node).at(dst)
                        new_world = world
                        if isinstance(stmt.target, ast.Name):
                            if norm(stmt.iter) == "files_to_scan":
                                new_world = world.replace(file_index=world.file_index + 1)
                                new = new.set(stmt.target.id, ("user", new_world.file_index))
                            else:
                                new = new.set(stmt.target.id, UNKNOWN)
                        out.append((frames[:-1] + (new,), new_world, f"{func.short}: iteration {count + 1} of for {norm(stmt.target)}"))
                    else:
                        out.append((frames[:-1] + (frame.at(dst),), world, ""))
                else:
                    if count >= 3:
                        continue
                    out.append((frames[:-1] + (frame.bump(frame.node).at(dst),), world, ""))
            return out

        if node.kind == "cond":
            for call in [c for c in ast.walk(node.ast_node) if isinstance(c, ast.Call)]:
                site = self.site(func, call)
                key = f"<cval>{call.lineno}:{call.col_offset}"
                if site and not site.wild and any(t.qualname in self.driver and not self.effect_free(t) for t in site.targets) and not any(k == key for k, _ in frame.env):
                    if self.exit_fn in site.targets:
                        continue
                    return self.do_call_stmt(frames, world, None, call, (key,), reenter=True)
            value = self.truth(self.eval(func, frame, world, node.ast_node))
            if any(k.startswith("<cval>") for k, _ in frame.env):
                frame = Frame(frame.func, frame.node, tuple((k, v) for k, v in frame.env if not k.startswith("<cval>")), frame.loops, frame.pending_exc, frame.ret_target)
                frames = frames[:-1] + (frame,)
            # conditions may contain calls (fault points) — only os.path.exists-like are evaluated; others unknown
            for dst, label in cfg.succ[frame.node]:
                if label == "exc":
                    continue
                if value is True and label == "false":
                    continue
                if value is False and label == "true":
                    continue
                new = frame
                new_world_mode = None
                # learn the branch for plain names / fields so that later tests agree
                test = node.ast_node
                if value is None and isinstance(test, ast.Name) and self.tracked(test.id):
                    new = new.set(test.id, label == "true")
                    if test.id in ("in_fix_mode", "use_standard_in"):
                        new_world_mode = (test.id, label == "true")
                new_world = world
                if value is None and isinstance(test, ast.Attribute) and isinstance(test.value, ast.Name) and func.params and test.value.id == func.params[0] and self.tracked(test.attr):
                    new_world = world.set_field(f"{func.cls.name if func.cls else ''}.{test.attr}", label == "true")
                if value is None and isinstance(test, ast.Attribute) and isinstance(test.value, ast.Name) and test.value.id == "args" and self.tracked(test.attr):
                    new = new.set(f"args.{test.attr}", label == "true")
                if new_world_mode is not None:
                    new_world = new_world.set_field(f"<mode>{new_world_mode[0]}", new_world_mode[1])
                out.append((frames[:-1] + (new.at(dst),), new_world, f"{func.short}: {norm(test)[:60]} is {label}" if value is None else ""))
            return out

        # ---- statements
        stmt = node.ast_node
        assert stmt is not None
        if node.kind == "with":
            return self.do_with(frames, world, stmt)
        if isinstance(stmt, ast.Return):
            value = self.eval(func, frame, world, stmt.value) if stmt.value is not None else None
            if stmt.value is not None and isinstance(stmt.value, ast.Call):
                return self.do_call_stmt(frames, world, stmt, stmt.value, ("<return>",))
            succ = [dst for dst, label in cfg.succ[frame.node] if label != "exc"]
            new = frame.set("<ret>", value)
            return [(frames[:-1] + (new.at(dst),), world, "") for dst in succ]
        if isinstance(stmt, ast.Raise):
            exc_name = "Exception"
            if stmt.exc is None:
                handled = frame.get("<handled>")
                exc_name = handled if isinstance(handled, str) and handled != UNKNOWN else "Exception"
            else:
                target = stmt.exc.func if isinstance(stmt.exc, ast.Call) else stmt.exc
                name = (dotted(target) or "Exception").split(".")[-1]
                value = frame.get(name) if isinstance(stmt.exc, ast.Name) else None
                exc_name = value[1] if isinstance(value, tuple) and value and value[0] == "exc" else name
            return self.raise_in(frames, world, exc_name, f"{func.short}: raise {exc_name}")
        if isinstance(stmt, ast.Assert):
            return self.advance(frames, world)
        if isinstance(stmt, ast.Assign):
            if isinstance(stmt.value, ast.Call):
                targets = self._target_names(stmt.targets[0])
                return self.do_call_stmt(frames, world, stmt, stmt.value, targets)
            value = self.eval(func, frame, world, stmt.value)
            new_frame, new_world = self.bind(func, frame, world, stmt.targets[0], value)
            return self.advance(frames[:-1] + (new_frame,), new_world)
        if isinstance(stmt, ast.AnnAssign) and stmt.value is not None:
            value = self.eval(func, frame, world, stmt.value)
            new_frame, new_world = self.bind(func, frame, world, stmt.target, value)
            return self.advance(frames[:-1] + (new_frame,), new_world)
        if isinstance(stmt, ast.AugAssign):
            new_frame, new_world = self.bind(func, frame, world, stmt.target, UNKNOWN)
            return self.advance(frames[:-1] + (new_frame,), new_world)
        if isinstance(stmt, ast.Expr) and isinstance(stmt.value, ast.Call):
            return self.do_call_stmt(frames, world, stmt, stmt.value, ())
        if isinstance(stmt, ast.expr):
            # for-iter expression node etc.
            return self.advance(frames, world)
        return self.advance(frames, world)

    @staticmethod
    def _target_names(target: ast.AST) -> Tuple[str, ...]:
        if isinstance(target, ast.Name):
            return (target.id,)
        if isinstance(target, ast.Tuple):
            return tuple(t.id if isinstance(t, ast.Name) else "_" for t in target.elts) + ("<tuple>",)
        if isinstance(target, ast.Attribute):
            return (f"<attr>{target.attr}",)
        return ("_",)

    def bind(self, func: FuncInfo, frame: Frame, world: World, target: ast.AST, value: Any) -> Tuple[Frame, World]:
        if isinstance(target, ast.Name):
            return frame.set(target.id, value), world
        if isinstance(target, ast.Tuple):
            for index, elt in enumerate(target.elts):
                part = value[1][index] if isinstance(value, tuple) and value and value[0] == "tuple" and index < len(value[1]) else UNKNOWN
                frame, world = self.bind(func, frame, world, elt, part)
            return frame, world
        if isinstance(target, ast.Attribute) and isinstance(target.value, ast.Name) and func.params and target.value.id == func.params[0] and func.kind == "instance":
            return frame, world.set_field(f"{func.cls.name if func.cls else ''}.{target.attr}", value)
        return frame, world

    def advance(self, frames: Tuple[Frame, ...], world: World, note: str = ""):
        frame = frames[-1]
        cfg = self.cfg(frame.func)
        succ = [(dst, label) for dst, label in cfg.succ[frame.node] if label != "exc"]
        if frame.pending_exc is None:
            return [(frames[:-1] + (frame.at(dst),), world, note) for dst, _ in succ]
        # an exception is in flight (we are leaving a finally copy): first matching handler, else outwards
        out = []
        taken = False
        for dst, _ in succ:
            dst_node = cfg.nodes[dst]
            if dst_node.kind == "handler":
                handler = dst_node.ast_node
                assert isinstance(handler, ast.ExceptHandler)
                if not taken and any(self.ra.is_subclass(frame.pending_exc, caught) for caught in handler_catches(handler)):
                    taken = True
                    out.append((frames[:-1] + (frame.at(dst),), world, note))
        if not taken:
            for dst, _ in succ:
                if cfg.nodes[dst].kind != "handler":
                    out.append((frames[:-1] + (frame.at(dst),), world, note))
        return out

    def raise_in(self, frames: Tuple[Frame, ...], world: World, exc: str, note: str):
        """Raise ``exc`` at the current node of the top frame: follow its exceptional edges."""
        frame = frames[-1]
        cfg = self.cfg(frame.func)
        targets = [dst for dst, label in cfg.succ[frame.node] if label == "exc"]
        out = []
        if not targets:
            targets = [cfg.raise_exit]
        taken = False
        for dst in targets:
            dst_node = cfg.nodes[dst]
            if dst_node.kind == "handler":
                handler = dst_node.ast_node
                assert isinstance(handler, ast.ExceptHandler)
                if taken:
                    continue
                if any(self.ra.is_subclass(exc, caught) for caught in handler_catches(handler)):
                    taken = True
                    out.append((frames[:-1] + (frame.with_exc(exc).at(dst),), world, note))
            else:
                if taken:
                    continue
                out.append((frames[:-1] + (frame.with_exc(exc).at(dst),), world, note))
        return out

    def do_return(self, frames: Tuple[Frame, ...], world: World, _value: Any):
        frame = frames[-1]
        if frame.pending_exc is not None:
            # a finally copy that ran to completion while an exception is in flight: keep raising
            cfg = self.cfg(frame.func)
            return [(frames[:-1] + (frame.at(cfg.raise_exit),), world, "")]
        value = frame.get("<ret>")
        if value == UNKNOWN and not any(k == "<ret>" for k, _ in frame.env):
            value = None
        if len(frames) == 1:
            self.finish("RETURNED", frames, world, "main returned without exiting")
            return []
        caller = frames[-2]
        caller_func = self.driver[caller.func]
        new_caller = caller
        new_world = world
        targets = frame.ret_target or ()
        if targets == ("<return>",):
            new_caller = caller.set("<ret>", value)
            cfg = self.cfg(caller.func)
            succ = [dst for dst, label in cfg.succ[caller.node] if label != "exc"]
            return [(frames[:-2] + (new_caller.at(dst),), new_world, "") for dst in succ]
        if targets and targets[-1] == "<tuple>":
            for index, name in enumerate(targets[:-1]):
                part = value[1][index] if isinstance(value, tuple) and value and value[0] == "tuple" and index < len(value[1]) else UNKNOWN
                if name != "_":
                    new_caller = new_caller.set(name, part)
        elif targets and targets[0].startswith("<attr>"):
            new_world = world.set_field(f"{caller_func.cls.name if caller_func.cls else ''}.{targets[0][6:]}", value)
        elif targets and targets[0].startswith("<cval>"):
            new_caller = new_caller.set(targets[0], value)
            return [(frames[:-2] + (new_caller,), new_world, "")]
        elif targets:
            new_caller = new_caller.set(targets[0], value)
        return self.advance(frames[:-2] + (new_caller,), new_world)

    def do_with(self, frames: Tuple[Frame, ...], world: World, stmt: ast.AST):
        frame = frames[-1]
        func = self.driver[frame.func]
        new_frame, new_world = frame, world
        notes = []
        outs = []
        for item in stmt.items:  # type: ignore[attr-defined]
            call = item.context_expr
            name = dotted(call.func) if isinstance(call, ast.Call) else ""
            var = item.optional_vars.id if isinstance(item.optional_vars, ast.Name) else None
            if name and name.endswith("NamedTemporaryFile"):
                keep = any(k.arg == "delete" and isinstance(k.value, ast.Constant) and k.value.value is False for k in call.keywords)
                number = self.fresh_temp(frames[:-1] + (new_frame,), new_world)
                new_world = new_world.replace(temps=(new_world.temps | {number}) if keep else new_world.temps)
                if var:
                    new_frame = new_frame.set(var, ("tempobj", number, keep))
                notes.append(f"{func.short}: temp #{number} created ({'kept' if keep else 'name only'})")
            elif name == "open" and isinstance(call, ast.Call) and call.args:
                target = self.eval(func, new_frame, new_world, call.args[0])
                mode = call.args[1].value if len(call.args) > 1 and isinstance(call.args[1], ast.Constant) else "r"
                if isinstance(target, tuple) and target[0] == "temp" and any(ch in str(mode) for ch in "wax"):
                    new_world = new_world.replace(temps=new_world.temps | {target[1]})
                    notes.append(f"{func.short}: temp #{target[1]} created by open(..., {mode!r})")
                if var:
                    new_frame = new_frame.set(var, UNKNOWN)
                if isinstance(target, tuple) and target[0] == "user":
                    # reading the user's file may fail
                    outs.extend(self.raise_in(frames[:-1] + (new_frame,), new_world, "OSError", f"{func.short}: open raises OSError"))
        return outs + self.advance(frames[:-1] + (new_frame,), new_world, "; ".join(notes))

    def do_call_stmt(self, frames: Tuple[Frame, ...], world: World, stmt: Optional[ast.stmt], call: ast.Call, targets: Tuple[str, ...], reenter: bool = False):
        frame = frames[-1]
        func = self.driver[frame.func]
        name = dotted(call.func) or ""
        site = self.site(func, call)
        # ---- process exit
        if site and self.exit_fn in site.targets:
            value = self.eval(func, frame, world, call.args[0]) if call.args else UNKNOWN
            if value == UNKNOWN and call.args and isinstance(call.args[0], ast.Call):
                value = ("enum", "<sub-command result>")
            category = value[1] if isinstance(value, tuple) and value[0] == "enum" else "<unknown>"
            # sys.exit raises SystemExit: finally blocks on the way out still run
            exiting = world.set_field("<exit>", category)
            return self.raise_in(frames, exiting, "SystemExit", f"{func.short}: exit_application({category})")
        # ---- driver functions: inline
        driver_targets = [t for t in (site.targets if site else []) if t.qualname in self.driver and not self.effect_free(t)]
        if driver_targets and not (site and site.wild):
            callee = driver_targets[0]
            cfg = self.cfg(callee.qualname)
            env: List[Tuple[str, Any]] = []
            bound = Program.bind_args(callee, call, skip_self=callee.kind in ("instance", "class"))
            node_args = callee.node.args
            positional = node_args.posonlyargs + node_args.args
            defaults = [None] * (len(positional) - len(node_args.defaults)) + list(node_args.defaults)
            for arg, default in zip(positional, defaults):
                if arg.arg in bound:
                    env.append((arg.arg, self.eval(func, frame, world, bound[arg.arg])))
                elif default is not None:
                    env.append((arg.arg, self.eval(callee, Frame(callee.qualname, 0, (), ()), world, default)))
            new = Frame(callee.qualname, cfg.entry, tuple(sorted(env, key=lambda kv: kv[0])), (), None, targets)
            if len(frames) > 14:
                return self.advance(frames, world)
            return [(frames + (new,), world, f"{func.short} calls {callee.short}")]
        # ---- modelled effects
        outs = []
        new_frame, new_world = frame, world
        note = ""
        result: Any = UNKNOWN
        leaf = name.split(".")[-1]
        if name in ("os.remove", "os.unlink") and call.args:
            value = self.eval(func, frame, world, call.args[0])
            if isinstance(value, tuple) and value[0] == "temp":
                new_world = world.replace(temps=world.temps - {value[1]})
                note = f"{func.short}: temp #{value[1]} removed"
            elif isinstance(value, tuple) and value[0] == "user":
                new_world = world.replace(written=world.written | {value[1]})
                note = f"{func.short}: USER FILE {value[1]} REMOVED"
        elif name in ("shutil.copyfile", "shutil.copy", "os.replace", "os.rename", "shutil.move") and len(call.args) >= 2:
            src = self.eval(func, frame, world, call.args[0])
            dst = self.eval(func, frame, world, call.args[1])
            if isinstance(dst, tuple) and dst[0] == "user":
                new_world = new_world.replace(written=new_world.written | {dst[1]})
                note = f"{func.short}: user file {dst[1]} written by {name}"
            if isinstance(dst, tuple) and dst[0] == "temp":
                new_world = new_world.replace(temps=new_world.temps | {dst[1]})
            if name in ("os.replace", "os.rename", "shutil.move") and isinstance(src, tuple) and src[0] == "temp":
                new_world = new_world.replace(temps=new_world.temps - {src[1]})
        elif name.endswith("NamedTemporaryFile"):
            keep = any(k.arg == "delete" and isinstance(k.value, ast.Constant) and k.value.value is False for k in call.keywords)
            number = self.fresh_temp(frames, world)
            new_world = world.replace(temps=(world.temps | {number}) if keep else world.temps)
            result = ("tempobj", number, keep)
        elif leaf == "print_fix_message" and call.args:
            value = self.eval(func, frame, world, call.args[0])
            index = value[1] if isinstance(value, tuple) and value[0] == "user" else -1
            new_world = world.replace(announced=world.announced | {index})
            note = f"{func.short}: 'Fixed:' announced for file {index}"
        elif leaf in ("print_system_error",):
            new_world = world.replace(reported_errors=min(world.reported_errors + 1, 3))
        else:
            result = self.eval(func, frame, world, call)
            # fault point?
            classes: Set[str] = set()
            if site is not None:
                for target in site.targets:
                    if target.qualname in self.driver and not self.effect_free(target):
                        continue
                    for cls in self.ra.escapes.get(target.qualname, set()):
                        base = cls.split("@")[0]
                        source = cls.partition("@")[2]
                        if base in FAULT_CLASSES and (base not in ("OSError", "UnicodeDecodeError") or source in ("open", "read", "readlines")):
                            classes.add(base)
            for cls in sorted(classes):
                fault_world = world.replace(faults=world.faults + ((world.file_index, cls),)) if len(world.faults) < 2 else None
                if fault_world is None:
                    continue
                outs.extend(self.raise_in(frames, fault_world, cls, f"{func.short}: {norm(call.func)[:50]} raises {cls} (file {world.file_index})"))
        # bind the result
        if targets == ("<return>",):
            new_frame = new_frame.set("<ret>", result)
        elif targets and targets[-1] == "<tuple>":
            for target_name in targets[:-1]:
                if target_name != "_":
                    new_frame = new_frame.set(target_name, UNKNOWN)
        elif targets and targets[0].startswith("<attr>"):
            new_world = new_world.set_field(f"{func.cls.name if func.cls else ''}.{targets[0][6:]}", result)
        elif targets and targets[0] not in ("_", "<cond>"):
            new_frame = new_frame.set(targets[0], result)
        if reenter:
            return outs + [(frames[:-1] + (new_frame,), new_world, note)]
        return outs + self.advance(frames[:-1] + (new_frame,), new_world, note)
