"""
Rename tolerance for private members.

The rules name their anchors (``FileScanHelper.__scan_file``, ``PragmaExtension.__document_pragmas``, …).
A private (double-underscore) member is name-mangled, hence class-local: renaming one is a
behaviour-preserving edit that touches a single class body.  Without help such an edit makes
an anchor vanish and the check refuses to run (exit 2).

``canonicalise(rel, text)`` undoes such renames before the program model is built:

* the pinned tree's private members per class are recorded in ``baseline/private_members.json``
  (methods with a bag of structural features, fields with the set of methods that read / write
  them) by ``tools/gen_private_baseline.py``;
* when a recorded name no longer occurs in its file, the members of that class that the baseline
  does not know are matched against the missing ones by feature similarity (weighted Jaccard,
  position in the class as tie-breaker); a match above the threshold is renamed *back*, by
  word-boundary replacement inside the class's line span, so every line number is preserved;
* every rename is reported (``Program.renames``) and printed by the check.

Nothing is guessed below the threshold: an unmatched missing anchor still ends in ANALYSIS-ERROR.
"""

from __future__ import annotations

import ast
import json
import os
import re
from collections import Counter
from typing import Dict, List, Optional, Tuple

BASELINE_PATH = os.path.join(os.path.dirname(os.path.abspath(__file__)), "baseline", "private_members.json")
THRESHOLD = 0.55
_WORD = re.compile(r"[A-Za-z_][A-Za-z0-9_]*")
_baseline: Optional[Dict[str, Dict[str, Dict[str, Dict[str, object]]]]] = None
_cache: Dict[Tuple[str, int], Tuple[str, List[str]]] = {}


def is_private(name: str) -> bool:
    return name.startswith("__") and not name.endswith("__")


def baseline() -> Dict[str, Dict[str, Dict[str, Dict[str, object]]]]:
    global _baseline
    if _baseline is None:
        if os.path.exists(BASELINE_PATH):
            with open(BASELINE_PATH, encoding="utf-8") as handle:
                _baseline = json.load(handle)
        else:
            _baseline = {}
    return _baseline


# ------------------------------------------------------------------------------ fingerprints
def _classes(tree: ast.Module) -> List[Tuple[str, ast.ClassDef]]:
    found: List[Tuple[str, ast.ClassDef]] = []

    def visit(body: List[ast.stmt], prefix: str) -> None:
        for node in body:
            if isinstance(node, ast.ClassDef):
                found.append((prefix + node.name, node))
                visit(node.body, prefix + node.name + ".")

    visit(tree.body, "")
    return found


def method_features(node: ast.AST) -> Counter:
    bag: Counter = Counter()
    assert isinstance(node, (ast.FunctionDef, ast.AsyncFunctionDef))
    for arg in node.args.posonlyargs + node.args.args + node.args.kwonlyargs:
        bag["p:" + arg.arg] += 1
    for deco in node.decorator_list:
        bag["d:" + ast.dump(deco)[:40]] += 1
    for sub in ast.walk(node):
        if isinstance(sub, ast.Call):
            func = sub.func
            name = func.attr if isinstance(func, ast.Attribute) else func.id if isinstance(func, ast.Name) else ""
            if name and not is_private(name):
                bag["c:" + name] += 1
        elif isinstance(sub, ast.Attribute):
            if not is_private(sub.attr):
                bag["a:" + sub.attr] += 1
        elif isinstance(sub, ast.Constant) and isinstance(sub.value, (str, int)) and not isinstance(sub.value, bool):
            text = repr(sub.value)
            if len(text) <= 60:
                bag["k:" + text] += 1
        elif isinstance(sub, ast.stmt):
            bag["s:" + type(sub).__name__] += 1
    return bag


def class_members(klass: ast.ClassDef) -> Dict[str, Dict[str, object]]:
    """private members of one class: methods (feature bags) and fields (users by method)."""
    members: Dict[str, Dict[str, object]] = {}
    methods = [n for n in klass.body if isinstance(n, (ast.FunctionDef, ast.AsyncFunctionDef))]
    for index, node in enumerate(methods):
        if is_private(node.name):
            members[node.name] = {"kind": "method", "index": index, "feat": dict(method_features(node))}
    method_names = {n.name for n in methods}
    field_index = 0
    for stmt in klass.body:  # class-level private attributes
        targets = stmt.targets if isinstance(stmt, ast.Assign) else [stmt.target] if isinstance(stmt, ast.AnnAssign) else []
        for target in targets:
            if isinstance(target, ast.Name) and is_private(target.id):
                members.setdefault(target.id, {"kind": "field", "index": field_index, "feat": {}})
                members[target.id]["feat"]["W:<class>"] = 1  # type: ignore[index]
                field_index += 1
    for node in methods:
        for sub in ast.walk(node):
            if isinstance(sub, ast.Attribute) and is_private(sub.attr) and sub.attr not in method_names:
                entry = members.setdefault(sub.attr, {"kind": "field", "index": field_index, "feat": {}})
                if entry["kind"] != "field":
                    continue
                if len(entry["feat"]) == 0:  # type: ignore[arg-type]
                    field_index += 1
                mode = "W" if isinstance(sub.ctx, (ast.Store, ast.Del)) else "R"
                key = f"{mode}:{node.name}"
                feat: Dict[str, int] = entry["feat"]  # type: ignore[assignment]
                feat[key] = min(3, feat.get(key, 0) + 1)
    return members


def file_members(tree: ast.Module) -> Dict[str, Dict[str, Dict[str, object]]]:
    return {qual: class_members(node) for qual, node in _classes(tree)}


def similarity(left: Dict[str, int], right: Dict[str, int]) -> float:
    keys = set(left) | set(right)
    if not keys:
        return 0.0
    low = sum(min(left.get(k, 0), right.get(k, 0)) for k in keys)
    high = sum(max(left.get(k, 0), right.get(k, 0)) for k in keys)
    return low / high if high else 0.0


def _match(missing: Dict[str, Dict[str, object]], fresh: Dict[str, Dict[str, object]]) -> Dict[str, str]:
    """new name -> baseline name"""
    scored: List[Tuple[float, int, str, str]] = []
    for old, old_entry in missing.items():
        for new, new_entry in fresh.items():
            if old_entry["kind"] != new_entry["kind"]:
                continue
            score = similarity(old_entry["feat"], new_entry["feat"])  # type: ignore[arg-type]
            if score >= THRESHOLD:
                distance = abs(int(old_entry["index"]) - int(new_entry["index"]))  # type: ignore[call-overload]
                scored.append((score, -distance, old, new))
    scored.sort(reverse=True)
    mapping: Dict[str, str] = {}
    taken = set()
    for _score, _distance, old, new in scored:
        if old in taken or new in mapping:
            continue
        mapping[new] = old
        taken.add(old)
    return mapping


def _rename_fields_in_features(feat: Dict[str, int], method_map: Dict[str, str]) -> Dict[str, int]:
    out: Dict[str, int] = {}
    for key, count in feat.items():
        mode, _, name = key.partition(":")
        out[f"{mode}:{method_map.get(name, name)}"] = count
    return out


def canonicalise(rel: str, text: str) -> Tuple[str, List[str]]:
    """Return (text with renamed private members renamed back, list of human-readable renames)."""
    recorded = baseline().get(rel)
    if not recorded:
        return text, []
    key = (rel, hash(text))
    if key in _cache:
        return _cache[key]
    words = set(_WORD.findall(text))
    if all(name in words for members in recorded.values() for name in members):
        _cache[key] = (text, [])
        return _cache[key]
    try:
        tree = ast.parse(text)
    except SyntaxError:
        return text, []  # the loader reports the syntax error
    lines = text.split("\n")
    notes: List[str] = []
    for qual, klass in _classes(tree):
        base_members = recorded.get(qual)
        if not base_members:
            continue
        current = class_members(klass)
        missing = {n: e for n, e in base_members.items() if n not in current}
        if not missing:
            continue
        fresh = {n: e for n, e in current.items() if n not in base_members}
        method_map = _match({n: e for n, e in missing.items() if e["kind"] == "method"},
                            {n: e for n, e in fresh.items() if e["kind"] == "method"})
        fresh_fields = {
            n: {**e, "feat": _rename_fields_in_features(e["feat"], method_map)}  # type: ignore[arg-type]
            for n, e in fresh.items() if e["kind"] == "field"
        }
        field_map = _match({n: e for n, e in missing.items() if e["kind"] == "field"}, fresh_fields)
        mapping = {**method_map, **field_map}
        if not mapping:
            continue
        first, last = klass.lineno - 1, (klass.end_lineno or klass.lineno)
        simple = qual.split(".")[-1].lstrip("_")
        pattern = re.compile(
            r"(?<![A-Za-z0-9_])(_" + re.escape(simple) + r")?(" + "|".join(re.escape(n) for n in sorted(mapping, key=len, reverse=True)) + r")(?![A-Za-z0-9_])"
        )
        for index in range(first, min(last, len(lines))):
            if "__" in lines[index]:
                lines[index] = pattern.sub(lambda m: (m.group(1) or "") + mapping[m.group(2)], lines[index])
        for new, old in sorted(mapping.items()):
            notes.append(f"{rel}: {qual}.{new} is analysed under its pinned name {qual}.{old}")
    result = ("\n".join(lines), notes)
    _cache[key] = result
    return result


# ------------------------------------------------------------------------------ public methods
PUBLIC_KEY = "__public__"


def public_members(tree: ast.Module) -> Dict[str, Dict[str, Dict[str, object]]]:
    """public (non-dunder, non-private) methods per class with their fingerprints"""
    out: Dict[str, Dict[str, Dict[str, object]]] = {}
    for qual, klass in _classes(tree):
        methods = [n for n in klass.body if isinstance(n, (ast.FunctionDef, ast.AsyncFunctionDef))]
        entry = {
            node.name: {"kind": "method", "index": index, "feat": dict(method_features(node))}
            for index, node in enumerate(methods)
            if not node.name.startswith("_")
        }
        if entry:
            out[qual] = entry
    return out


def public_rename_map(read_raw, files: List[str]) -> Tuple[Dict[str, str], List[str]]:
    """new public method name -> pinned name, for methods whose pinned name is unique in the package, has
    vanished from its class, and whose body is recognisably that of a method the baseline does not know.
    ``read_raw(rel)`` returns the text of a file of the tree under analysis."""
    recorded = baseline().get(PUBLIC_KEY)
    if not recorded:
        return {}, []
    known_names = {name for per_class in recorded.values() for members in per_class.values() for name in members}
    mapping: Dict[str, str] = {}
    notes: List[str] = []
    for rel, per_class in recorded.items():
        if rel not in files:
            continue
        text = read_raw(rel)
        if all(re.search(r"def\s+" + re.escape(name) + r"\s*\(", text) for members in per_class.values() for name in members):
            continue
        try:
            tree = ast.parse(text)
        except SyntaxError:
            continue
        current = public_members(tree)
        for qual, base_members in per_class.items():
            now = current.get(qual, {})
            missing = {n: e for n, e in base_members.items() if n not in now}
            fresh = {n: e for n, e in now.items() if n not in base_members and n not in known_names}
            if not missing or not fresh:
                continue
            for new, old in _match(missing, fresh).items():
                mapping[new] = old
                notes.append(f"{rel}: {qual}.{new} is analysed under its pinned name {qual}.{old}")
    return mapping, notes
