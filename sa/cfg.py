"""
Statement-level control-flow graph for the statement kinds pymarkdown uses.

* one node per simple statement; compound statements contribute condition nodes;
* branch conditions are decomposed through ``and`` / ``or`` / ``not`` so that every
  ``true`` / ``false`` edge leaves an atomic test (needed for guard facts);
* exceptional control flow: every node that contains a call, ``raise`` or ``assert``
  has an ``exc`` edge to the handlers of the enclosing ``try`` (all of them — the
  class filter is applied by the client through ``handler_catches``) and, when no
  handler is a catch-all, onwards to the enclosing try or the function's RAISE exit;
* ``finally`` bodies are duplicated per continuation (normal / exceptional / return /
  break / continue) so that paths stay precise;
* ``with`` bodies are treated as plain blocks (the context managers used in the repo —
  ``open`` and ``NamedTemporaryFile`` — do not swallow exceptions).
"""

from __future__ import annotations

import ast
from dataclasses import dataclass, field
from typing import Callable, Dict, Iterable, List, Optional, Set, Tuple


@dataclass
class Node:
    nid: int
    kind: str  # entry | exit | raise | stmt | cond | loop | handler | with | join
    ast_node: Optional[ast.AST] = None
    label: str = ""

    @property
    def lineno(self) -> int:
        return getattr(self.ast_node, "lineno", 0) if self.ast_node is not None else 0


@dataclass
class Frame:
    """Where control goes for non-local exits while building."""

    handlers: List[int] = field(default_factory=list)  # handler-dispatch nodes of enclosing try
    catch_all: bool = False
    finally_body: Optional[List[ast.stmt]] = None
    kind: str = "try"  # try | loop
    break_to: Optional[int] = None
    continue_to: Optional[int] = None


class CFG:
    def __init__(self, func_node: ast.AST, raising: Optional[Callable[[ast.AST], bool]] = None):
        self.func_node = func_node
        self.nodes: List[Node] = []
        self.succ: Dict[int, List[Tuple[int, str]]] = {}
        self.pred: Dict[int, List[Tuple[int, str]]] = {}
        self.raising = raising or default_raising
        self.entry = self._new("entry").nid
        self.exit = self._new("exit").nid
        self.raise_exit = self._new("raise").nid
        self.stmt_node: Dict[int, int] = {}  # id(ast stmt) -> first node id
        self._frames: List[Frame] = []
        body = getattr(func_node, "body", [])
        ends = self._block(body, [(self.entry, "next")])
        for src, label in ends:
            self._edge(src, self.exit, label)

    # ------------------------------------------------------------------ building
    def _new(self, kind: str, ast_node: Optional[ast.AST] = None, label: str = "") -> Node:
        node = Node(len(self.nodes), kind, ast_node, label)
        self.nodes.append(node)
        self.succ[node.nid] = []
        self.pred[node.nid] = []
        return node

    def _edge(self, src: int, dst: int, label: str = "next") -> None:
        if (dst, label) not in self.succ[src]:
            self.succ[src].append((dst, label))
            self.pred[dst].append((src, label))

    def _connect(self, incoming: List[Tuple[int, str]], dst: int) -> None:
        for src, label in incoming:
            self._edge(src, dst, label)

    def _block(self, stmts: Iterable[ast.stmt], incoming: List[Tuple[int, str]]) -> List[Tuple[int, str]]:
        for stmt in stmts:
            if not incoming:
                # unreachable code still gets nodes (so lookups work) but no edges in
                incoming = []
            incoming = self._stmt(stmt, incoming)
        return incoming

    def _exc_edges(self, nid: int) -> None:
        """Exceptional successors of node ``nid`` given the current frame stack."""
        self._route_exception([(nid, "exc")], len(self._frames))

    def _route_exception(self, incoming: List[Tuple[int, str]], depth: int) -> None:
        index = depth - 1
        while index >= 0:
            frame = self._frames[index]
            if frame.kind == "try":
                if frame.handlers:
                    for handler in frame.handlers:
                        self._connect(incoming, handler)
                    if frame.catch_all:
                        return
                if frame.finally_body is not None and not frame.handlers:
                    # try/finally without handlers or after handlers: run finally, keep raising
                    saved = self._frames
                    self._frames = self._frames[:index]
                    ends = self._block(frame.finally_body, incoming)
                    self._frames = saved
                    incoming = list(ends)
                    if not incoming:
                        return
            index -= 1
        self._connect(incoming, self.raise_exit)

    def _run_finallies(self, incoming: List[Tuple[int, str]], down_to: int) -> List[Tuple[int, str]]:
        """Execute finally bodies of frames[down_to:] innermost first (for return/break/continue)."""
        index = len(self._frames) - 1
        while index >= down_to:
            frame = self._frames[index]
            if frame.kind == "try" and frame.finally_body is not None:
                saved = self._frames
                self._frames = self._frames[:index]
                incoming = self._block(frame.finally_body, incoming)
                self._frames = saved
            index -= 1
        return incoming

    def _cond(self, test: ast.AST, incoming: List[Tuple[int, str]]) -> Tuple[List[Tuple[int, str]], List[Tuple[int, str]]]:
        """Decompose a condition; returns (true_out, false_out)."""
        if isinstance(test, ast.BoolOp):
            if isinstance(test.op, ast.And):
                false_out: List[Tuple[int, str]] = []
                cur = incoming
                for value in test.values:
                    cur, f_out = self._cond(value, cur)
                    false_out.extend(f_out)
                return cur, false_out
            true_out: List[Tuple[int, str]] = []
            cur = incoming
            for value in test.values:
                t_out, cur = self._cond(value, cur)
                true_out.extend(t_out)
            return true_out, cur
        if isinstance(test, ast.UnaryOp) and isinstance(test.op, ast.Not):
            t_out, f_out = self._cond(test.operand, incoming)
            return f_out, t_out
        node = self._new("cond", test)
        self._connect(incoming, node.nid)
        if self.raising(test):
            self._exc_edges(node.nid)
        if isinstance(test, ast.Constant):
            if test.value:
                return [(node.nid, "true")], []
            return [], [(node.nid, "false")]
        return [(node.nid, "true")], [(node.nid, "false")]

    def _simple(self, stmt: ast.stmt, incoming: List[Tuple[int, str]], kind: str = "stmt") -> Node:
        node = self._new(kind, stmt)
        self.stmt_node.setdefault(id(stmt), node.nid)
        self._connect(incoming, node.nid)
        if self.raising(stmt):
            self._exc_edges(node.nid)
        return node

    def _stmt(self, stmt: ast.stmt, incoming: List[Tuple[int, str]]) -> List[Tuple[int, str]]:
        if isinstance(stmt, ast.If):
            first = len(self.nodes)
            t_out, f_out = self._cond(stmt.test, incoming)
            self.stmt_node.setdefault(id(stmt), first)
            body_out = self._block(stmt.body, t_out)
            else_out = self._block(stmt.orelse, f_out) if stmt.orelse else f_out
            return body_out + else_out
        if isinstance(stmt, ast.While):
            head = self._new("loop", stmt, "while")
            self.stmt_node.setdefault(id(stmt), head.nid)
            self._connect(incoming, head.nid)
            t_out, f_out = self._cond(stmt.test, [(head.nid, "next")])
            after = self._new("join", stmt, "after-while")
            frame = Frame(kind="loop", break_to=after.nid, continue_to=head.nid)
            self._frames.append(frame)
            body_out = self._block(stmt.body, t_out)
            self._frames.pop()
            self._connect(body_out, head.nid)
            else_out = self._block(stmt.orelse, f_out) if stmt.orelse else f_out
            self._connect(else_out, after.nid)
            return [(after.nid, "next")]
        if isinstance(stmt, (ast.For, ast.AsyncFor)):
            init = self._new("stmt", stmt.iter, "for-iter")
            self.stmt_node.setdefault(id(stmt), init.nid)
            self._connect(incoming, init.nid)
            if self.raising(stmt.iter):
                self._exc_edges(init.nid)
            head = self._new("loop", stmt, "for")
            self._edge(init.nid, head.nid)
            after = self._new("join", stmt, "after-for")
            frame = Frame(kind="loop", break_to=after.nid, continue_to=head.nid)
            self._frames.append(frame)
            body_out = self._block(stmt.body, [(head.nid, "true")])
            self._frames.pop()
            self._connect(body_out, head.nid)
            else_in = [(head.nid, "false")]
            else_out = self._block(stmt.orelse, else_in) if stmt.orelse else else_in
            self._connect(else_out, after.nid)
            return [(after.nid, "next")]
        if isinstance(stmt, ast.Try) or stmt.__class__.__name__ == "TryStar":
            return self._try(stmt, incoming)
        if isinstance(stmt, (ast.With, ast.AsyncWith)):
            node = self._simple(stmt, incoming, "with")
            # evaluate only the context expressions for raising purposes
            return self._block(stmt.body, [(node.nid, "next")])
        if isinstance(stmt, ast.Return):
            node = self._simple(stmt, incoming)
            ends = self._run_finallies([(node.nid, "next")], 0)
            self._connect(ends, self.exit)
            return []
        if isinstance(stmt, ast.Raise):
            node = self._new("stmt", stmt)
            self.stmt_node.setdefault(id(stmt), node.nid)
            self._connect(incoming, node.nid)
            self._exc_edges(node.nid)
            return []
        if isinstance(stmt, (ast.Break, ast.Continue)):
            node = self._simple(stmt, incoming)
            depth = len(self._frames) - 1
            while depth >= 0 and self._frames[depth].kind != "loop":
                depth -= 1
            if depth < 0:
                return []
            ends = self._run_finallies([(node.nid, "next")], depth + 1)
            target = self._frames[depth].break_to if isinstance(stmt, ast.Break) else self._frames[depth].continue_to
            assert target is not None
            self._connect(ends, target)
            return []
        if isinstance(stmt, (ast.FunctionDef, ast.AsyncFunctionDef, ast.ClassDef)):
            node = self._new("stmt", stmt, "def")
            self._connect(incoming, node.nid)
            return [(node.nid, "next")]
        if isinstance(stmt, ast.Match):
            node = self._simple(stmt, incoming)
            outs: List[Tuple[int, str]] = []
            for case in stmt.cases:
                outs.extend(self._block(case.body, [(node.nid, "true")]))
            outs.append((node.nid, "false"))
            return outs
        if isinstance(stmt, ast.Assert):
            node = self._new("stmt", stmt)
            self.stmt_node.setdefault(id(stmt), node.nid)
            self._connect(incoming, node.nid)
            self._exc_edges(node.nid)
            return [(node.nid, "next")]
        node = self._simple(stmt, incoming)
        return [(node.nid, "next")]

    def _try(self, stmt: ast.AST, incoming: List[Tuple[int, str]]) -> List[Tuple[int, str]]:
        handlers = list(getattr(stmt, "handlers", []))
        final_body: Optional[List[ast.stmt]] = list(stmt.finalbody) if stmt.finalbody else None
        outer = Frame(kind="try", handlers=[], catch_all=False, finally_body=final_body)
        # frame that only carries the finally (active inside handlers and else)
        self._frames.append(outer)
        handler_nodes: List[Node] = []
        catch_all = False
        for handler in handlers:
            node = self._new("handler", handler)
            self.stmt_node.setdefault(id(handler), node.nid)
            handler_nodes.append(node)
            if handler.type is None:
                catch_all = True
            else:
                names = [handler.type] if not isinstance(handler.type, ast.Tuple) else list(handler.type.elts)
                for name in names:
                    text = ast.unparse(name).split(".")[-1]
                    if text in ("Exception", "BaseException"):
                        catch_all = True
        inner = Frame(kind="try", handlers=[n.nid for n in handler_nodes], catch_all=catch_all, finally_body=None)
        self._frames.append(inner)
        marker = self._new("join", stmt, "try")
        self.stmt_node.setdefault(id(stmt), marker.nid)
        self._connect(incoming, marker.nid)
        body_out = self._block(stmt.body, [(marker.nid, "next")])
        self._frames.pop()
        if stmt.orelse:
            body_out = self._block(stmt.orelse, body_out)
        outs = list(body_out)
        for node, handler in zip(handler_nodes, handlers):
            outs.extend(self._block(handler.body, [(node.nid, "next")]))
        self._frames.pop()
        if final_body is not None:
            outs = self._block(final_body, outs)
        return outs

    # ------------------------------------------------------------------ queries
    def nodes_of(self, predicate: Callable[[Node], bool]) -> List[Node]:
        return [node for node in self.nodes if predicate(node)]

    def reachable_from(self, start: Iterable[int], blocked: Optional[Set[int]] = None,
                       labels: Optional[Set[str]] = None) -> Dict[int, Optional[int]]:
        """Forward reachability avoiding ``blocked`` nodes; returns parent map for witnesses."""
        blocked = blocked or set()
        parent: Dict[int, Optional[int]] = {}
        queue: List[int] = []
        for nid in start:
            if nid not in parent:
                parent[nid] = None
                queue.append(nid)
        while queue:
            cur = queue.pop(0)
            for dst, label in self.succ[cur]:
                if labels is not None and label not in labels:
                    continue
                if dst in blocked or dst in parent:
                    continue
                parent[dst] = cur
                queue.append(dst)
        return parent

    def successors_after(self, nid: int, labels: Optional[Set[str]] = None) -> List[int]:
        return [dst for dst, label in self.succ[nid] if labels is None or label in labels]

    def path_to(self, parent: Dict[int, Optional[int]], nid: int) -> List[int]:
        path = []
        cur: Optional[int] = nid
        while cur is not None:
            path.append(cur)
            cur = parent.get(cur)
        return list(reversed(path))

    def describe(self, nid: int) -> str:
        node = self.nodes[nid]
        if node.kind in ("entry", "exit", "raise"):
            return {"entry": "ENTRY", "exit": "RETURN", "raise": "RAISE"}[node.kind]
        text = ""
        if node.ast_node is not None:
            try:
                if isinstance(node.ast_node, ast.ExceptHandler):
                    text = "except " + (ast.unparse(node.ast_node.type) if node.ast_node.type else "")
                elif isinstance(node.ast_node, (ast.While, ast.For, ast.Try, ast.With)):
                    text = node.label or node.ast_node.__class__.__name__.lower()
                else:
                    text = " ".join(ast.unparse(node.ast_node).split())[:70]
            except Exception:  # pragma: no cover
                text = node.kind
        return f"L{node.lineno}:{text}"

    def dominators(self) -> Dict[int, Set[int]]:
        """Classic iterative dominators from the entry node."""
        all_nodes = set(self.reachable_from([self.entry]).keys())
        dom: Dict[int, Set[int]] = {nid: set(all_nodes) for nid in all_nodes}
        dom[self.entry] = {self.entry}
        changed = True
        order = sorted(all_nodes)
        while changed:
            changed = False
            for nid in order:
                if nid == self.entry:
                    continue
                preds = [p for p, _ in self.pred[nid] if p in all_nodes]
                new: Set[int] = set(all_nodes)
                for pred in preds:
                    new &= dom[pred]
                new = new | {nid}
                if new != dom[nid]:
                    dom[nid] = new
                    changed = True
        return dom


def default_raising(node: ast.AST) -> bool:
    """May evaluating this statement/expression raise?  (calls, raise, assert, subscripts are
    deliberately not counted: implicit IndexError/KeyError are internal errors, see DESIGN)."""
    if isinstance(node, (ast.With, ast.AsyncWith)):
        return any(_contains_call(item.context_expr) for item in node.items)
    if isinstance(node, (ast.Raise, ast.Assert)):
        return True
    if isinstance(node, (ast.If, ast.While, ast.For, ast.Try)):
        return False
    return _contains_call(node)


def _contains_call(node: ast.AST) -> bool:
    stack = [node]
    while stack:
        cur = stack.pop()
        if isinstance(cur, (ast.Call, ast.Await, ast.Yield, ast.YieldFrom)):
            return True
        if isinstance(cur, (ast.FunctionDef, ast.AsyncFunctionDef, ast.Lambda, ast.ClassDef)) and cur is not node:
            continue
        stack.extend(ast.iter_child_nodes(cur))
    return False


def handler_catches(handler: ast.ExceptHandler) -> List[str]:
    """Leaf class names a handler catches; ['*'] for bare except."""
    if handler.type is None:
        return ["*"]
    names = list(handler.type.elts) if isinstance(handler.type, ast.Tuple) else [handler.type]
    return [ast.unparse(name).split(".")[-1] for name in names]
