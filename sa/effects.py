"""
Effect summaries: which repo functions are *pure* (no store that outlives their frame).

A function is impure when it stores to an attribute or element of something it did not create
(parameter, global, class), calls a mutator on such an object, declares ``global``/``nonlocal``,
or calls an impure / unknown function.  Least fixpoint from "everything impure" downwards is
not needed: we start from the functions with a direct effect and propagate impurity to callers.
"""

from __future__ import annotations

import ast
from typing import Dict, List, Optional, Set

from sa.model import FuncInfo, Program, dotted, walk_local
from sa.state import MUTATORS

PURE_BUILTINS = {
    "len", "isinstance", "issubclass", "min", "max", "abs", "int", "str", "bool", "float", "ord", "chr", "range",
    "enumerate", "zip", "sorted", "list", "tuple", "set", "frozenset", "dict", "any", "all", "sum", "repr", "hash",
    "id", "type", "callable", "getattr", "hasattr", "reversed", "map", "filter", "round", "divmod", "cast", "bytes",
    "format", "iter", "hex", "oct", "bin", "print", "super", "vars",
}
PURE_METHODS = {
    "find", "rfind", "index", "rindex", "startswith", "endswith", "isdigit", "isalpha", "isalnum", "isspace", "isupper",
    "islower", "strip", "lstrip", "rstrip", "lower", "upper", "split", "rsplit", "splitlines", "join", "count", "get",
    "keys", "values", "items", "copy", "replace", "format", "encode", "decode", "title", "capitalize", "partition",
    "rpartition", "zfill", "ljust", "rjust", "center", "casefold", "swapcase", "expandtabs", "translate", "isnumeric",
    "isdecimal", "isidentifier", "isprintable", "istitle", "removeprefix", "removesuffix", "union", "intersection",
    "difference", "issubset", "issuperset", "match", "search", "fullmatch", "group", "groups", "span", "start", "end",
    "debug", "info", "warning", "error", "exception", "critical", "debug_with_visible_whitespace", "is_enabled_for",
    "isEnabledFor",
}
PURE_EXTERNAL_PREFIXES = ("os.path.", "re.", "string.", "math.", "unicodedata.", "typing.", "logging.", "copy.", "urllib.parse.", "inspect.", "str.", "tuple.", "int.", "bool.")


LOGGING_CLASSES = {"ParserLogger"}  # logging has no effect the parser can observe


class Purity:
    def __init__(self, prog: Program):
        self.prog = prog
        self.impure: Dict[str, str] = {}  # qualname -> reason
        self._direct()
        self._propagate()

    def _local_roots(self, func: FuncInfo) -> Set[str]:
        """Names bound to objects the function created itself (constructor / literal / comprehension)."""
        fresh: Set[str] = set()
        for node in walk_local(func.node):
            if isinstance(node, (ast.Assign, ast.AnnAssign)) and getattr(node, "value", None) is not None:
                value = node.value
                is_fresh = isinstance(value, (ast.List, ast.Dict, ast.Set, ast.ListComp, ast.DictComp, ast.SetComp, ast.Constant, ast.JoinedStr, ast.Tuple))
                if isinstance(value, ast.Call):
                    typ = self.prog.infer(func, value.func)
                    name = dotted(value.func) or ""
                    if (typ and typ[0] == "type") or name in ("list", "dict", "set", "copy.deepcopy", "copy.copy", "sorted", "collections.OrderedDict"):
                        is_fresh = True
                if isinstance(value, ast.Subscript) and isinstance(value.slice, ast.Slice):
                    is_fresh = True
                if is_fresh:
                    targets = node.targets if isinstance(node, ast.Assign) else [node.target]
                    for target in targets:
                        if isinstance(target, ast.Name):
                            fresh.add(target.id)
        # a name also assigned from a non-fresh value is not fresh
        for node in walk_local(func.node):
            if isinstance(node, ast.Assign):
                value = node.value
                is_fresh = isinstance(value, (ast.List, ast.Dict, ast.Set, ast.ListComp, ast.DictComp, ast.SetComp, ast.Constant, ast.JoinedStr, ast.Tuple))
                if isinstance(value, ast.Call):
                    typ = self.prog.infer(func, value.func)
                    name = dotted(value.func) or ""
                    is_fresh = bool((typ and typ[0] == "type") or name in ("list", "dict", "set", "copy.deepcopy", "copy.copy", "sorted", "collections.OrderedDict"))
                if isinstance(value, ast.Subscript) and isinstance(value.slice, ast.Slice):
                    is_fresh = True
                if not is_fresh:
                    for target in node.targets:
                        if isinstance(target, ast.Name):
                            fresh.discard(target.id)
        return fresh - set(func.params)

    def _direct(self) -> None:
        for func in self.prog.iter_functions():
            fresh = self._local_roots(func)
            reason: Optional[str] = None
            for node in walk_local(func.node):
                if isinstance(node, (ast.Global, ast.Nonlocal)):
                    reason = "global/nonlocal"
                targets: List[ast.AST] = []
                if isinstance(node, ast.Assign):
                    targets = list(node.targets)
                elif isinstance(node, (ast.AugAssign, ast.AnnAssign)):
                    targets = [node.target]
                elif isinstance(node, ast.Delete):
                    targets = list(node.targets)
                for target in targets:
                    for sub in ([target] if not isinstance(target, (ast.Tuple, ast.List)) else list(target.elts)):
                        base = sub
                        stored = False
                        while isinstance(base, (ast.Subscript, ast.Attribute)):
                            base = base.value
                            stored = True
                        if stored and isinstance(base, ast.Name) and base.id not in fresh:
                            reason = reason or f"stores through '{base.id}'"
                        elif stored and not isinstance(base, ast.Name):
                            reason = reason or "stores through an expression"
                if isinstance(node, ast.Call) and isinstance(node.func, ast.Attribute) and node.func.attr in MUTATORS:
                    base = node.func.value
                    while isinstance(base, (ast.Subscript, ast.Attribute)):
                        base = base.value
                    if not (isinstance(base, ast.Name) and base.id in fresh):
                        reason = reason or f"mutates '{dotted(node.func.value) or 'expr'}'"
                if isinstance(node, (ast.Yield, ast.YieldFrom)):
                    reason = reason or "generator"
            if reason:
                self.impure[func.qualname] = reason

    def call_is_pure(self, func: FuncInfo, call: ast.Call) -> bool:
        site = None
        for candidate in self.prog.sites_in(func):
            if candidate.node is call:
                site = candidate
                break
        if site is None:
            return False
        if site.wild:
            return False
        if site.targets:
            return all(t.qualname not in self.impure or (t.cls is not None and t.cls.name in LOGGING_CLASSES) for t in site.targets)
        ext = site.external or ""
        if ext.startswith("builtins."):
            return ext.split(".")[-1] in PURE_BUILTINS
        if isinstance(call.func, ast.Attribute) and call.func.attr in PURE_METHODS:
            return True
        if ext.startswith(PURE_EXTERNAL_PREFIXES):
            return True
        if ext.startswith("ctor."):
            return True
        return False

    def _propagate(self) -> None:
        changed = True
        rounds = 0
        while changed and rounds < 50:
            changed = False
            rounds += 1
            for func in self.prog.iter_functions():
                if func.qualname in self.impure:
                    continue
                for site in self.prog.sites_in(func):
                    if not self.call_is_pure(func, site.node):
                        # constructors of repo classes count as pure when __init__ only touches self
                        if site.targets and all(t.name == "__init__" for t in site.targets):
                            continue
                        self.impure[func.qualname] = f"calls {dotted(site.node.func) or 'a function value'}"
                        changed = True
                        break

    def is_pure(self, func: FuncInfo) -> bool:
        return func.qualname not in self.impure
