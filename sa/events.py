"""
Event-order analysis (rule family RF6).

A function is summarised, with event-bearing callees inlined, as the set of sequences of
abstract events its CFG paths can emit; the set is checked for inclusion in a specification
automaton by exploring the product (call stack x CFG node x automaton state).  Nothing is
executed: the exploration is over the CFG with all branches feasible, so a reported sequence
is a path of the code, and "no report" means every path of the code obeys the automaton.
"""

from __future__ import annotations

import ast
from dataclasses import dataclass
from typing import Callable, Dict, FrozenSet, List, Optional, Sequence, Set, Tuple

from sa.cfg import CFG
from sa.model import CallSite, FuncInfo, Program, norm, walk_local


@dataclass
class Spec:
    """Deterministic automaton: transitions[(state, event)] -> state."""

    start: int
    transitions: Dict[Tuple[int, str], int]
    accept_normal: Set[int]
    accept_raise: Set[int]
    names: Dict[int, str]


class EventOrder:
    def __init__(self, prog: Program, event_of: Callable[[FuncInfo, CallSite], Optional[str]],
                 raising: Optional[Callable[[FuncInfo], Callable[[ast.AST], bool]]] = None,
                 max_depth: int = 6):
        self.prog = prog
        self.event_of = event_of
        self.raising = raising
        self.max_depth = max_depth
        self._cfgs: Dict[str, CFG] = {}
        self._bearing: Dict[str, bool] = {}
        self.states_explored = 0
        self.transitions_explored = 0

    def cfg(self, func: FuncInfo) -> CFG:
        if func.qualname not in self._cfgs:
            raising = self.raising(func) if self.raising else None
            self._cfgs[func.qualname] = CFG(func.node, raising=raising)
        return self._cfgs[func.qualname]

    def bearing(self, func: FuncInfo, _seen: Optional[Set[str]] = None) -> bool:
        """Does the function (transitively, through non-dynamic calls) emit events?"""
        if func.qualname in self._bearing:
            return self._bearing[func.qualname]
        seen = _seen or set()
        if func.qualname in seen:
            return False
        seen = seen | {func.qualname}
        result = False
        for site in self.prog.sites_in(func):
            if self.event_of(func, site) is not None:
                result = True
                break
        if not result:
            for site in self.prog.sites_in(func):
                if site.wild or self.event_of(func, site) is not None:
                    continue
                if len(site.targets) == 1 and self.bearing(site.targets[0], seen):
                    result = True
                    break
        self._bearing[func.qualname] = result
        return result

    def node_actions(self, func: FuncInfo, node_ast: ast.AST) -> List[Tuple[str, object]]:
        """Ordered actions of one CFG node: ('event', name) or ('call', FuncInfo)."""
        actions: List[Tuple[int, int, str, object]] = []
        if isinstance(node_ast, (ast.With, ast.AsyncWith)):
            roots: List[ast.AST] = [item.context_expr for item in node_ast.items]
        elif isinstance(node_ast, (ast.For, ast.While, ast.If, ast.Try, ast.ExceptHandler)):
            roots = []
        else:
            roots = [node_ast]
        for root in roots:
            for sub in walk_local(root):
                if isinstance(sub, ast.Call):
                    for site in self.prog.sites_in(func):
                        if site.node is sub:
                            event = self.event_of(func, site)
                            if event is not None:
                                actions.append((getattr(sub, "end_lineno", 0) or 0, getattr(sub, "end_col_offset", 0) or 0, "event", event))
                            elif not site.wild and len(site.targets) == 1 and self.bearing(site.targets[0]):
                                actions.append((getattr(sub, "end_lineno", 0) or 0, getattr(sub, "end_col_offset", 0) or 0, "call", site.targets[0]))
        actions.sort(key=lambda a: (a[0], a[1]))  # inner calls complete before outer ones
        return [(kind, what) for _, _, kind, what in actions]

    def check(self, root: FuncInfo, spec: Spec) -> Optional[Dict[str, object]]:
        """None when every path of ``root`` is accepted; else a witness."""
        Frame = Tuple[str, int, int]  # function qualname, node id, index of next action in node
        start_cfg = self.cfg(root)
        initial = (((root.qualname, start_cfg.entry, 0),), spec.start, "n")
        parent: Dict[object, Optional[Tuple[object, str]]] = {initial: None}
        queue: List[object] = [initial]
        while queue:
            state = queue.pop(0)
            self.states_explored += 1
            stack, dfa, mode = state  # type: ignore[misc]
            qual, nid, index = stack[-1]
            func = self.prog.functions[qual]
            cfg = self.cfg(func)
            node = cfg.nodes[nid]
            # function exit
            if nid in (cfg.exit, cfg.raise_exit):
                exceptional = nid == cfg.raise_exit
                if len(stack) == 1:
                    accept = spec.accept_raise if exceptional else spec.accept_normal
                    if dfa not in accept:
                        return self._witness(parent, state, spec, f"{'exceptional' if exceptional else 'normal'} exit of {func.short} in life-cycle state '{spec.names.get(dfa, dfa)}'")
                    continue
                caller_qual, caller_nid, caller_index = stack[-2]
                caller_cfg = self.cfg(self.prog.functions[caller_qual])
                if exceptional:
                    # propagate into the caller's exceptional successors of the calling node
                    for dst, label in caller_cfg.succ[caller_nid]:
                        if label == "exc":
                            self._push(parent, queue, state, (stack[:-2] + ((caller_qual, dst, 0),), dfa, "n"), "raise")
                    if not any(label == "exc" for _, label in caller_cfg.succ[caller_nid]):
                        self._push(parent, queue, state, (stack[:-2] + ((caller_qual, caller_cfg.raise_exit, 0),), dfa, "n"), "raise")
                else:
                    self._push(parent, queue, state, (stack[:-2] + ((caller_qual, caller_nid, caller_index + 1),), dfa, "n"), "return")
                continue
            actions = self.node_actions(func, node.ast_node) if node.ast_node is not None and node.kind in ("stmt", "cond", "with") else []
            if index < len(actions):
                kind, what = actions[index]
                # the action may raise instead of completing
                for dst, label in cfg.succ[nid]:
                    if label == "exc":
                        self._push(parent, queue, state, (stack[:-1] + ((qual, dst, 0),), dfa, "n"), "exc")
                if kind == "event":
                    nxt = spec.transitions.get((dfa, str(what)))
                    if nxt is None:
                        return self._witness(parent, state, spec, f"event {what} at {func.rel}:{node.lineno} is not allowed in life-cycle state '{spec.names.get(dfa, dfa)}'")
                    self._push(parent, queue, state, (stack[:-1] + ((qual, nid, index + 1),), nxt, "n"), f"{what}")
                else:
                    callee: FuncInfo = what  # type: ignore[assignment]
                    if len(stack) >= self.max_depth or any(f[0] == callee.qualname for f in stack):
                        self._push(parent, queue, state, (stack[:-1] + ((qual, nid, index + 1),), dfa, "n"), "skip-call")
                    else:
                        callee_cfg = self.cfg(callee)
                        self._push(parent, queue, state, (stack[:-1] + ((qual, nid, index),) + ((callee.qualname, callee_cfg.entry, 0),), dfa, "n"), f"call {callee.short}")
                continue
            for dst, label in cfg.succ[nid]:
                if label == "exc" and actions:
                    continue  # exceptional edges of action nodes were taken per action
                self._push(parent, queue, state, (stack[:-1] + ((qual, dst, 0),), dfa, "n"), label)
        return None

    def _push(self, parent, queue, src, dst, label: str) -> None:
        self.transitions_explored += 1
        if dst not in parent:
            parent[dst] = (src, label)
            queue.append(dst)

    def _witness(self, parent, state, spec: Spec, message: str) -> Dict[str, object]:
        steps: List[str] = []
        cur = state
        guard = 0
        while cur is not None and guard < 400:
            guard += 1
            entry = parent.get(cur)
            stack, dfa, _ = cur
            qual, nid, _index = stack[-1]
            func = self.prog.functions[qual]
            cfg = self.cfg(func)
            if entry is not None and entry[1] not in ("next", "true", "false", "skip-call"):
                steps.append(f"{entry[1]:>8}  -> {func.short} {cfg.describe(nid)} [{spec.names.get(dfa, dfa)}]")
            cur = entry[0] if entry is not None else None
        steps.reverse()
        return {"message": message, "steps": steps[-24:]}
