"""
Program model of /repo/pymarkdown built from source text only (stdlib ``ast``).

Nothing in here imports or executes the analysed code.  The model offers:

* a *source provider* (path -> text) with an in-memory overlay, used by the
  self-test to analyse mutated variants of the current tree without scratch copies;
* module / class / function tables with import resolution, C3-ish MRO, subclasses;
* an annotation-driven type environment (parameters, ``self.<field>``, locals);
* call resolution (static names, ``self.m`` with class-hierarchy analysis, typed
  receivers, Callable-typed slots through an address-taken set) and a call graph;
* a resolution-rate figure so that rules never pass because edges silently vanished.
"""

from __future__ import annotations

import ast
import os
import re
from dataclasses import dataclass, field
from typing import Any, Dict, Iterable, Iterator, List, Optional, Sequence, Set, Tuple

REPO_DEFAULT = os.environ.get("VERIF_REPO", "/repo")
PKG = "pymarkdown"


class AnalysisError(Exception):
    """The analysis itself could not be carried out (exit code 2, never a verdict)."""


# --------------------------------------------------------------------------------------
# source provider
# --------------------------------------------------------------------------------------


class Source:
    """Maps repo-relative paths to text; ``overlay`` replaces files in memory."""

    def __init__(self, root: str = REPO_DEFAULT, overlay: Optional[Dict[str, str]] = None):
        self.root = root
        self.overlay: Dict[str, str] = dict(overlay or {})
        self._cache: Dict[str, str] = {}
        self.renames: List[str] = []
        self._public_map: Optional[Dict[str, str]] = None
        self._public_pattern: Any = None

    def with_overlay(self, overlay: Dict[str, str]) -> "Source":
        new_overlay = dict(self.overlay)
        new_overlay.update(overlay)
        src = Source(self.root, new_overlay)
        src._cache = self._cache  # base texts are immutable during one run
        return src

    def python_files(self) -> List[str]:
        found: List[str] = []
        base = os.path.join(self.root, PKG)
        for dirpath, dirnames, filenames in os.walk(base):
            dirnames[:] = sorted(d for d in dirnames if d != "__pycache__")
            for name in sorted(filenames):
                if name.endswith(".py"):
                    found.append(os.path.relpath(os.path.join(dirpath, name), self.root))
        for rel in self.overlay:
            if rel.startswith(PKG + "/") and rel.endswith(".py") and rel not in found:
                found.append(rel)
        return sorted(found)

    def glob(self, rel_dir: str, suffix: str) -> List[str]:
        base = os.path.join(self.root, rel_dir)
        found = []
        if os.path.isdir(base):
            for dirpath, dirnames, filenames in os.walk(base):
                dirnames.sort()
                for name in sorted(filenames):
                    if name.endswith(suffix):
                        found.append(os.path.relpath(os.path.join(dirpath, name), self.root))
        return sorted(found)

    def exists(self, rel: str) -> bool:
        return rel in self.overlay or os.path.exists(os.path.join(self.root, rel))

    def read(self, rel: str, raw: bool = False) -> str:
        """Text of a file; package sources are returned with renamed private members renamed
        back to their pinned names (sa/canon.py) unless ``raw``."""
        text = self._read_raw(rel)
        if raw or not (rel.startswith(PKG + "/") and rel.endswith(".py")):
            return text
        from sa import canon

        text, notes = canon.canonicalise(rel, text)
        for note in notes:
            if note not in self.renames:
                self.renames.append(note)
        if self._public_map is None:
            self._public_map = {}
            mapping, public_notes = canon.public_rename_map(self._read_raw, self.python_files())
            self._public_map = mapping
            for note in public_notes:
                if note not in self.renames:
                    self.renames.append(note)
            if mapping:
                import re as _re

                self._public_pattern = _re.compile(r"(?<![A-Za-z0-9_])(" + "|".join(_re.escape(n) for n in sorted(mapping, key=len, reverse=True)) + r")(?![A-Za-z0-9_])")
        if self._public_map:
            text = self._public_pattern.sub(lambda m: self._public_map[m.group(1)], text)
        return text

    def _read_raw(self, rel: str) -> str:
        if rel in self.overlay:
            return self.overlay[rel]
        if rel not in self._cache:
            try:
                with open(os.path.join(self.root, rel), encoding="utf-8") as handle:
                    self._cache[rel] = handle.read()
            except OSError as exc:
                raise AnalysisError(f"cannot read {rel}: {exc}") from exc
        return self._cache[rel]


# --------------------------------------------------------------------------------------
# small ast helpers
# --------------------------------------------------------------------------------------

_SCOPE_NODES = (ast.FunctionDef, ast.AsyncFunctionDef, ast.ClassDef)


_LOCAL_CACHE: Dict[int, Tuple[ast.AST, List[ast.AST]]] = {}


def walk_local(node: ast.AST, include_root: bool = True) -> Iterator[ast.AST]:
    """Walk a function body without entering nested defs/classes (lambdas are entered)."""
    if isinstance(node, _SCOPE_NODES):
        cached = _LOCAL_CACHE.get(id(node))
        if cached is None or cached[0] is not node:
            cached = (node, list(_walk_local(node)))
            _LOCAL_CACHE[id(node)] = cached
        return iter(cached[1] if include_root else cached[1][1:])
    return _walk_local(node, include_root)


def _walk_local(node: ast.AST, include_root: bool = True) -> Iterator[ast.AST]:
    stack: List[ast.AST] = [node]
    first = True
    while stack:
        cur = stack.pop()
        if not first and isinstance(cur, _SCOPE_NODES):
            continue
        if not first or include_root:
            yield cur
        first = False
        stack.extend(reversed(list(ast.iter_child_nodes(cur))))


def dotted(node: ast.AST) -> Optional[str]:
    """``a.b.c`` for Name/Attribute chains, else None."""
    parts: List[str] = []
    while isinstance(node, ast.Attribute):
        parts.append(node.attr)
        node = node.value
    if isinstance(node, ast.Name):
        parts.append(node.id)
        return ".".join(reversed(parts))
    return None


def norm(node: ast.AST) -> str:
    """Normalised statement/expression text (position independent finding key)."""
    try:
        text = ast.unparse(node)
    except Exception:  # pragma: no cover - defensive
        text = ast.dump(node)
    text = " ".join(text.split())
    return text if len(text) <= 160 else text[:157] + "..."


def const_str(node: Optional[ast.AST]) -> Optional[str]:
    if isinstance(node, ast.Constant) and isinstance(node.value, str):
        return node.value
    return None


# --------------------------------------------------------------------------------------
# tables
# --------------------------------------------------------------------------------------

Type = Optional[Tuple[Any, ...]]


@dataclass
class FuncInfo:
    name: str  # source name (``__x`` kept as written)
    qualname: str  # pymarkdown.mod.Class.name
    node: ast.AST
    module: "Module"
    cls: Optional["ClassInfo"]
    kind: str  # "function" | "static" | "class" | "instance" | "property"
    params: List[str] = field(default_factory=list)
    param_types: Dict[str, Type] = field(default_factory=dict)
    returns: Type = None
    env: Optional[Dict[str, Type]] = None

    @property
    def short(self) -> str:
        return f"{self.cls.name}.{self.name}" if self.cls else self.name

    @property
    def rel(self) -> str:
        return self.module.rel

    @property
    def lineno(self) -> int:
        return getattr(self.node, "lineno", 0)

    def __hash__(self) -> int:
        return hash(self.qualname)

    def __eq__(self, other: object) -> bool:
        return isinstance(other, FuncInfo) and other.qualname == self.qualname

    def __repr__(self) -> str:
        return f"<fn {self.qualname}>"


@dataclass
class ClassInfo:
    name: str
    qualname: str
    node: ast.ClassDef
    module: "Module"
    base_exprs: List[ast.AST]
    bases: List["ClassInfo"] = field(default_factory=list)
    ext_bases: List[str] = field(default_factory=list)
    subclasses: List["ClassInfo"] = field(default_factory=list)
    methods: Dict[str, FuncInfo] = field(default_factory=dict)
    class_attrs: Dict[str, ast.AST] = field(default_factory=dict)  # name -> value expr
    class_attr_types: Dict[str, Type] = field(default_factory=dict)
    fields: Dict[str, Type] = field(default_factory=dict)  # instance fields -> type
    field_writers: Dict[str, List[Tuple[FuncInfo, ast.AST]]] = field(default_factory=dict)
    mro: List["ClassInfo"] = field(default_factory=list)
    is_dataclass: bool = False

    def __hash__(self) -> int:
        return hash(self.qualname)

    def __eq__(self, other: object) -> bool:
        return isinstance(other, ClassInfo) and other.qualname == self.qualname

    def __repr__(self) -> str:
        return f"<class {self.qualname}>"

    def all_subclasses(self) -> List["ClassInfo"]:
        seen: List[ClassInfo] = []
        stack = list(self.subclasses)
        while stack:
            cur = stack.pop()
            if cur not in seen:
                seen.append(cur)
                stack.extend(cur.subclasses)
        return seen

    def is_subclass_of(self, other: "ClassInfo") -> bool:
        return other in self.mro

    def find_method(self, name: str) -> Optional[FuncInfo]:
        for klass in self.mro:
            if name in klass.methods:
                return klass.methods[name]
        return None

    def find_field(self, name: str) -> Tuple[bool, Type]:
        for klass in self.mro:
            if name in klass.fields:
                return True, klass.fields[name]
            if name in klass.class_attr_types:
                return True, klass.class_attr_types[name]
            if name in klass.class_attrs:
                return True, None
        return False, None

    def ext_base_names(self) -> Set[str]:
        names: Set[str] = set()
        for klass in self.mro:
            names.update(klass.ext_bases)
        return names


@dataclass
class Module:
    name: str  # pymarkdown.general.parser_helper
    rel: str  # pymarkdown/general/parser_helper.py
    tree: ast.Module
    text: str
    imports: Dict[str, str] = field(default_factory=dict)  # alias -> qualified target
    classes: Dict[str, ClassInfo] = field(default_factory=dict)
    functions: Dict[str, FuncInfo] = field(default_factory=dict)
    globals: Dict[str, ast.AST] = field(default_factory=dict)  # name -> value expr

    def __hash__(self) -> int:
        return hash(self.name)


@dataclass
class CallSite:
    caller: FuncInfo
    node: ast.Call
    targets: List[FuncInfo]  # resolved repo-internal targets (may be several: CHA)
    external: Optional[str]  # dotted external / builtin name, or "<type>.<method>"
    dynamic: bool = False  # resolved through a function-value slot or by method name
    wild: bool = False  # arity-only over-approximation over all address-taken functions
    resolved: bool = True

    @property
    def where(self) -> str:
        return f"{self.caller.rel}:{self.node.lineno}"


BUILTIN_NAMES = set(dir(__builtins__)) if not isinstance(__builtins__, dict) else set(__builtins__)
STR_METHODS = {m for m in dir(str) if not m.startswith("__")}
LIST_METHODS = {m for m in dir(list) if not m.startswith("__")}
DICT_METHODS = {m for m in dir(dict) if not m.startswith("__")}
SET_METHODS = {m for m in dir(set) if not m.startswith("__")}
CONTAINER_METHODS = STR_METHODS | LIST_METHODS | DICT_METHODS | SET_METHODS


class Program:
    """The resolved program."""

    def __init__(self, source: Optional[Source] = None):
        self.source = source or Source()
        self.modules: Dict[str, Module] = {}
        self.by_rel: Dict[str, Module] = {}
        self.classes: Dict[str, ClassInfo] = {}
        self.classes_by_name: Dict[str, List[ClassInfo]] = {}
        self.functions: Dict[str, FuncInfo] = {}
        self.callsites: Dict[str, List[CallSite]] = {}  # caller qualname -> sites
        self.callers: Dict[str, List[CallSite]] = {}  # callee qualname -> sites
        self.address_taken: Dict[str, List[Tuple[FuncInfo, ast.AST]]] = {}
        self.slot_targets: Dict[Tuple[str, str], Set[FuncInfo]] = {}
        self.param_targets: Dict[Tuple[str, str], Set[FuncInfo]] = {}
        self.stats: Dict[str, int] = {}
        self.shadowed: List[Tuple[FuncInfo, FuncInfo]] = []  # (dead earlier definition, the one that replaces it)
        self._load()
        self._link()
        self._fields()
        self._resolve_all_calls()

    # ---------------------------------------------------------------- loading
    def _load(self) -> None:
        from sa.normal import named_tuple_classes, normalise

        parsed: List[Tuple[str, str, ast.Module]] = []
        for rel in self.source.python_files():
            text = self.source.read(rel)
            try:
                parsed.append((rel, text, ast.parse(text, filename=rel)))
            except SyntaxError as exc:
                raise AnalysisError(f"cannot parse {rel}: {exc}") from exc
        from sa.normal import fold_constants, module_constants

        def module_name(rel: str) -> str:
            name = rel[:-3].replace("/", ".")
            return name[: -len(".__init__")] if name.endswith(".__init__") else name

        records = named_tuple_classes([tree for _rel, _text, tree in parsed])
        constants = {module_name(rel): module_constants(tree) for rel, _text, tree in parsed}
        constants = {name: found for name, found in constants.items() if found}
        from sa.normal import attribute_stores, class_constants, fold_class_constants

        classes = {module_name(rel): class_constants(tree) for rel, _text, tree in parsed}
        classes = {name: found for name, found in classes.items() if found}
        stored: Set[str] = set()
        for _rel, _text, tree in parsed:
            stored |= attribute_stores(tree)
        for rel, text, tree in parsed:
            name = module_name(rel)
            tree = fold_constants(tree, name, constants)
            tree = fold_class_constants(tree, name, classes, stored)
            tree = normalise(tree, records)
            module = Module(name=name, rel=rel, tree=tree, text=text)
            self.modules[name] = module
            self.by_rel[rel] = module
            self._collect_module(module)
        if len(self.modules) < 50:
            raise AnalysisError(f"only {len(self.modules)} modules parsed under {self.source.root}/{PKG}")

    def _collect_module(self, module: Module) -> None:
        for node in self._toplevel(module.tree.body):
            if isinstance(node, ast.Import):
                for alias in node.names:
                    module.imports[alias.asname or alias.name.split(".")[0]] = (
                        alias.name if alias.asname else alias.name.split(".")[0]
                    )
            elif isinstance(node, ast.ImportFrom):
                base = node.module or ""
                if node.level:
                    parts = module.name.split(".")
                    base = ".".join(parts[: len(parts) - node.level] + ([base] if base else []))
                for alias in node.names:
                    module.imports[alias.asname or alias.name] = f"{base}.{alias.name}"
            elif isinstance(node, ast.ClassDef):
                self._collect_class(module, node)
            elif isinstance(node, (ast.FunctionDef, ast.AsyncFunctionDef)):
                func = self._make_func(module, None, node)
                module.functions[node.name] = func
            elif isinstance(node, ast.Assign):
                for target in node.targets:
                    if isinstance(target, ast.Name):
                        module.globals[target.id] = node.value
            elif isinstance(node, ast.AnnAssign) and isinstance(node.target, ast.Name) and node.value:
                module.globals[node.target.id] = node.value

    @staticmethod
    def _toplevel(body: Sequence[ast.stmt]) -> Iterator[ast.stmt]:
        """Module/class level statements, looking inside ``if``/``try`` wrappers."""
        for node in body:
            if isinstance(node, ast.If):
                yield from Program._toplevel(node.body)
                yield from Program._toplevel(node.orelse)
            elif isinstance(node, ast.Try):
                yield from Program._toplevel(node.body)
                for handler in node.handlers:
                    yield from Program._toplevel(handler.body)
            else:
                yield node

    def _collect_class(self, module: Module, node: ast.ClassDef) -> None:
        info = ClassInfo(
            name=node.name,
            qualname=f"{module.name}.{node.name}",
            node=node,
            module=module,
            base_exprs=list(node.bases),
        )
        for deco in node.decorator_list:
            deco_name = dotted(deco.func) if isinstance(deco, ast.Call) else dotted(deco)
            if deco_name and deco_name.split(".")[-1] == "dataclass":
                info.is_dataclass = True
        module.classes[node.name] = info
        self.classes[info.qualname] = info
        self.classes_by_name.setdefault(node.name, []).append(info)
        for stmt in self._toplevel(node.body):
            if isinstance(stmt, (ast.FunctionDef, ast.AsyncFunctionDef)):
                func = self._make_func(module, info, stmt)
                # property setters share the name; keep the getter as primary
                accessor = any(isinstance(d, ast.Attribute) and d.attr in ("setter", "deleter") for d in stmt.decorator_list)
                if stmt.name in info.methods and func.kind != "property" and accessor:
                    info.methods[stmt.name + "#setter"] = func
                    func.qualname += "#setter"
                    self.functions[func.qualname] = func
                else:
                    # a second plain definition of the same name replaces the first, as it does when the class
                    # body runs: the earlier one is dead code and is analysed as such (never a call target)
                    earlier = info.methods.get(stmt.name)
                    if earlier is not None and not accessor:
                        earlier.qualname += "#shadowed"
                        self.functions[earlier.qualname] = earlier
                        info.methods[stmt.name + "#shadowed"] = earlier
                        self.shadowed.append((earlier, func))
                        self.functions[func.qualname] = func
                    info.methods[stmt.name] = func
            elif isinstance(stmt, ast.Assign):
                for target in stmt.targets:
                    if isinstance(target, ast.Name):
                        info.class_attrs[target.id] = stmt.value
                    elif isinstance(target, ast.Tuple) and isinstance(stmt.value, ast.Tuple):
                        for sub_t, sub_v in zip(target.elts, stmt.value.elts):
                            if isinstance(sub_t, ast.Name):
                                info.class_attrs[sub_t.id] = sub_v
            elif isinstance(stmt, ast.AnnAssign) and isinstance(stmt.target, ast.Name):
                info.class_attrs[stmt.target.id] = stmt.value if stmt.value else stmt.annotation
                info.class_attr_types[stmt.target.id] = ("ann", stmt.annotation)  # resolved later

    def _make_func(self, module: Module, cls: Optional[ClassInfo], node: ast.AST) -> FuncInfo:
        assert isinstance(node, (ast.FunctionDef, ast.AsyncFunctionDef))
        kind = "instance" if cls else "function"
        for deco in node.decorator_list:
            deco_name = dotted(deco) or ""
            last = deco_name.split(".")[-1]
            if last == "staticmethod":
                kind = "static"
            elif last == "classmethod":
                kind = "class"
            elif last in ("property", "abstractproperty", "cached_property"):
                kind = "property"
            elif last == "setter":
                kind = "setter"
        qual = f"{cls.qualname}.{node.name}" if cls else f"{module.name}.{node.name}"
        args = node.args
        params = [a.arg for a in args.posonlyargs + args.args]
        if args.vararg:
            params.append(args.vararg.arg)
        params += [a.arg for a in args.kwonlyargs]
        if args.kwarg:
            params.append(args.kwarg.arg)
        func = FuncInfo(name=node.name, qualname=qual, node=node, module=module, cls=cls, kind=kind, params=params)
        if kind != "setter":
            self.functions[qual] = func
        return func

    # ---------------------------------------------------------------- linking
    def lookup(self, module: Module, name: str, _depth: int = 0) -> Optional[Tuple[str, Any]]:
        """Resolve a module-scope name to ('class', ClassInfo) / ('func', FuncInfo) /
        ('mod', Module) / ('ext', dotted) / ('var', expr)."""
        if name in module.classes:
            return ("class", module.classes[name])
        if name in module.functions:
            return ("func", module.functions[name])
        if name in module.imports:
            return self.lookup_qualified(module.imports[name], _depth + 1)
        if name in module.globals:
            return ("var", (module, module.globals[name]))
        return None

    def lookup_qualified(self, qualified: str, _depth: int = 0) -> Optional[Tuple[str, Any]]:
        if _depth > 8:
            return None
        if qualified in self.modules:
            return ("mod", self.modules[qualified])
        if "." in qualified:
            mod_name, _, leaf = qualified.rpartition(".")
            if mod_name in self.modules:
                found = self.lookup(self.modules[mod_name], leaf, _depth + 1)
                if found:
                    return found
        if qualified.split(".")[0] == PKG:
            return None
        return ("ext", qualified)

    def _link(self) -> None:
        for cls in self.classes.values():
            for base in cls.base_exprs:
                base_name = dotted(base.value if isinstance(base, ast.Subscript) else base)
                found = self._lookup_dotted(cls.module, base_name) if base_name else None
                if found and found[0] == "class":
                    cls.bases.append(found[1])
                    found[1].subclasses.append(cls)
                elif base_name:
                    ext = found[1] if found and found[0] == "ext" else base_name
                    cls.ext_bases.append(ext)
        for cls in self.classes.values():
            cls.mro = self._mro(cls, set())
        for cls in self.classes.values():
            for attr, marker in list(cls.class_attr_types.items()):
                if marker and marker[0] == "ann":
                    cls.class_attr_types[attr] = self.parse_annotation(cls.module, marker[1])
            if cls.is_dataclass:
                for attr, typ in cls.class_attr_types.items():
                    cls.fields.setdefault(attr, typ)
        for func in self.functions.values():
            node = func.node
            all_args = node.args.posonlyargs + node.args.args + node.args.kwonlyargs
            for arg in all_args:
                func.param_types[arg.arg] = (
                    self.parse_annotation(func.module, arg.annotation) if arg.annotation else None
                )
            if func.cls and func.kind in ("instance", "property", "setter") and func.params:
                func.param_types[func.params[0]] = ("cls", func.cls)
            if func.cls and func.kind == "class" and func.params:
                func.param_types[func.params[0]] = ("type", func.cls)
            func.returns = self.parse_annotation(func.module, node.returns) if node.returns else None

    def _mro(self, cls: ClassInfo, visiting: Set[str]) -> List[ClassInfo]:
        if cls.qualname in visiting:
            return [cls]
        visiting = visiting | {cls.qualname}
        result = [cls]
        for base in cls.bases:
            for item in self._mro(base, visiting):
                if item not in result:
                    result.append(item)
        return result

    def _lookup_dotted(self, module: Module, name: str) -> Optional[Tuple[str, Any]]:
        parts = name.split(".")
        found = self.lookup(module, parts[0])
        for part in parts[1:]:
            if not found:
                return None
            if found[0] == "mod":
                found = self.lookup(found[1], part)
            elif found[0] == "ext":
                found = ("ext", f"{found[1]}.{part}")
            elif found[0] == "class":
                method = found[1].find_method(part)
                found = ("func", method) if method else None
            else:
                return None
        return found

    # ---------------------------------------------------------------- types
    def parse_annotation(self, module: Module, ann: Optional[ast.AST]) -> Type:
        if ann is None:
            return None
        if isinstance(ann, ast.Constant):
            if isinstance(ann.value, str):
                try:
                    return self.parse_annotation(module, ast.parse(ann.value, mode="eval").body)
                except SyntaxError:
                    return None
            if ann.value is None:
                return ("none",)
            return None
        if isinstance(ann, (ast.Name, ast.Attribute)):
            name = dotted(ann)
            if not name:
                return None
            leaf = name.split(".")[-1]
            simple = {
                "str": ("str",), "int": ("int",), "bool": ("bool",), "float": ("int",),
                "Any": None, "object": None,
                "List": ("list", None), "list": ("list", None), "Set": ("set", None),
                "set": ("set", None), "Dict": ("dict", None, None), "dict": ("dict", None, None),
                "Callable": ("callable",), "Namespace": ("ext", "argparse.Namespace"),
            }
            if name in simple:
                return simple[name]
            found = self._lookup_dotted(module, name)
            if found and found[0] == "class":
                return ("cls", found[1])
            if found and found[0] == "ext":
                return ("ext", found[1])
            if leaf in simple:
                return simple[leaf]
            return None
        if isinstance(ann, ast.Subscript):
            head = (dotted(ann.value) or "").split(".")[-1]
            inner = ann.slice
            elts = list(inner.elts) if isinstance(inner, ast.Tuple) else [inner]
            if head == "Optional":
                return self.parse_annotation(module, elts[0])
            if head == "Union":
                for elt in elts:
                    parsed = self.parse_annotation(module, elt)
                    if parsed and parsed[0] in ("cls", "list", "dict", "set", "tuple"):
                        return parsed
                return self.parse_annotation(module, elts[0])
            if head in ("List", "list", "Sequence", "Iterable", "Iterator", "Deque", "deque"):
                return ("list", self.parse_annotation(module, elts[0]))
            if head in ("Set", "set", "FrozenSet", "frozenset"):
                return ("set", self.parse_annotation(module, elts[0]))
            if head in ("Dict", "dict", "Mapping", "DefaultDict"):
                return (
                    "dict",
                    self.parse_annotation(module, elts[0]),
                    self.parse_annotation(module, elts[1]) if len(elts) > 1 else None,
                )
            if head in ("Tuple", "tuple"):
                return ("tuple", tuple(self.parse_annotation(module, e) for e in elts))
            if head == "Callable":
                return ("callable",)
            if head == "Type":
                inner_t = self.parse_annotation(module, elts[0])
                if inner_t and inner_t[0] == "cls":
                    return ("type", inner_t[1])
                return None
            found = self._lookup_dotted(module, dotted(ann.value) or "")
            if found and found[0] == "class":
                return ("cls", found[1])
            return None
        if isinstance(ann, ast.BinOp) and isinstance(ann.op, ast.BitOr):
            return self.parse_annotation(module, ann.left) or self.parse_annotation(module, ann.right)
        return None

    def _fields(self) -> None:
        """Instance field types from assignments to ``self.<f>`` in every method."""
        for cls in self.classes.values():
            for func in cls.methods.values():
                if func.kind not in ("instance", "property", "setter") or not func.params:
                    continue
                self_name = func.params[0]
                for node in walk_local(func.node):
                    pairs: List[Tuple[ast.AST, Optional[ast.AST], Optional[ast.AST]]] = []
                    if isinstance(node, ast.Assign):
                        for target in node.targets:
                            pairs.extend(self._unpack(target, node.value))
                    elif isinstance(node, ast.AnnAssign):
                        pairs.append((node.target, node.value, node.annotation))
                    elif isinstance(node, ast.AugAssign):
                        pairs.append((node.target, None, None))
                    for target, value, ann in pairs:
                        if (
                            isinstance(target, ast.Attribute)
                            and isinstance(target.value, ast.Name)
                            and target.value.id == self_name
                        ):
                            cls.field_writers.setdefault(target.attr, []).append((func, node))
                            typ: Type = None
                            if ann is not None:
                                typ = self.parse_annotation(cls.module, ann)
                            elif value is not None:
                                typ = self._quick_infer(func, value)
                            if cls.fields.get(target.attr) is None:
                                cls.fields[target.attr] = typ

    @staticmethod
    def _unpack(target: ast.AST, value: Optional[ast.AST]) -> List[Tuple[ast.AST, Optional[ast.AST], None]]:
        if isinstance(target, (ast.Tuple, ast.List)):
            out: List[Tuple[ast.AST, Optional[ast.AST], None]] = []
            if isinstance(value, (ast.Tuple, ast.List)) and len(value.elts) == len(target.elts):
                for sub_t, sub_v in zip(target.elts, value.elts):
                    out.extend(Program._unpack(sub_t, sub_v))
            else:
                for index, sub_t in enumerate(target.elts):
                    sub_v = ast.Subscript(value=value, slice=ast.Constant(value=index), ctx=ast.Load()) if value is not None else None
                    if sub_v is not None:
                        ast.copy_location(sub_v, target)
                        ast.fix_missing_locations(sub_v)
                    out.extend(Program._unpack(sub_t, sub_v))
            return out
        return [(target, value, None)]

    def _quick_infer(self, func: FuncInfo, value: ast.AST) -> Type:
        """Type of an expression using parameter annotations only (used while building fields)."""
        if isinstance(value, ast.Name) and value.id in func.param_types:
            return func.param_types[value.id]
        if isinstance(value, ast.Constant):
            return self._const_type(value)
        if isinstance(value, ast.Call):
            name = dotted(value.func)
            if name:
                found = self._lookup_dotted(func.module, name)
                if found and found[0] == "class":
                    return ("cls", found[1])
                if found and found[0] == "func" and found[1]:
                    return found[1].returns
            if name == "cast" and value.args:
                return self.parse_annotation(func.module, value.args[0])
        if isinstance(value, (ast.List, ast.ListComp)):
            return ("list", None)
        if isinstance(value, (ast.Dict, ast.DictComp)):
            return ("dict", None, None)
        if isinstance(value, (ast.Set, ast.SetComp)):
            return ("set", None)
        if isinstance(value, ast.JoinedStr):
            return ("str",)
        if isinstance(value, ast.IfExp):
            return self._quick_infer(func, value.body) or self._quick_infer(func, value.orelse)
        if isinstance(value, ast.BoolOp):
            for sub in value.values:
                typ = self._quick_infer(func, sub)
                if typ:
                    return typ
        return None

    @staticmethod
    def _const_type(node: ast.Constant) -> Type:
        if isinstance(node.value, bool):
            return ("bool",)
        if isinstance(node.value, str):
            return ("str",)
        if isinstance(node.value, int):
            return ("int",)
        if node.value is None:
            return ("none",)
        return None

    # ---------------------------------------------------------------- environments
    def env_of(self, func: FuncInfo) -> Dict[str, Type]:
        if func.env is not None:
            return func.env
        env: Dict[str, Type] = dict(func.param_types)
        func.env = env
        nodes = [n for n in walk_local(func.node, include_root=False)]
        nodes.sort(key=lambda n: (getattr(n, "lineno", 0), getattr(n, "col_offset", 0)))
        for _ in range(2):  # two passes: later definitions can feed earlier loop heads
            for node in nodes:
                pairs: List[Tuple[ast.AST, Optional[ast.AST], Optional[ast.AST]]] = []
                if isinstance(node, ast.Assign):
                    for target in node.targets:
                        pairs.extend(self._unpack(target, node.value))
                elif isinstance(node, ast.AnnAssign):
                    pairs.append((node.target, node.value, node.annotation))
                elif isinstance(node, ast.NamedExpr):
                    pairs.append((node.target, node.value, None))
                elif isinstance(node, (ast.For, ast.comprehension)):
                    iter_type = self.infer(func, node.iter)
                    elem = self._elem_type(iter_type, node.iter, func)
                    for target, value, _ann in self._unpack_type(node.target, elem):
                        if isinstance(target, ast.Name) and env.get(target.id) is None:
                            env[target.id] = value
                    continue
                elif isinstance(node, ast.With):
                    for item in node.items:
                        if item.optional_vars is not None:
                            pairs.append((item.optional_vars, item.context_expr, None))
                elif isinstance(node, ast.ImportFrom):
                    base = node.module or ""
                    if node.level:
                        parts = func.module.name.split(".")
                        base = ".".join(parts[: len(parts) - node.level] + ([base] if base else []))
                    for alias in node.names:
                        found = self.lookup_qualified(f"{base}.{alias.name}")
                        typ = self._found_type(found)
                        if typ is not None:
                            env[alias.asname or alias.name] = typ
                    continue
                elif isinstance(node, ast.Import):
                    for alias in node.names:
                        found = self.lookup_qualified(alias.name)
                        typ = self._found_type(found)
                        if typ is not None:
                            env[alias.asname or alias.name.split(".")[0]] = typ
                    continue
                elif isinstance(node, ast.ExceptHandler) and node.name and node.type is not None:
                    exc_name = dotted(node.type)
                    found = self._lookup_dotted(func.module, exc_name) if exc_name else None
                    env[node.name] = ("cls", found[1]) if found and found[0] == "class" else ("ext", exc_name or "Exception")
                    continue
                for target, value, ann in pairs:
                    if not isinstance(target, ast.Name):
                        continue
                    if ann is not None:
                        env[target.id] = self.parse_annotation(func.module, ann)
                    elif env.get(target.id) is None and value is not None:
                        env[target.id] = self.infer(func, value)
        return env

    def _unpack_type(self, target: ast.AST, typ: Type) -> List[Tuple[ast.AST, Type, None]]:
        if isinstance(target, (ast.Tuple, ast.List)):
            out: List[Tuple[ast.AST, Type, None]] = []
            for index, sub in enumerate(target.elts):
                sub_t: Type = None
                if typ and typ[0] == "tuple" and index < len(typ[1]):
                    sub_t = typ[1][index]
                out.extend(self._unpack_type(sub, sub_t))
            return out
        return [(target, typ, None)]

    def _elem_type(self, iter_type: Type, iter_node: ast.AST, func: FuncInfo) -> Type:
        if iter_type is None:
            if isinstance(iter_node, ast.Call):
                name = dotted(iter_node.func) or ""
                if name == "enumerate" and iter_node.args:
                    inner = self._elem_type(self.infer(func, iter_node.args[0]), iter_node.args[0], func)
                    return ("tuple", (("int",), inner))
                if name in ("reversed", "sorted", "list", "iter") and iter_node.args:
                    return self._elem_type(self.infer(func, iter_node.args[0]), iter_node.args[0], func)
                if name == "zip":
                    return ("tuple", tuple(self._elem_type(self.infer(func, a), a, func) for a in iter_node.args))
                if isinstance(iter_node.func, ast.Attribute) and iter_node.func.attr in ("items", "values", "keys"):
                    base = self.infer(func, iter_node.func.value)
                    if base and base[0] == "dict":
                        if iter_node.func.attr == "items":
                            return ("tuple", (base[1], base[2]))
                        return base[2] if iter_node.func.attr == "values" else base[1]
            return None
        if iter_type[0] in ("list", "set"):
            return iter_type[1]
        if iter_type[0] == "dict":
            return iter_type[1]
        if iter_type[0] == "str":
            return ("str",)
        return None

    def infer(self, func: FuncInfo, expr: ast.AST, _depth: int = 0) -> Type:
        """Static type of ``expr`` inside ``func`` (None when unknown)."""
        if _depth > 12:
            return None
        env = func.env if func.env is not None else self.env_of(func)
        if isinstance(expr, ast.Name):
            if expr.id in env and env[expr.id] is not None:
                return env[expr.id]
            if expr.id in env:
                return None
            found = self.lookup(func.module, expr.id)
            return self._found_type(found, _depth)
        if isinstance(expr, ast.Constant):
            return self._const_type(expr)
        if isinstance(expr, ast.JoinedStr):
            return ("str",)
        if isinstance(expr, ast.Attribute):
            base = self.infer(func, expr.value, _depth + 1)
            return self.attr_type(base, expr.attr, _depth)
        if isinstance(expr, ast.Call):
            return self._call_type(func, expr, _depth)
        if isinstance(expr, ast.Subscript):
            base = self.infer(func, expr.value, _depth + 1)
            if base is None:
                return None
            if isinstance(expr.slice, ast.Slice):
                return base
            if base[0] == "list":
                return base[1]
            if base[0] == "dict":
                return base[2]
            if base[0] == "str":
                return ("str",)
            if base[0] == "tuple" and isinstance(expr.slice, ast.Constant) and isinstance(expr.slice.value, int):
                index = expr.slice.value
                if -len(base[1]) <= index < len(base[1]):
                    return base[1][index]
            return None
        if isinstance(expr, ast.IfExp):
            first = self.infer(func, expr.body, _depth + 1)
            if first is None or first == ("none",):
                return self.infer(func, expr.orelse, _depth + 1)
            return first
        if isinstance(expr, ast.BoolOp):
            for sub in expr.values:
                typ = self.infer(func, sub, _depth + 1)
                if typ and typ != ("none",):
                    return typ
            return None
        if isinstance(expr, (ast.Compare,)):
            return ("bool",)
        if isinstance(expr, ast.UnaryOp):
            return ("bool",) if isinstance(expr.op, ast.Not) else self.infer(func, expr.operand, _depth + 1)
        if isinstance(expr, ast.BinOp):
            left = self.infer(func, expr.left, _depth + 1)
            if left and left[0] in ("str", "int", "list", "set"):
                return left
            return self.infer(func, expr.right, _depth + 1)
        if isinstance(expr, ast.NamedExpr):
            return self.infer(func, expr.value, _depth + 1)
        if isinstance(expr, (ast.List, ast.ListComp)):
            elem: Type = None
            if isinstance(expr, ast.List) and expr.elts:
                elem = self.infer(func, expr.elts[0], _depth + 1)
            elif isinstance(expr, ast.ListComp):
                self.env_of(func)
                elem = self.infer(func, expr.elt, _depth + 1)
            return ("list", elem)
        if isinstance(expr, (ast.Set, ast.SetComp)):
            return ("set", None)
        if isinstance(expr, (ast.Dict, ast.DictComp)):
            val: Type = None
            key: Type = None
            if isinstance(expr, ast.Dict) and expr.values:
                val = self.infer(func, expr.values[0], _depth + 1)
                if expr.keys[0] is not None:
                    key = self.infer(func, expr.keys[0], _depth + 1)
            elif isinstance(expr, ast.DictComp):
                val = self.infer(func, expr.value, _depth + 1)
                key = self.infer(func, expr.key, _depth + 1)
            return ("dict", key, val)
        if isinstance(expr, ast.Tuple):
            return ("tuple", tuple(self.infer(func, e, _depth + 1) for e in expr.elts))
        if isinstance(expr, ast.Lambda):
            return ("callable",)
        if isinstance(expr, ast.Starred):
            return self.infer(func, expr.value, _depth + 1)
        return None

    def _found_type(self, found: Optional[Tuple[str, Any]], _depth: int = 0) -> Type:
        if not found:
            return None
        kind, obj = found
        if kind == "class":
            return ("type", obj)
        if kind == "func":
            return ("func", obj)
        if kind == "mod":
            return ("mod", obj)
        if kind == "ext":
            return ("ext", obj)
        if kind == "var":
            module, value = obj
            holder = self._module_holder(module)
            return self.infer(holder, value, _depth + 1)
        return None

    def _module_holder(self, module: Module) -> FuncInfo:
        """A pseudo function representing module-level code (for inference of globals)."""
        key = f"{module.name}.<module>"
        if key not in self.functions:
            node = ast.FunctionDef(name="<module>", args=ast.arguments(posonlyargs=[], args=[], kwonlyargs=[], kw_defaults=[], defaults=[]), body=[], decorator_list=[], lineno=1, col_offset=0)
            holder = FuncInfo(name="<module>", qualname=key, node=node, module=module, cls=None, kind="function")
            holder.env = {}
            self.functions[key] = holder
        return self.functions[key]

    def attr_type(self, base: Type, attr: str, _depth: int = 0) -> Type:
        if base is None:
            return None
        kind = base[0]
        if kind == "cls":
            cls: ClassInfo = base[1]
            method = cls.find_method(attr)
            if method is not None:
                if method.kind == "property":
                    return method.returns
                return ("bound", method, cls)
            found, typ = cls.find_field(attr)
            if found:
                if typ is None:
                    for klass in cls.mro:
                        if attr in klass.class_attrs:
                            return self.infer(self._module_holder(klass.module), klass.class_attrs[attr], _depth + 1)
                return typ
            # private name written from outside: _Class__x
            match = re.match(r"^_([A-Za-z0-9]+?)(__\w+)$", attr)
            if match:
                return self.attr_type(base, match.group(2), _depth)
            return None
        if kind == "type":
            cls = base[1]
            method = cls.find_method(attr)
            if method is not None:
                return ("func", method)
            for klass in cls.mro:
                if attr in klass.class_attr_types and klass.class_attr_types[attr] is not None:
                    return klass.class_attr_types[attr]
                if attr in klass.class_attrs:
                    return self.infer(self._module_holder(klass.module), klass.class_attrs[attr], _depth + 1)
            match = re.match(r"^_([A-Za-z0-9]+?)(__\w+)$", attr)
            if match:
                return self.attr_type(base, match.group(2), _depth)
            return None
        if kind == "mod":
            return self._found_type(self.lookup(base[1], attr), _depth)
        if kind == "ext":
            return ("ext", f"{base[1]}.{attr}")
        return None

    def _call_type(self, func: FuncInfo, call: ast.Call, _depth: int) -> Type:
        name = dotted(call.func)
        if name == "cast" and len(call.args) == 2:
            return self.parse_annotation(func.module, call.args[0])
        if name in ("copy.deepcopy", "copy.copy", "deepcopy") and call.args:
            return self.infer(func, call.args[0], _depth + 1)
        if name in ("sorted", "list", "reversed") and call.args:
            inner = self.infer(func, call.args[0], _depth + 1)
            if inner and inner[0] in ("list", "set"):
                return ("list", inner[1])
            if inner and inner[0] == "dict":
                return ("list", inner[1])
            return ("list", None)
        if name in ("set", "frozenset"):
            inner = self.infer(func, call.args[0], _depth + 1) if call.args else None
            return ("set", inner[1] if inner and inner[0] in ("list", "set") else None)
        if name == "dict":
            return ("dict", None, None)
        if name in ("str", "repr"):
            return ("str",)
        if name in ("len", "int", "abs", "ord", "min", "max", "sum"):
            return ("int",)
        if name in ("bool", "isinstance", "any", "all", "hasattr", "callable"):
            return ("bool",)
        callee = self.infer(func, call.func, _depth + 1)
        if callee is None:
            if isinstance(call.func, ast.Attribute):
                base = self.infer(func, call.func.value, _depth + 1)
                return self._builtin_method_type(base, call.func.attr)
            return None
        if callee[0] == "type":
            return ("cls", callee[1])
        if callee[0] in ("func", "bound"):
            target: FuncInfo = callee[1]
            if target.kind == "class" and target.returns is None:
                return None
            return target.returns
        if callee[0] == "ext":
            return ("ext", callee[1] + "()")
        return None

    @staticmethod
    def _builtin_method_type(base: Type, attr: str) -> Type:
        if base is None:
            return None
        if base[0] == "str":
            if attr in ("split", "splitlines", "rsplit"):
                return ("list", ("str",))
            if attr in ("find", "rfind", "index", "rindex", "count"):
                return ("int",)
            if attr.startswith("is") or attr in ("startswith", "endswith"):
                return ("bool",)
            if attr in STR_METHODS:
                return ("str",)
        if base[0] == "list":
            if attr == "pop":
                return base[1]
            if attr == "copy":
                return base
            if attr in ("index", "count"):
                return ("int",)
        if base[0] == "dict":
            if attr in ("get", "pop", "setdefault"):
                return base[2]
            if attr == "keys":
                return ("list", base[1])
            if attr == "values":
                return ("list", base[2])
            if attr == "items":
                return ("list", ("tuple", (base[1], base[2])))
            if attr == "copy":
                return base
        if base[0] == "set":
            if attr in ("copy", "union", "intersection", "difference"):
                return base
            if attr == "pop":
                return base[1]
        return None

    # ---------------------------------------------------------------- call resolution
    def _resolve_all_calls(self) -> None:
        # pass 1: address-taken functions and Callable slots
        for func in list(self.functions.values()):
            self.env_of(func)
        for func in list(self.functions.values()):
            self._collect_address_taken(func)
        self._collect_slots()
        funcs = list(self.functions.values())
        for _round in range(5):
            self.callers = {}
            grew = False
            total = internal = resolved_internal = wild = 0
            for func in funcs:
                sites: List[CallSite] = []
                for node in walk_local(func.node, include_root=False):
                    if isinstance(node, ast.Call):
                        site = self.resolve_call(func, node)
                        sites.append(site)
                        total += 1
                        if site.targets:
                            internal += 1
                            resolved_internal += 1
                            wild += 1 if site.wild else 0
                        elif not site.resolved:
                            internal += 1
                        for target in site.targets:
                            self.callers.setdefault(target.qualname, []).append(site)
                        if not site.wild and (node.args or node.keywords):
                            grew = self._flow_function_args(func, site) or grew
                self.callsites[func.qualname] = sites
            grew = self._flow_dict_slots() or grew
            if not grew:
                break
        self.stats.update(
            modules=len(self.modules),
            classes=len(self.classes),
            functions=len(self.functions),
            call_sites=total,
            internal_or_unknown_call_sites=internal,
            resolved_internal_call_sites=resolved_internal,
            wild_call_sites=wild,
            resolution_rounds=_round + 1,
        )

    def _flow_function_args(self, caller: FuncInfo, site: CallSite) -> bool:
        """Function values passed as arguments flow into (callee, parameter) slots."""
        grew = False
        refs: List[Tuple[Optional[int], Optional[str], List[FuncInfo]]] = []
        for index, arg in enumerate(site.node.args):
            if isinstance(arg, ast.Starred):
                break
            found = self._function_ref(caller, arg)
            if not found and isinstance(arg, ast.Name):
                found = sorted(self.param_targets.get((caller.qualname, arg.id), ()), key=lambda f: f.qualname)
            if found:
                refs.append((index, None, found))
        for keyword in site.node.keywords:
            if keyword.arg:
                found = self._function_ref(caller, keyword.value)
                if found:
                    refs.append((None, keyword.arg, found))
        if not refs:
            return False
        for target in site.targets:
            params = list(target.params)
            if target.kind in ("instance", "class", "property") and params:
                params = params[1:]
            for index, name, found in refs:
                param = name if name is not None else (params[index] if index is not None and index < len(params) else None)
                if param is None:
                    continue
                slot = self.param_targets.setdefault((target.qualname, param), set())
                before = len(slot)
                slot.update(found)
                grew = grew or len(slot) != before
        return grew

    def _flow_dict_slots(self) -> bool:
        """``self.F[k] = p`` / ``Cls.F[k] = p`` / ``self.F = p`` / ``self.F.append(p)`` with p a
        function-valued parameter."""
        grew = False
        for (qual, param), found in list(self.param_targets.items()):
            func = self.functions.get(qual)
            if func is None or func.cls is None:
                continue
            for node in walk_local(func.node):
                base: Optional[ast.AST] = None
                if isinstance(node, ast.Assign) and isinstance(node.value, ast.Name) and node.value.id == param:
                    for target in node.targets:
                        base = target.value if isinstance(target, ast.Subscript) else target
                elif (
                    isinstance(node, ast.Call) and isinstance(node.func, ast.Attribute) and node.func.attr in ("append", "add")
                    and node.args and isinstance(node.args[0], ast.Name) and node.args[0].id == param
                ):
                    base = node.func.value
                if not isinstance(base, ast.Attribute):
                    continue
                owner = self.infer(func, base.value)
                if owner and owner[0] in ("cls", "type"):
                    key = (owner[1].qualname, base.attr)
                    slot = self.slot_targets.setdefault(key, set())
                    before = len(slot)
                    slot.update(found)
                    grew = grew or len(slot) != before
        return grew

    def _function_ref(self, func: FuncInfo, expr: ast.AST) -> List[FuncInfo]:
        """Functions denoted by ``expr`` when used as a value (not called)."""
        if isinstance(expr, ast.Call) and dotted(expr.func) == "cast" and len(expr.args) == 2:
            return self._function_ref(func, expr.args[1])
        if isinstance(expr, (ast.Name, ast.Attribute)):
            typ = self.infer(func, expr)
            if typ and typ[0] == "func":
                return [typ[1]]
            if typ and typ[0] == "bound":
                return self._cha(typ[2], typ[1].name)
        return []

    def _collect_address_taken(self, func: FuncInfo) -> None:
        for node in walk_local(func.node, include_root=False):
            if isinstance(node, ast.Call):
                for arg in list(node.args) + [k.value for k in node.keywords]:
                    for target in self._function_ref(func, arg):
                        self.address_taken.setdefault(target.qualname, []).append((func, node))
            elif isinstance(node, (ast.Assign, ast.AnnAssign, ast.Return)) and getattr(node, "value", None) is not None:
                values = [node.value]
                if isinstance(node.value, (ast.Tuple, ast.List)):
                    values = list(node.value.elts)
                elif isinstance(node.value, ast.Dict):
                    values = [v for v in node.value.values]
                for value in values:
                    for target in self._function_ref(func, value):
                        self.address_taken.setdefault(target.qualname, []).append((func, node))

    def _collect_slots(self) -> None:
        """Callable-typed instance fields: which functions flow into them via constructors."""
        param_to_field_by_class: Dict[str, Dict[str, str]] = {}
        for cls in self.classes.values():
            init = cls.methods.get("__init__")
            if not init:
                continue
            param_to_field: Dict[str, str] = {}
            for node in walk_local(init.node):
                if isinstance(node, ast.Assign):
                    for target in node.targets:
                        for tgt, value, _ in self._unpack(target, node.value):
                            if (
                                isinstance(tgt, ast.Attribute)
                                and isinstance(tgt.value, ast.Name)
                                and tgt.value.id == init.params[0]
                                and isinstance(value, ast.Name)
                                and value.id in init.params
                            ):
                                param_to_field[value.id] = tgt.attr
            if param_to_field:
                param_to_field_by_class[cls.qualname] = param_to_field
        for caller in list(self.functions.values()):
            for node in walk_local(caller.node, include_root=False):
                if not isinstance(node, ast.Call) or not (node.args or node.keywords):
                    continue
                typ = self.infer(caller, node.func)
                if not (typ and typ[0] == "type"):
                    continue
                init = typ[1].find_method("__init__")
                if init is None or init.cls is None or init.cls.qualname not in param_to_field_by_class:
                    continue
                param_to_field = param_to_field_by_class[init.cls.qualname]
                bound = self.bind_args(init, node, skip_self=True)
                for param, arg in bound.items():
                    if param in param_to_field:
                        for target in self._function_ref(caller, arg):
                            self.slot_targets.setdefault((init.cls.qualname, param_to_field[param]), set()).add(target)

    @staticmethod
    def bind_args(callee: FuncInfo, call: ast.Call, skip_self: bool) -> Dict[str, ast.AST]:
        params = list(callee.params)
        if skip_self and params:
            params = params[1:]
        bound: Dict[str, ast.AST] = {}
        for index, arg in enumerate(call.args):
            if isinstance(arg, ast.Starred):
                break
            if index < len(params):
                bound[params[index]] = arg
        for keyword in call.keywords:
            if keyword.arg:
                bound[keyword.arg] = keyword.value
        return bound

    def _cha(self, cls: ClassInfo, name: str) -> List[FuncInfo]:
        """Methods ``name`` may dispatch to for a receiver of static class ``cls``."""
        out: List[FuncInfo] = []
        base = cls.find_method(name)
        if base is not None:
            out.append(base)
        for sub in cls.all_subclasses():
            if name in sub.methods and sub.methods[name] not in out:
                # private (mangled) names never dispatch to subclasses
                if name.startswith("__") and not name.endswith("__"):
                    continue
                out.append(sub.methods[name])
        return out

    def resolve_call(self, func: FuncInfo, call: ast.Call) -> CallSite:
        callee = call.func
        name = dotted(callee)
        # --- plain names
        if isinstance(callee, ast.Name):
            typ = self.infer(func, callee)
            if typ:
                site = self._site_from_type(func, call, typ)
                if site:
                    return site
            if callee.id in BUILTIN_NAMES or callee.id in ("cast",):
                return CallSite(func, call, [], f"builtins.{callee.id}")
            if typ and typ[0] == "callable":
                return self._dynamic_site(func, call)
            env = self.env_of(func)
            if callee.id in env:
                return self._dynamic_site(func, call)
            return CallSite(func, call, [], None, resolved=False)
        # --- attribute calls
        if isinstance(callee, ast.Attribute):
            if isinstance(callee.value, ast.Call) and dotted(callee.value.func) == "super":
                if func.cls:
                    for klass in func.cls.mro[1:]:
                        if callee.attr in klass.methods:
                            return CallSite(func, call, [klass.methods[callee.attr]], None)
                return CallSite(func, call, [], f"super.{callee.attr}")
            base = self.infer(func, callee.value)
            if base is not None:
                if base[0] == "cls":
                    cls = base[1]
                    targets = self._cha(cls, callee.attr)
                    if targets and targets[0].kind != "property":
                        return CallSite(func, call, targets, None)
                    # property / field holding a callable
                    slot = self._slot_for(cls, callee.attr)
                    if slot is not None:
                        return CallSite(func, call, sorted(slot, key=lambda f: f.qualname), None, dynamic=True)
                    found, ftype = cls.find_field(callee.attr)
                    if targets and targets[0].kind == "property":
                        ftype = targets[0].returns
                        found = True
                    if found:
                        if ftype and ftype[0] == "type":
                            return self._site_from_type(func, call, ftype) or CallSite(func, call, [], None, resolved=False)
                        return self._dynamic_site(func, call)
                    if any(n.endswith("Protocol") for n in cls.ext_base_names()) or cls.name.endswith("Protocol"):
                        return self._dynamic_site(func, call)
                    ext = cls.ext_base_names()
                    if ext:
                        return CallSite(func, call, [], f"{sorted(ext)[0]}.{callee.attr}")
                    return CallSite(func, call, [], None, resolved=False)
                if base[0] in ("type", "mod"):
                    typ = self.attr_type(base, callee.attr)
                    if typ:
                        site = self._site_from_type(func, call, typ)
                        if site:
                            return site
                    if base[0] == "type" and base[1].ext_base_names():
                        return CallSite(func, call, [], f"{sorted(base[1].ext_base_names())[0]}.{callee.attr}")
                    return CallSite(func, call, [], None, resolved=False)
                if base[0] == "ext":
                    return CallSite(func, call, [], f"{base[1]}.{callee.attr}")
                if base[0] in ("str", "list", "dict", "set", "tuple", "int", "bool"):
                    return CallSite(func, call, [], f"{base[0]}.{callee.attr}")
                if base[0] in ("func", "bound", "callable", "none"):
                    return CallSite(func, call, [], f"{base[0]}.{callee.attr}")
            # unknown receiver: container / str methods are assumed external
            if callee.attr in CONTAINER_METHODS:
                return CallSite(func, call, [], f"?.{callee.attr}")
            # unknown receiver, unknown method: over-approximate by name over all classes
            by_name = [c.methods[callee.attr] for c in self.classes.values() if callee.attr in c.methods]
            if by_name:
                return CallSite(func, call, by_name, None, dynamic=True)
            return CallSite(func, call, [], f"?.{callee.attr}")
        # --- calls on call results / subscripts: dict-dispatch etc.
        return self._dynamic_site(func, call)

    def _slot_for(self, cls: ClassInfo, attr: str) -> Optional[Set[FuncInfo]]:
        for klass in cls.mro:
            if (klass.qualname, attr) in self.slot_targets:
                return self.slot_targets[(klass.qualname, attr)]
            method = klass.methods.get(attr)
            if method is not None and method.kind == "property":
                # property returning self.<field>
                for node in walk_local(method.node):
                    if isinstance(node, ast.Return) and isinstance(node.value, ast.Attribute) and isinstance(node.value.value, ast.Name):
                        inner = self._slot_for(klass, node.value.attr)
                        if inner is not None:
                            return inner
                return None
        return None

    def _slot_call(self, func: FuncInfo, call: ast.Call) -> Optional[Set[FuncInfo]]:
        callee = call.func
        if isinstance(callee, ast.Name):
            found = self.param_targets.get((func.qualname, callee.id))
            if found:
                return found
            # local bound from a slot: x = self.F[k]  /  x: T = self.F[k]  /  x = get_handler(...)
            for node in walk_local(func.node):
                value: Optional[ast.AST] = None
                if isinstance(node, ast.Assign) and any(isinstance(t, ast.Name) and t.id == callee.id for t in node.targets):
                    value = node.value
                elif isinstance(node, ast.AnnAssign) and isinstance(node.target, ast.Name) and node.target.id == callee.id:
                    value = node.value
                if value is not None:
                    inner = self._slot_expr(func, value)
                    if inner:
                        return inner
            return self._local_function_values(func, callee.id, 0)
        return self._slot_expr(func, callee)

    def _local_function_values(self, func: FuncInfo, name: str, depth: int) -> Optional[Set[FuncInfo]]:
        """Functions a local can hold: an alias of a (bound) method or function, an element of a tuple
        assignment, or the i-th element of the tuples of a local table that a ``for`` statement unpacks."""
        if depth > 3:
            return None

        def functions_of(expr: ast.AST) -> Optional[Set[FuncInfo]]:
            if isinstance(expr, ast.Name) and expr.id != name:
                typ = self.infer(func, expr)
                if typ and typ[0] == "func":
                    return {typ[1]}
                return self._local_function_values(func, expr.id, depth + 1)
            typ = self.infer(func, expr)
            if typ and typ[0] == "func":
                return {typ[1]}
            if typ and typ[0] == "bound":
                return set(self._cha(typ[2], typ[1].name))
            return None

        out: Set[FuncInfo] = set()
        bound_somewhere = False
        for node in walk_local(func.node):
            if isinstance(node, ast.Assign):
                for target in node.targets:
                    for tgt, value, _ in self._unpack(target, node.value):
                        if isinstance(tgt, ast.Name) and tgt.id == name and value is not None:
                            bound_somewhere = True
                            found = functions_of(value)
                            if not found:
                                return None
                            out |= found
            elif isinstance(node, (ast.For, ast.comprehension)) and isinstance(node.target, ast.Tuple):
                for index, element in enumerate(node.target.elts):
                    if isinstance(element, ast.Name) and element.id == name:
                        bound_somewhere = True
                        table = node.iter
                        if isinstance(table, ast.Name):
                            tables = [n.value for n in walk_local(func.node) if isinstance(n, (ast.Assign, ast.AnnAssign)) and getattr(n, "value", None) is not None
                                      and any(isinstance(t, ast.Name) and t.id == table.id for t in (n.targets if isinstance(n, ast.Assign) else [n.target]))]
                        else:
                            tables = [table]
                        if not tables:
                            return None
                        for literal in tables:
                            if not isinstance(literal, (ast.List, ast.Tuple)):
                                return None
                            for row in literal.elts:
                                if not (isinstance(row, ast.Tuple) and index < len(row.elts)):
                                    return None
                                found = functions_of(row.elts[index])
                                if not found:
                                    return None
                                out |= found
        return out if bound_somewhere and out else None

    def _slot_expr(self, func: FuncInfo, expr: ast.AST, _depth: int = 0) -> Optional[Set[FuncInfo]]:
        base = expr.value if isinstance(expr, ast.Subscript) else expr
        if isinstance(base, ast.Attribute):
            owner = self.infer(func, base.value)
            if owner and owner[0] in ("cls", "type"):
                found = self._slot_for(owner[1], base.attr)
                if found:
                    return found
                match = re.match(r"^_([A-Za-z0-9]+?)(__\w+)$", base.attr)
                if match:
                    return self._slot_for(owner[1], match.group(2))
        if isinstance(base, ast.Call) and _depth < 3:
            # a function that returns a slot element (e.g. a getter over a handler table)
            typ = self.infer(func, base.func)
            targets: List[FuncInfo] = []
            if typ and typ[0] == "func":
                targets = [typ[1]]
            elif typ and typ[0] == "bound":
                targets = self._cha(typ[2], typ[1].name)
            out: Set[FuncInfo] = set()
            for target in targets:
                for node in walk_local(target.node):
                    if isinstance(node, ast.Return) and node.value is not None:
                        inner = self._slot_expr(target, node.value, _depth + 1)
                        if inner:
                            out |= inner
            return out or None
        return None

    def _site_from_type(self, func: FuncInfo, call: ast.Call, typ: Type) -> Optional[CallSite]:
        assert typ is not None
        if typ[0] == "type":
            cls = typ[1]
            init = cls.find_method("__init__")
            return CallSite(func, call, [init] if init else [], None if init else f"ctor.{cls.name}")
        if typ[0] == "func":
            return CallSite(func, call, [typ[1]], None)
        if typ[0] == "bound":
            return CallSite(func, call, self._cha(typ[2], typ[1].name), None)
        if typ[0] == "ext":
            return CallSite(func, call, [], typ[1])
        if typ[0] == "callable":
            return self._dynamic_site(func, call)
        if typ[0] == "cls":
            call_method = typ[1].find_method("__call__")
            if call_method and typ[1].subclasses == [] and not any(n.endswith("Protocol") for n in typ[1].ext_base_names()):
                return CallSite(func, call, [call_method], None)
            return self._dynamic_site(func, call)
        return None

    def _dynamic_site(self, func: FuncInfo, call: ast.Call) -> CallSite:
        """Call through a function value: a known slot, else any address-taken function of
        compatible arity (``wild``)."""
        precise = self._slot_call(func, call)
        if precise is not None:
            return CallSite(func, call, sorted(precise, key=lambda f: f.qualname), None, dynamic=True)
        nargs = len(call.args) + len(call.keywords)
        targets: List[FuncInfo] = []
        for qual in self.address_taken:
            target = self.functions.get(qual)
            if target is None:
                continue
            node = target.node
            params = len(target.params) - (1 if target.kind in ("instance", "class") else 0)
            defaults = len(node.args.defaults) + sum(1 for d in node.args.kw_defaults if d is not None)
            if node.args.vararg or node.args.kwarg or (params - defaults) <= nargs <= params:
                targets.append(target)
        targets.sort(key=lambda f: f.qualname)
        return CallSite(func, call, targets, None, dynamic=True, wild=True)

    # ---------------------------------------------------------------- queries
    def func(self, qualname: str) -> FuncInfo:
        if qualname not in self.functions:
            raise AnalysisError(f"anchor function not found: {qualname}")
        return self.functions[qualname]

    def cls(self, qualname: str) -> ClassInfo:
        if qualname not in self.classes:
            raise AnalysisError(f"anchor class not found: {qualname}")
        return self.classes[qualname]

    def method(self, class_qual: str, name: str) -> FuncInfo:
        cls = self.cls(class_qual)
        if name not in cls.methods:
            raise AnalysisError(f"anchor method not found: {class_qual}.{name}")
        return cls.methods[name]

    def sites_in(self, func: FuncInfo) -> List[CallSite]:
        return self.callsites.get(func.qualname, [])

    def callees(self, func: FuncInfo, include_dynamic: bool = True) -> List[FuncInfo]:
        out: List[FuncInfo] = []
        for site in self.sites_in(func):
            if site.dynamic and not include_dynamic:
                continue
            for target in site.targets:
                if target not in out:
                    out.append(target)
        return out

    def reachable(self, roots: Iterable[FuncInfo], include_dynamic: bool = True,
                  stop: Optional[Set[str]] = None, include_wild: bool = False) -> Dict[str, Optional[Tuple[FuncInfo, CallSite]]]:
        """Functions reachable from roots; value = (parent, call site) for witness paths."""
        parent: Dict[str, Optional[Tuple[FuncInfo, CallSite]]] = {}
        queue: List[FuncInfo] = []
        for root in roots:
            if root.qualname not in parent:
                parent[root.qualname] = None
                queue.append(root)
        while queue:
            cur = queue.pop(0)
            if stop and cur.qualname in stop:
                continue
            for site in self.sites_in(cur):
                if site.dynamic and not include_dynamic:
                    continue
                if site.wild and not include_wild:
                    continue
                for target in site.targets:
                    if target.qualname not in parent:
                        parent[target.qualname] = (cur, site)
                        queue.append(target)
        return parent

    def witness(self, parent: Dict[str, Optional[Tuple[FuncInfo, CallSite]]], qualname: str) -> List[str]:
        path: List[str] = []
        cur: Optional[str] = qualname
        guard = 0
        while cur is not None and guard < 200:
            guard += 1
            entry = parent.get(cur)
            if entry is None:
                path.append(self.functions[cur].short if cur in self.functions else cur)
                break
            caller, site = entry
            path.append(f"{self.functions[cur].short} (called at {site.where})")
            cur = caller.qualname
        return list(reversed(path))

    def resolution_rate(self) -> float:
        internal = self.stats.get("internal_or_unknown_call_sites", 0)
        return self.stats.get("resolved_internal_call_sites", 0) / internal if internal else 0.0

    def iter_functions(self, prefix: str = "") -> Iterator[FuncInfo]:
        for qual in sorted(self.functions):
            if qual.startswith(prefix) and not qual.endswith(".<module>"):
                yield self.functions[qual]
