"""
May-be-None dataflow over the statement CFG (forward, union at joins).

Tracked: parameters and locals (plain names) of one function.  A name *may be None* after
``x = None``, as an ``Optional[...]`` parameter (or one whose default is None), after a call to
a repo function whose return annotation is Optional, after ``d.get(k)`` on a dict, or after a
copy of such a name.  It stops being so on the true edge of ``x`` / ``x is not None`` /
``isinstance(x, T)``, the false edge of ``x is None`` / ``not x``, after ``assert x`` /
``assert x is not None``, after a re-assignment from something that cannot be None (``x or ""``,
``cast(T, x)``, a literal, a constructor ...) and after a dereference (which would have raised).

A *dereference* of a may-be-None name is reported: attribute access, subscription, ``len`` /
iteration / ``in`` / arithmetic / comparison with an order operator, passing it to a ``str``
method that needs a string, or to a repo function whose parameter is annotated non-Optional.
Expression-level short circuits (``x and x.y``, ``x.y if x else z``) narrow as well.
"""

from __future__ import annotations

import ast
from typing import Dict, FrozenSet, Iterator, List, Optional, Set, Tuple

from sa.cfg import CFG
from sa.model import FuncInfo, Program, dotted, walk_local

STR_ARG_METHODS = {"startswith", "endswith", "find", "rfind", "index", "rindex", "count", "replace", "join", "split", "rsplit", "partition", "rpartition", "removeprefix", "removesuffix"}
NON_NONE_BUILTINS = {"str", "int", "len", "list", "dict", "set", "tuple", "sorted", "bool", "repr", "abs", "min", "max", "sum", "range", "enumerate", "zip", "reversed", "float", "bytes", "frozenset", "open", "ord", "chr", "type", "isinstance", "any", "all"}


def _is_optional_annotation(node: Optional[ast.AST]) -> bool:
    if node is None:
        return False
    text = ast.unparse(node)
    if text.startswith("Optional[") or text == "None":
        return True
    if isinstance(node, ast.BinOp) and isinstance(node.op, ast.BitOr):
        return any(isinstance(side, ast.Constant) and side.value is None for side in (node.left, node.right)) or _is_optional_annotation(node.left) or _is_optional_annotation(node.right)
    if isinstance(node, ast.Subscript) and ast.unparse(node.value) in ("Union", "typing.Union"):
        elements = node.slice.elts if isinstance(node.slice, ast.Tuple) else [node.slice]
        return any(isinstance(e, ast.Constant) and e.value is None for e in elements)
    if isinstance(node, ast.Constant) and isinstance(node.value, str):
        return node.value.startswith("Optional[")
    return False


def _annotation_known(node: Optional[ast.AST]) -> bool:
    return node is not None and ast.unparse(node) not in ("Any", "typing.Any", "object")


_OPTIONAL_MEMBERS: Dict[str, Dict[str, bool]] = {}


def optional_member(cls, attr: str) -> bool:
    """Is ``<instance of cls>.attr`` declared Optional (annotated field or property)?"""
    table = _OPTIONAL_MEMBERS.setdefault(cls.qualname, {})
    if attr in table:
        return table[attr]
    verdict = False
    decided = False
    for klass in cls.mro or [cls]:
        method = klass.methods.get(attr)
        if method is not None:
            if method.kind == "property":
                verdict = _is_optional_annotation(getattr(method.node, "returns", None))
            decided = True
            break
        for stmt in klass.node.body:
            if isinstance(stmt, ast.AnnAssign) and isinstance(stmt.target, ast.Name) and stmt.target.id == attr:
                verdict, decided = _is_optional_annotation(stmt.annotation), True
        if decided:
            break
        for method in klass.methods.values():
            if not method.params:
                continue
            me = method.params[0]
            for node in walk_local(method.node):
                if isinstance(node, ast.AnnAssign) and isinstance(node.target, ast.Attribute) and node.target.attr == attr and isinstance(node.target.value, ast.Name) and node.target.value.id == me:
                    verdict, decided = _is_optional_annotation(node.annotation), True
        if decided:
            break
    table[attr] = verdict
    return verdict


def chain_key(expr: ast.AST) -> Optional[str]:
    """'a.b.c' for a pure name/attribute chain with at least one attribute"""
    if isinstance(expr, ast.Attribute):
        return dotted(expr)
    return None


class NonNull:
    def __init__(self, prog: Program, func: FuncInfo):
        self.prog = prog
        self.func = func
        self.cfg = CFG(func.node)
        self.sites = {id(site.node): site for site in prog.sites_in(func)}
        self.reports: List[Tuple[ast.AST, str, str]] = []  # (node, name, how)
        self._seen: Set[Tuple[int, str]] = set()
        self.members = True  # also follow Optional fields / properties reached through name.attr chains
        self.tracked: Set[str] = set()  # names that may be None somewhere in the function
        self.checked: Set[Tuple[int, int, str]] = set()  # dereference sites of tracked names (line, col, name)
        self._pending_chain_reports: Set[Tuple[int, str]] = set()

    # --------------------------------------------------------------- expression level
    def may_be_none(self, expr: ast.AST, state: FrozenSet[str]) -> bool:
        if isinstance(expr, ast.Constant):
            return expr.value is None
        if isinstance(expr, ast.Name):
            return expr.id in state
        if isinstance(expr, ast.Attribute):
            key = chain_key(expr)
            return key is not None and self.chain_is_optional(expr) and "!" + key not in state
        if isinstance(expr, ast.IfExp):
            true_state, false_state = self.narrow(expr.test, state)
            return self.may_be_none(expr.body, true_state) or self.may_be_none(expr.orelse, false_state)
        if isinstance(expr, ast.BoolOp):
            if isinstance(expr.op, ast.Or):
                return self.may_be_none(expr.values[-1], state)
            return any(self.may_be_none(value, state) for value in expr.values)
        if isinstance(expr, ast.NamedExpr):
            return self.may_be_none(expr.value, state)
        if isinstance(expr, ast.Call):
            name = dotted(expr.func) or ""
            if name == "cast" and len(expr.args) == 2:
                return _is_optional_annotation(expr.args[0])
            if name in NON_NONE_BUILTINS:
                return False
            site = self.sites.get(id(expr))
            if site is not None and site.targets and not site.dynamic:
                returns = [getattr(t.node, "returns", None) for t in site.targets if t.name != "__init__"]
                if returns and all(r is not None for r in returns):
                    return any(_is_optional_annotation(r) for r in returns)
                return False
            if isinstance(expr.func, ast.Attribute) and expr.func.attr == "get" and len(expr.args) == 1 and not expr.keywords:
                owner = self.prog.infer(self.func, expr.func.value)
                return bool(owner and owner[0] == "dict")
            return False
        return False

    def narrow(self, test: ast.AST, state: FrozenSet[str]) -> Tuple[FrozenSet[str], FrozenSet[str]]:
        """(state when test is true, state when test is false)"""
        if isinstance(test, ast.UnaryOp) and isinstance(test.op, ast.Not):
            true_state, false_state = self.narrow(test.operand, state)
            return false_state, true_state
        if isinstance(test, ast.BoolOp):
            if isinstance(test.op, ast.And):
                current = state
                false_union: Set[str] = set()
                for value in test.values:
                    true_state, false_state = self.narrow(value, current)
                    false_union |= false_state
                    current = true_state
                return current, frozenset(false_union)
            current = state
            true_union: Set[str] = set()
            for value in test.values:
                true_state, false_state = self.narrow(value, current)
                true_union |= true_state
                current = false_state
            return frozenset(true_union), current
        if isinstance(test, ast.Name):
            return state - {test.id}, state
        if isinstance(test, ast.Attribute) and self.chain_is_optional(test):
            return state | {"!" + (chain_key(test) or "")}, state
        if isinstance(test, ast.NamedExpr) and isinstance(test.target, ast.Name):
            with_target = state | {test.target.id} if self.may_be_none(test.value, state) else state - {test.target.id}
            return with_target - {test.target.id}, with_target
        if isinstance(test, ast.Compare) and len(test.ops) == 1 and isinstance(test.left, ast.Attribute) and self.chain_is_optional(test.left):
            right = test.comparators[0]
            known = state | {"!" + (chain_key(test.left) or "")}
            if isinstance(right, ast.Constant) and right.value is None:
                if isinstance(test.ops[0], (ast.IsNot, ast.NotEq)):
                    return known, state
                if isinstance(test.ops[0], (ast.Is, ast.Eq)):
                    return state, known
            if isinstance(test.ops[0], (ast.Eq, ast.Is)) and not self.may_be_none(right, state):
                return known, state
        if isinstance(test, ast.Compare) and len(test.ops) == 1 and isinstance(test.left, ast.Name):
            right = test.comparators[0]
            if isinstance(right, ast.Constant) and right.value is None:
                if isinstance(test.ops[0], ast.IsNot) or isinstance(test.ops[0], ast.NotEq):
                    return state - {test.left.id}, state
                if isinstance(test.ops[0], (ast.Is, ast.Eq)):
                    return state, state - {test.left.id}
            if isinstance(test.ops[0], (ast.Eq, ast.Is)) and not self.may_be_none(right, state):
                return state - {test.left.id}, state  # equal to something that is not None
        if isinstance(test, ast.Call) and dotted(test.func) == "isinstance" and test.args and isinstance(test.args[0], ast.Name):
            return state - {test.args[0].id}, state
        if isinstance(test, ast.Call) and dotted(test.func) == "isinstance" and test.args and isinstance(test.args[0], ast.Attribute) and self.chain_is_optional(test.args[0]):
            return state | {"!" + (chain_key(test.args[0]) or "")}, state
        return state, state

    def check_expr(self, expr: Optional[ast.AST], state: FrozenSet[str]) -> FrozenSet[str]:
        """Report dereferences of may-be-None names inside ``expr`` (evaluation order, short circuits);
        returns the state after evaluation (dereferenced names are known non-None afterwards)."""
        if expr is None:
            return state
        if isinstance(expr, (ast.Lambda, ast.GeneratorExp, ast.ListComp, ast.SetComp, ast.DictComp)):
            return state  # evaluated later / in their own scope
        if isinstance(expr, ast.BoolOp):
            current = state
            for value in expr.values:
                after = self.check_expr(value, current)
                true_state, false_state = self.narrow(value, after)
                current = true_state if isinstance(expr.op, ast.And) else false_state
            return state  # which operands ran is unknown afterwards
        if isinstance(expr, ast.IfExp):
            after = self.check_expr(expr.test, state)
            true_state, false_state = self.narrow(expr.test, after)
            self.check_expr(expr.body, true_state)
            self.check_expr(expr.orelse, false_state)
            return after
        if isinstance(expr, ast.Attribute):
            state = self.check_expr(expr.value, state)
            return self.deref(expr.value, expr, state, f"attribute '.{expr.attr}'")
        if isinstance(expr, ast.Subscript):
            state = self.check_expr(expr.value, state)
            state = self.check_expr(expr.slice, state)
            return self.deref(expr.value, expr, state, "subscription")
        if isinstance(expr, ast.BinOp):
            state = self.check_expr(expr.left, state)
            state = self.check_expr(expr.right, state)
            state = self.deref(expr.left, expr, state, "arithmetic / concatenation")
            return self.deref(expr.right, expr, state, "arithmetic / concatenation")
        if isinstance(expr, ast.Compare):
            state = self.check_expr(expr.left, state)
            operands = [expr.left] + list(expr.comparators)
            for comparator in expr.comparators:
                state = self.check_expr(comparator, state)
            for left, op, right in zip(operands, expr.ops, operands[1:]):
                if isinstance(op, (ast.Lt, ast.LtE, ast.Gt, ast.GtE)):
                    state = self.deref(left, expr, state, "ordering comparison")
                    state = self.deref(right, expr, state, "ordering comparison")
                elif isinstance(op, (ast.In, ast.NotIn)):
                    state = self.deref(right, expr, state, "membership test")
            return state
        if isinstance(expr, ast.Call):
            state = self.check_expr(expr.func, state)
            for arg in expr.args:
                state = self.check_expr(arg.value if isinstance(arg, ast.Starred) else arg, state)
            for keyword in expr.keywords:
                state = self.check_expr(keyword.value, state)
            name = dotted(expr.func) or ""
            if name in ("len", "iter", "sorted", "list", "tuple", "set", "enumerate", "reversed", "sum", "min", "max", "int", "float") and expr.args:
                state = self.deref(expr.args[0], expr, state, f"{name}()")
            if isinstance(expr.func, ast.Attribute) and expr.func.attr in STR_ARG_METHODS and expr.args:
                owner = self.prog.infer(self.func, expr.func.value)
                if owner and owner[0] == "str":
                    state = self.deref(expr.args[0], expr, state, f"argument of str.{expr.func.attr}()")
            site = self.sites.get(id(expr))
            if site is not None and site.targets and not site.dynamic and not site.wild:
                state = self._arguments(expr, site, state)
            return state
        if isinstance(expr, ast.Starred):
            state = self.check_expr(expr.value, state)
            return self.deref(expr.value, expr, state, "unpacking")
        if isinstance(expr, ast.NamedExpr):
            state = self.check_expr(expr.value, state)
            if isinstance(expr.target, ast.Name):
                state = state | {expr.target.id} if self.may_be_none(expr.value, state) else state - {expr.target.id}
            return state
        for child in ast.iter_child_nodes(expr):
            if isinstance(child, ast.expr):
                state = self.check_expr(child, state)
        return state

    def _arguments(self, call: ast.Call, site, state: FrozenSet[str]) -> FrozenSet[str]:
        for index, arg in enumerate(call.args):
            if not (isinstance(arg, (ast.Name, ast.Attribute)) and self.may_be_none(arg, state)):
                continue
            verdicts = []
            for target in site.targets:
                params = list(target.params)
                node = target.node
                offset = 1 if target.kind in ("instance", "class", "property") or target.name == "__init__" else 0
                if offset and isinstance(call.func, ast.Attribute) and target.kind != "class":
                    owner = self.prog.infer(self.func, call.func.value)
                    if owner and owner[0] == "type":
                        offset = 0  # Class.method(self, ...): self is passed explicitly
                position = index + offset
                all_args = node.args.posonlyargs + node.args.args  # type: ignore[attr-defined]
                if position >= len(all_args):
                    verdicts.append(None)
                    continue
                annotation = all_args[position].annotation
                verdicts.append(None if not _annotation_known(annotation) else not _is_optional_annotation(annotation))
                _ = params
            if verdicts and all(v is True for v in verdicts):
                state = self.deref(arg, call, state, f"argument {index + 1} of {site.targets[0].short}, whose parameter is not Optional")
        for keyword in call.keywords:
            if keyword.arg is None or not (isinstance(keyword.value, (ast.Name, ast.Attribute)) and self.may_be_none(keyword.value, state)):
                continue
            verdicts = []
            for target in site.targets:
                node = target.node
                found = [a for a in node.args.posonlyargs + node.args.args + node.args.kwonlyargs if a.arg == keyword.arg]  # type: ignore[attr-defined]
                verdicts.append(bool(found) and _annotation_known(found[0].annotation) and not _is_optional_annotation(found[0].annotation))
            if verdicts and all(verdicts):
                state = self.deref(keyword.value, call, state, f"argument '{keyword.arg}' of {site.targets[0].short}, whose parameter is not Optional")
        return state

    def chain_is_optional(self, expr: ast.AST) -> bool:
        if not self.members or not isinstance(expr, ast.Attribute):
            return False
        owner = self.prog.infer(self.func, expr.value)
        return bool(owner and owner[0] == "cls" and optional_member(owner[1], expr.attr))

    def deref(self, operand: ast.AST, where: ast.AST, state: FrozenSet[str], how: str) -> FrozenSet[str]:
        key = chain_key(operand)
        if key is not None and self.chain_is_optional(operand):
            self.checked.add((getattr(operand, "lineno", 0), getattr(operand, "col_offset", 0), key))
            self.tracked.add(key)
            if "!" + key not in state:
                mark = (getattr(where, "lineno", 0), key)
                if mark not in self._seen:
                    self._seen.add(mark)
                    self.reports.append((where, key, how))
                self._pending_chain_reports.add(mark)
            return state | {"!" + key}
        if isinstance(operand, ast.Name):
            self.checked.add((getattr(operand, "lineno", 0), getattr(operand, "col_offset", 0), operand.id))
        if isinstance(operand, ast.Name) and operand.id in state:
            mark = (getattr(where, "lineno", 0), operand.id)
            if mark not in self._seen:
                self._seen.add(mark)
                self.reports.append((where, operand.id, how))
            return state - {operand.id}
        return state

    # --------------------------------------------------------------- statement level
    def transfer(self, node, state: FrozenSet[str]) -> FrozenSet[str]:
        stmt = node.ast_node
        if node.kind == "cond":
            return self.check_expr(stmt, state)
        if node.kind in ("loop", "join", "entry", "exit", "raise", "handler"):
            if node.kind == "handler" and isinstance(stmt, ast.ExceptHandler) and stmt.name:
                return state - {stmt.name}
            if node.kind == "loop" and isinstance(stmt, (ast.For, ast.AsyncFor)):
                return state - {n.id for n in ast.walk(stmt.target) if isinstance(n, ast.Name)}
            return state
        if node.label == "for-iter":
            state = self.check_expr(stmt, state)
            return self.deref(stmt, stmt, state, "iteration")
        if node.kind == "with" and isinstance(stmt, (ast.With, ast.AsyncWith)):
            for item in stmt.items:
                state = self.check_expr(item.context_expr, state)
                if item.optional_vars is not None:
                    state = state - {n.id for n in ast.walk(item.optional_vars) if isinstance(n, ast.Name)}
            return state
        if isinstance(stmt, ast.Assign):
            state = self.check_expr(stmt.value, state)
            for target in stmt.targets:
                state = self._bind(target, stmt.value, state)
            return state
        if isinstance(stmt, ast.AnnAssign):
            if stmt.value is None:
                return state
            state = self.check_expr(stmt.value, state)
            return self._bind(stmt.target, stmt.value, state)
        if isinstance(stmt, ast.AugAssign):
            state = self.check_expr(stmt.value, state)
            if isinstance(stmt.target, ast.Name):
                state = self.deref(stmt.target, stmt, state, "augmented assignment")
                return state - {stmt.target.id}
            return self.check_expr(stmt.target, state)
        if isinstance(stmt, ast.Assert):
            state = self.check_expr(stmt.test, state)
            return self.narrow(stmt.test, state)[0]
        if isinstance(stmt, (ast.Expr, ast.Return)):
            return self.check_expr(stmt.value, state)
        if isinstance(stmt, ast.Raise):
            return self.check_expr(stmt.exc, state)
        if isinstance(stmt, ast.Delete):
            return state
        if isinstance(stmt, (ast.FunctionDef, ast.AsyncFunctionDef, ast.ClassDef)):
            return state - {stmt.name}
        if isinstance(stmt, ast.expr):
            return self.check_expr(stmt, state)
        return state

    def _bind(self, target: ast.AST, value: ast.AST, state: FrozenSet[str]) -> FrozenSet[str]:
        if isinstance(target, ast.Name):
            maybe = self.may_be_none(value, state)
            prefix = "!" + target.id + "."
            state = frozenset(item for item in state if not item.startswith(prefix))  # what was known about x.* is void
            return state | {target.id} if maybe else state - {target.id}
        if isinstance(target, ast.Attribute):
            key = chain_key(target)
            state = self.check_expr(target.value, state)
            if key is not None:
                maybe = self.may_be_none(value, state)
                prefix = "!" + key + "."
                state = frozenset(item for item in state if not item.startswith(prefix))
                if self.chain_is_optional(target):
                    return state - {"!" + key} if maybe else state | {"!" + key}
            return state
        if isinstance(target, (ast.Tuple, ast.List)):
            if isinstance(value, (ast.Tuple, ast.List)) and len(value.elts) == len(target.elts):
                for sub_target, sub_value in zip(target.elts, value.elts):
                    state = self._bind(sub_target, sub_value, state)
                return state
            return state - {n.id for n in ast.walk(target) if isinstance(n, ast.Name)}
        return self.check_expr(target, state)

    def edge_state(self, node, label: str, state: FrozenSet[str]) -> FrozenSet[str]:
        if node.kind == "cond" and label in ("true", "false"):
            true_state, false_state = self.narrow(node.ast_node, state)
            return true_state if label == "true" else false_state
        return state

    def run(self) -> List[Tuple[ast.AST, str, str]]:
        node = self.func.node
        initial: Set[str] = set()
        arguments = node.args  # type: ignore[attr-defined]
        positional = arguments.posonlyargs + arguments.args
        defaults = [None] * (len(positional) - len(arguments.defaults)) + list(arguments.defaults)
        for arg, default in list(zip(positional, defaults)) + list(zip(arguments.kwonlyargs, arguments.kw_defaults)):
            if _is_optional_annotation(arg.annotation) or (isinstance(default, ast.Constant) and default.value is None and arg.annotation is None):
                initial.add(arg.arg)
        if not initial and not any(isinstance(n, ast.Constant) and n.value is None for n in walk_local(node)) and not self._optional_calls() and not self._optional_members():
            return []
        in_state: Dict[int, FrozenSet[str]] = {self.cfg.entry: frozenset(initial)}
        work = [self.cfg.entry]
        rounds = 0
        while work and rounds < 20000:
            rounds += 1
            nid = work.pop()
            cfg_node = self.cfg.nodes[nid]
            before_reports = len(self.reports)
            out = self.transfer(cfg_node, in_state[nid])
            _ = before_reports
            for succ, label in self.cfg.succ[nid]:
                if label == "exc":
                    new = in_state[nid]  # the statement may not have completed
                else:
                    new = self.edge_state(cfg_node, label, out)
                old = in_state.get(succ)
                if old is None:
                    merged = new
                else:
                    merged = frozenset({i for i in old | new if not i.startswith("!")} | {i for i in old & new if i.startswith("!")})
                if old is None or merged != old:
                    in_state[succ] = merged
                    work.append(succ)
        for state in in_state.values():
            self.tracked |= {item for item in state if not item.startswith("!")}
        return self.reports

    def guarded_sites(self) -> int:
        """dereference sites of names that may be None somewhere in the function (each one an obligation)"""
        return sum(1 for _line, _col, name in self.checked if name in self.tracked)

    def _optional_members(self) -> bool:
        if not self.members:
            return False
        return any(isinstance(n, ast.Attribute) and self.chain_is_optional(n) for n in walk_local(self.func.node))

    def _optional_calls(self) -> bool:
        for site in self.prog.sites_in(self.func):
            for target in site.targets:
                if _is_optional_annotation(getattr(target.node, "returns", None)):
                    return True
        return False


def optional_dereferences(prog: Program, func: FuncInfo) -> Tuple[List[Tuple[ast.AST, str, str]], int]:
    analysis = NonNull(prog, func)
    reports = analysis.run()
    return reports, analysis.guarded_sites()
