"""
Shape normalisation applied to every parsed module before the program model is built.

Rules read expressions where they are used.  A value that is first stored in a local that has
no other use and then returned on the next statement,

    result = <expr>
    return result

is the same program as ``return <expr>``; the normal form is the latter.  Likewise

    flag = <expr>
    if flag:            (or ``if not flag:``)

with no other use of ``flag`` is normalised to ``if <expr>:``.  Nodes keep their
line numbers (the ``return`` takes the line of the assignment), so reports still point at the
source.  Nothing else is rewritten: branch polarity, early exits and loops are handled by the
rules themselves (guards_of / the CFG).
"""

from __future__ import annotations

import ast
from typing import Dict, List, Optional


def _uses(func: ast.AST, name: str) -> int:
    return sum(1 for sub in ast.walk(func) if isinstance(sub, ast.Name) and sub.id == name)


def _target_of(stmt: ast.stmt) -> str:
    if isinstance(stmt, ast.Assign) and len(stmt.targets) == 1 and isinstance(stmt.targets[0], ast.Name):
        return stmt.targets[0].id
    if isinstance(stmt, ast.AnnAssign) and isinstance(stmt.target, ast.Name) and stmt.value is not None:
        return stmt.target.id
    return ""


def _pairs(func: ast.AST, name: str) -> int:
    """number of adjacent ``name = e; return name`` pairs in the function"""
    count = 0
    for node in ast.walk(func):
        for field in ("body", "orelse", "finalbody"):
            block = getattr(node, field, None)
            if isinstance(block, list):
                for first, second in zip(block, block[1:]):
                    if isinstance(first, ast.stmt) and _target_of(first) == name and isinstance(second, ast.Return) and isinstance(second.value, ast.Name) and second.value.id == name:
                        count += 1
    return count


def _first_evaluated(expr: ast.AST):
    """(holder, field, index) of the sub-expression of a test that is evaluated first, when it is ``name := value``"""
    holder, field, index = None, None, None
    current = expr
    while True:
        if isinstance(current, ast.NamedExpr):
            return holder, field, index, current
        if isinstance(current, ast.BoolOp):
            holder, field, index, current = current, "values", 0, current.values[0]
        elif isinstance(current, ast.Compare):
            holder, field, index, current = current, "left", None, current.left
        elif isinstance(current, ast.UnaryOp):
            holder, field, index, current = current, "operand", None, current.operand
        else:
            return None


def _unwalrus(body: List[ast.stmt]) -> List[ast.stmt]:
    """``if (x := e) ...:`` -> ``x = e`` followed by ``if x ...:`` (the assignment expression is what the test
    evaluates first, so nothing moves across it); one spelling for the rules"""
    out: List[ast.stmt] = []
    for stmt in body:
        if isinstance(stmt, ast.If):
            found = _first_evaluated(stmt.test)
            if found is not None and isinstance(found[3].target, ast.Name):
                holder, field, index, walrus = found
                assign = ast.copy_location(ast.Assign(targets=[ast.copy_location(ast.Name(id=walrus.target.id, ctx=ast.Store()), walrus)], value=walrus.value), stmt)
                load = ast.copy_location(ast.Name(id=walrus.target.id, ctx=ast.Load()), walrus)
                if holder is None:
                    stmt.test = load
                elif index is None:
                    setattr(holder, field, load)
                else:
                    getattr(holder, field)[index] = load
                out.append(assign)
        out.append(stmt)
    return out


def _fold_block(func: ast.AST, body: List[ast.stmt]) -> List[ast.stmt]:
    out: List[ast.stmt] = []
    index = 0
    while index < len(body):
        stmt = body[index]
        following = body[index + 1] if index + 1 < len(body) else None
        target = _target_of(stmt) or None
        if (
            target is not None
            and isinstance(following, ast.Return)
            and isinstance(following.value, ast.Name)
            and following.value.id == target
            and _uses(func, target) == 2 * _pairs(func, target)  # the local has no other use
        ):
            folded = ast.Return(value=stmt.value)  # type: ignore[union-attr]
            ast.copy_location(folded, stmt)
            folded.end_lineno = getattr(following, "end_lineno", None)
            out.append(folded)
            index += 2
            continue
        if (
            target is not None
            and isinstance(following, ast.If)
            and _uses(func, target) == 2
            and not isinstance(stmt.value, ast.Constant)  # type: ignore[union-attr]
        ):
            test = following.test
            negated = isinstance(test, ast.UnaryOp) and isinstance(test.op, ast.Not)
            inner = test.operand if negated else test  # type: ignore[union-attr]
            if isinstance(inner, ast.Name) and inner.id == target:
                value = stmt.value  # type: ignore[union-attr]
                following.test = ast.copy_location(ast.UnaryOp(op=ast.Not(), operand=value), value) if negated else value
                out.append(following)
                index += 2
                continue
        out.append(stmt)
        index += 1
    return out


def named_tuple_classes(trees: List[ast.Module]) -> Dict[str, List[str]]:
    """class name -> field names, for every ``class X(NamedTuple)`` with annotated fields only"""
    found: Dict[str, List[str]] = {}
    ambiguous = set()
    for tree in trees:
        for node in ast.walk(tree):
            if not isinstance(node, ast.ClassDef):
                continue
            bases = {ast.unparse(b).split(".")[-1] for b in node.bases}
            if "NamedTuple" not in bases:
                continue
            fields = [s.target.id for s in node.body if isinstance(s, ast.AnnAssign) and isinstance(s.target, ast.Name)]
            has_methods = any(isinstance(s, (ast.FunctionDef, ast.AsyncFunctionDef)) for s in node.body)
            if not fields or has_methods:
                continue
            if node.name in found:
                ambiguous.add(node.name)
            found[node.name] = fields
    for name in ambiguous:
        found.pop(name, None)
    return found


class _Records(ast.NodeTransformer):
    """A plain record (NamedTuple without methods) is a tuple with named positions: ``X(a=1, b=2)`` is
    rewritten to ``(1, 2)`` and ``r.a`` to ``r[0]`` where ``r`` is bound, in the same function, to the result
    of a call of a function of this module whose return annotation is ``X`` (or to ``X(...)`` itself)."""

    def __init__(self, records: Dict[str, List[str]], returning: Dict[str, str]):
        self.records = records
        self.returning = returning  # function / method name (this module) -> record class it returns
        self.locals: Dict[str, str] = {}

    def visit_FunctionDef(self, node: ast.FunctionDef) -> ast.AST:
        saved = self.locals
        self.locals = {}
        for sub in ast.walk(node):
            if isinstance(sub, ast.Assign) and len(sub.targets) == 1 and isinstance(sub.targets[0], ast.Name) and isinstance(sub.value, ast.Call):
                callee = sub.value.func
                name = callee.attr if isinstance(callee, ast.Attribute) else callee.id if isinstance(callee, ast.Name) else ""
                record = self.returning.get(name) or (name if name in self.records else None)
                if record:
                    if sub.targets[0].id in self.locals and self.locals[sub.targets[0].id] != record:
                        self.locals[sub.targets[0].id] = ""
                    else:
                        self.locals[sub.targets[0].id] = record
        if node.returns is not None and ast.unparse(node.returns) in self.records:
            node.returns = None  # the annotation would name a class that the model no longer needs
        self.generic_visit(node)
        self._explode(node)
        self.locals = saved
        return node

    def _explode(self, func: ast.AST) -> None:
        """``r = f(); ... r[0] ... r[2]`` with no other use of ``r`` becomes ``(r__0, r__1, r__2) = f(); ... r__0 ... r__2``."""
        for name, record in self.locals.items():
            if not record:
                continue
            width = len(self.records[record])
            indexed = []
            other_loads = 0
            stores = []
            for sub in ast.walk(func):
                if isinstance(sub, ast.Subscript) and isinstance(sub.value, ast.Name) and sub.value.id == name and isinstance(sub.slice, ast.Constant) and isinstance(sub.slice.value, int) and isinstance(sub.ctx, ast.Load):
                    indexed.append(sub)
            indexed_names = {id(sub.value) for sub in indexed}
            for sub in ast.walk(func):
                if isinstance(sub, ast.Name) and sub.id == name:
                    if isinstance(sub.ctx, ast.Store):
                        stores.append(sub)
                    elif id(sub) not in indexed_names:
                        other_loads += 1
            if other_loads or len(stores) != 1 or not indexed:
                continue
            assign = next((a for a in ast.walk(func) if isinstance(a, ast.Assign) and len(a.targets) == 1 and a.targets[0] is stores[0]), None)
            if assign is None or isinstance(assign.value, ast.Tuple):
                continue
            assign.targets = [ast.copy_location(ast.Tuple(elts=[ast.copy_location(ast.Name(id=f"{name}__{i}", ctx=ast.Store()), stores[0]) for i in range(width)], ctx=ast.Store()), stores[0])]

            class Replace(ast.NodeTransformer):
                def visit_Subscript(self, node: ast.Subscript) -> ast.AST:
                    self.generic_visit(node)
                    if node in indexed and 0 <= node.slice.value < width:  # type: ignore[attr-defined]
                        return ast.copy_location(ast.Name(id=f"{name}__{node.slice.value}", ctx=ast.Load()), node)  # type: ignore[attr-defined]
                    return node

            Replace().visit(func)

    visit_AsyncFunctionDef = visit_FunctionDef  # type: ignore[assignment]

    def visit_Attribute(self, node: ast.Attribute) -> ast.AST:
        self.generic_visit(node)
        if isinstance(node.value, ast.Name) and isinstance(node.ctx, ast.Load):
            record = self.locals.get(node.value.id)
            if record and node.attr in self.records[record]:
                index = self.records[record].index(node.attr)
                return ast.copy_location(ast.Subscript(value=node.value, slice=ast.Constant(value=index), ctx=ast.Load()), node)
        return node

    def visit_Call(self, node: ast.Call) -> ast.AST:
        self.generic_visit(node)
        name = node.func.id if isinstance(node.func, ast.Name) else node.func.attr if isinstance(node.func, ast.Attribute) else ""
        fields = self.records.get(name)
        if fields is None or any(isinstance(a, ast.Starred) for a in node.args) or any(k.arg is None for k in node.keywords):
            return node
        values: Dict[str, ast.AST] = dict(zip(fields, node.args))
        for keyword in node.keywords:
            values[keyword.arg] = keyword.value  # type: ignore[index]
        if set(values) != set(fields):
            return node
        return ast.copy_location(ast.Tuple(elts=[values[f] for f in fields], ctx=ast.Load()), node)


# ------------------------------------------------------------------------------ annotations
_CLASSIC = {"list": "List", "dict": "Dict", "set": "Set", "tuple": "Tuple", "frozenset": "FrozenSet", "type": "Type"}


def _classic_annotation(node: ast.AST) -> ast.AST:
    """``X | None`` -> ``Optional[X]``, ``A | B`` -> ``Union[A, B]``, ``list[X]`` -> ``List[X]``: one spelling for the rules"""
    if isinstance(node, ast.BinOp) and isinstance(node.op, ast.BitOr):
        parts: List[ast.AST] = []

        def flatten(sub: ast.AST) -> None:
            if isinstance(sub, ast.BinOp) and isinstance(sub.op, ast.BitOr):
                flatten(sub.left)
                flatten(sub.right)
            else:
                parts.append(_classic_annotation(sub))

        flatten(node)
        others = [p for p in parts if not (isinstance(p, ast.Constant) and p.value is None)]
        if not others:
            return node
        inner = others[0] if len(others) == 1 else ast.Subscript(value=ast.Name(id="Union", ctx=ast.Load()), slice=ast.Tuple(elts=others, ctx=ast.Load()), ctx=ast.Load())
        result: ast.AST = inner
        if len(others) != len(parts):
            result = ast.Subscript(value=ast.Name(id="Optional", ctx=ast.Load()), slice=inner, ctx=ast.Load())
        for sub in ast.walk(result):
            if not hasattr(sub, "lineno"):
                ast.copy_location(sub, node)
        return result
    if isinstance(node, ast.Subscript):
        if isinstance(node.value, ast.Name) and node.value.id in _CLASSIC:
            node.value = ast.copy_location(ast.Name(id=_CLASSIC[node.value.id], ctx=ast.Load()), node.value)
        if isinstance(node.slice, ast.Tuple):
            node.slice.elts = [_classic_annotation(e) for e in node.slice.elts]
        else:
            node.slice = _classic_annotation(node.slice)  # type: ignore[assignment]
    return node


def _classic_annotations(tree: ast.Module) -> None:
    for node in ast.walk(tree):
        if isinstance(node, (ast.FunctionDef, ast.AsyncFunctionDef)):
            arguments = node.args.posonlyargs + node.args.args + node.args.kwonlyargs + [a for a in (node.args.vararg, node.args.kwarg) if a]
            for arg in arguments:
                if arg.annotation is not None:
                    arg.annotation = _classic_annotation(arg.annotation)  # type: ignore[assignment]
            if node.returns is not None:
                node.returns = _classic_annotation(node.returns)  # type: ignore[assignment]
        elif isinstance(node, ast.AnnAssign):
            node.annotation = _classic_annotation(node.annotation)  # type: ignore[assignment]


# ------------------------------------------------------------------------------ named constants
def module_constants(tree: ast.Module) -> Dict[str, ast.Constant]:
    """names bound exactly once in the whole module - at its top level, to a literal - and never a parameter, an
    import alias, a ``global`` / ``nonlocal`` or a handler name: ``NAME`` means the literal wherever it is read"""
    bound: Dict[str, ast.Constant] = {}
    for stmt in tree.body:
        target = stmt.targets[0] if isinstance(stmt, ast.Assign) and len(stmt.targets) == 1 else stmt.target if isinstance(stmt, ast.AnnAssign) else None
        value = getattr(stmt, "value", None)
        if isinstance(target, ast.Name) and isinstance(value, ast.Constant) and isinstance(value.value, (str, int, float, bool, bytes, type(None))) and not target.id.startswith("__"):
            bound[target.id] = value
    if not bound:
        return {}
    stores: Dict[str, int] = {}
    for node in ast.walk(tree):
        names: List[str] = []
        if isinstance(node, ast.Name) and isinstance(node.ctx, (ast.Store, ast.Del)):
            names = [node.id]
        elif isinstance(node, ast.arg):
            names = [node.arg, node.arg]
        elif isinstance(node, (ast.Global, ast.Nonlocal)):
            names = list(node.names) * 2
        elif isinstance(node, ast.ExceptHandler) and node.name:
            names = [node.name, node.name]
        elif isinstance(node, (ast.Import, ast.ImportFrom)):
            names = [(alias.asname or alias.name).split(".")[0] for alias in node.names] * 2
        elif isinstance(node, (ast.FunctionDef, ast.AsyncFunctionDef, ast.ClassDef)):
            names = [node.name, node.name]
        for name in names:
            stores[name] = stores.get(name, 0) + 1
    return {name: value for name, value in bound.items() if stores.get(name, 0) == 1}


class _Constants(ast.NodeTransformer):
    def __init__(self, constants: Dict[str, ast.Constant], module_aliases: Dict[str, Dict[str, ast.Constant]]):
        self.constants = constants
        self.module_aliases = module_aliases

    def visit_Name(self, node: ast.Name) -> ast.AST:
        if isinstance(node.ctx, ast.Load) and node.id in self.constants:
            return ast.copy_location(ast.Constant(value=self.constants[node.id].value), node)
        return node

    def visit_Attribute(self, node: ast.Attribute) -> ast.AST:
        if isinstance(node.ctx, ast.Load) and isinstance(node.value, ast.Name) and node.attr in self.module_aliases.get(node.value.id, {}):
            return ast.copy_location(ast.Constant(value=self.module_aliases[node.value.id][node.attr].value), node)
        return self.generic_visit(node)


def fold_constants(tree: ast.Module, module_name: str, all_constants: Dict[str, Dict[str, ast.Constant]]) -> ast.Module:
    """named literals (of this module, or imported from a module of the package) are replaced by the literal"""
    own = dict(all_constants.get(module_name, {}))
    imported: Dict[str, ast.Constant] = {}
    aliases: Dict[str, Dict[str, ast.Constant]] = {}
    package = module_name.split(".")
    for node in ast.walk(tree):
        if isinstance(node, ast.ImportFrom):
            base = node.module or ""
            if node.level:
                base = ".".join(package[: len(package) - node.level] + ([base] if base else []))
            for alias in node.names:
                local = alias.asname or alias.name
                if alias.name in all_constants.get(base, {}):
                    imported[local] = all_constants[base][alias.name]
                elif f"{base}.{alias.name}" in all_constants:
                    aliases[local] = all_constants[f"{base}.{alias.name}"]
        elif isinstance(node, ast.Import):
            for alias in node.names:
                if alias.asname and alias.name in all_constants:
                    aliases[alias.asname] = all_constants[alias.name]
    if imported or aliases:
        # an imported name that the module binds again is not a constant here
        rebound = {n.id for n in ast.walk(tree) if isinstance(n, ast.Name) and isinstance(n.ctx, (ast.Store, ast.Del))} | {a.arg for a in ast.walk(tree) if isinstance(a, ast.arg)}
        imported = {k: v for k, v in imported.items() if k not in rebound}
        aliases = {k: v for k, v in aliases.items() if k not in rebound}
    constants = {**imported, **own}
    if not constants and not aliases:
        return tree
    tree = _Constants(constants, aliases).visit(tree)
    return tree


def _is_private(name: str) -> bool:
    return name.startswith("__") and not name.endswith("__")


def class_constants(tree: ast.Module) -> Dict[str, Dict[str, ast.Constant]]:
    """per class (simple name; nested classes too): names bound exactly once in the class body, to a literal"""
    found: Dict[str, Dict[str, ast.Constant]] = {}
    seen: Dict[str, int] = {}
    for klass in ast.walk(tree):
        if not isinstance(klass, ast.ClassDef):
            continue
        seen[klass.name] = seen.get(klass.name, 0) + 1
        base_text = " ".join(ast.unparse(b) for b in klass.bases)
        if klass.decorator_list or klass.keywords or any(word in base_text for word in ("Enum", "Flag", "NamedTuple", "TypedDict", "Protocol")):
            continue  # members of such classes are not the literals they are written as
        bound: Dict[str, ast.Constant] = {}
        count: Dict[str, int] = {}
        for stmt in ast.walk(klass):
            if isinstance(stmt, ast.Name) and isinstance(stmt.ctx, (ast.Store, ast.Del)):
                count[stmt.id] = count.get(stmt.id, 0) + 1
        for stmt in klass.body:
            target = stmt.targets[0] if isinstance(stmt, ast.Assign) and len(stmt.targets) == 1 else stmt.target if isinstance(stmt, ast.AnnAssign) else None
            value = getattr(stmt, "value", None)
            if isinstance(target, ast.Name) and isinstance(value, ast.Constant) and isinstance(value.value, (str, int, float, bool, bytes, type(None))):
                bound[target.id] = value
        bound = {name: value for name, value in bound.items() if count.get(name, 0) == 1}
        if bound:
            found[klass.name] = bound
    return {name: bound for name, bound in found.items() if seen.get(name) == 1}


def attribute_stores(tree: ast.Module) -> set:
    """attribute names that are assigned or deleted through some object (``x.NAME = ...``), or named in setattr / delattr"""
    names = set()
    for node in ast.walk(tree):
        if isinstance(node, ast.Attribute) and isinstance(node.ctx, (ast.Store, ast.Del)):
            names.add(node.attr)
        elif isinstance(node, ast.Call) and isinstance(node.func, ast.Name) and node.func.id in ("setattr", "delattr") and len(node.args) >= 2:
            names.add(node.args[1].value if isinstance(node.args[1], ast.Constant) else "*")
    return names


def fold_class_constants(tree: ast.Module, module_name: str, all_classes: Dict[str, Dict[str, Dict[str, ast.Constant]]], stored: set) -> ast.Module:
    """``Class.NAME`` (anywhere; the class of this module or imported from a module of the package) and, for private
    names, ``self.NAME`` / ``cls.NAME`` inside the class are replaced by the literal that the class body binds NAME to -
    provided nothing in the package assigns an attribute of that name"""
    if "*" in stored:
        return tree
    visible: Dict[str, Dict[str, ast.Constant]] = dict(all_classes.get(module_name, {}))
    package = module_name.split(".")
    for node in ast.walk(tree):
        if isinstance(node, ast.ImportFrom):
            base = node.module or ""
            if node.level:
                base = ".".join(package[: len(package) - node.level] + ([base] if base else []))
            for alias in node.names:
                if alias.name in all_classes.get(base, {}):
                    public = {k: v for k, v in all_classes[base][alias.name].items() if not _is_private(k)}
                    if public:
                        visible.setdefault(alias.asname or alias.name, public)
    if not visible:
        return tree
    rebound = {n.id for n in ast.walk(tree) if isinstance(n, ast.Name) and isinstance(n.ctx, (ast.Store, ast.Del))} | {a.arg for a in ast.walk(tree) if isinstance(a, ast.arg)}
    visible = {k: v for k, v in visible.items() if k not in rebound}

    class Fold(ast.NodeTransformer):
        def __init__(self) -> None:
            self.classes: List[str] = []
            self.receivers: List[Optional[str]] = []

        def visit_ClassDef(self, node: ast.ClassDef) -> ast.AST:
            self.classes.append(node.name)
            self.receivers.append(None)
            self.generic_visit(node)
            self.receivers.pop()
            self.classes.pop()
            return node

        def visit_FunctionDef(self, node: ast.FunctionDef) -> ast.AST:
            first = node.args.args[0].arg if node.args.args else None
            is_static = any(isinstance(d, ast.Name) and d.id == "staticmethod" for d in node.decorator_list)
            directly_in_class = bool(self.classes) and self.receivers[-1] is None and len(self.receivers) == len(self.classes)
            self.receivers.append(first if directly_in_class and not is_static and first in ("self", "cls") else (self.receivers[-1] if self.receivers and not directly_in_class else None) or "")
            self.generic_visit(node)
            self.receivers.pop()
            return node

        visit_AsyncFunctionDef = visit_FunctionDef  # type: ignore[assignment]

        def visit_Attribute(self, node: ast.Attribute) -> ast.AST:
            if isinstance(node.ctx, ast.Load) and isinstance(node.value, ast.Name) and node.attr not in stored:
                owner = node.value.id
                if owner in visible and node.attr in visible[owner]:
                    if not _is_private(node.attr) or (self.classes and self.classes[-1] == owner):
                        return ast.copy_location(ast.Constant(value=visible[owner][node.attr].value), node)
                if _is_private(node.attr) and self.classes and self.receivers and owner == self.receivers[-1] and owner:
                    consts = visible.get(self.classes[-1], {})
                    if node.attr in consts:
                        return ast.copy_location(ast.Constant(value=consts[node.attr].value), node)
            return self.generic_visit(node)

    return Fold().visit(tree)


def normalise(tree: ast.Module, records: Optional[Dict[str, List[str]]] = None) -> ast.Module:
    _classic_annotations(tree)
    if records:
        returning: Dict[str, str] = {}
        for func in ast.walk(tree):
            if isinstance(func, (ast.FunctionDef, ast.AsyncFunctionDef)) and func.returns is not None:
                annotation = ast.unparse(func.returns)
                if annotation in records:
                    returning[func.name] = annotation
        if returning or any(isinstance(n, ast.Name) and n.id in records for n in ast.walk(tree)):
            tree = _Records(records, returning).visit(tree)
            ast.fix_missing_locations(tree)
    for func in ast.walk(tree):
        if not isinstance(func, (ast.FunctionDef, ast.AsyncFunctionDef)):
            continue
        for node in ast.walk(func):
            if node is not func and isinstance(node, (ast.FunctionDef, ast.AsyncFunctionDef, ast.ClassDef)):
                continue
            for field in ("body", "orelse", "finalbody"):
                block = getattr(node, field, None)
                if isinstance(block, list) and block and isinstance(block[0], ast.stmt):
                    setattr(node, field, _unwalrus(block))  # attached first: the folding below counts uses in the tree
        for node in ast.walk(func):
            if node is not func and isinstance(node, (ast.FunctionDef, ast.AsyncFunctionDef, ast.ClassDef)):
                continue
            for field in ("body", "orelse", "finalbody"):
                block = getattr(node, field, None)
                if isinstance(block, list) and block and isinstance(block[0], ast.stmt):
                    setattr(node, field, _fold_block(func, block))
    return tree
