"""
Shape normalisation applied to every parsed module before the program model is built.

Rules read expressions where they are used.  A value that is first stored in a local that has
no other use and then returned on the next statement,

    result = <expr>
    return result

is the same program as ``return <expr>``; the normal form is the latter.  Likewise

    flag = <expr>
    if flag:            (or ``if not flag:``)

with no other use of ``flag`` is normalised to ``if <expr>:``.  Nodes keep their
line numbers (the ``return`` takes the line of the assignment), so reports still point at the
source.  Nothing else is rewritten: branch polarity, early exits and loops are handled by the
rules themselves (guards_of / the CFG).
"""

from __future__ import annotations

import ast
from typing import List


def _uses(func: ast.AST, name: str) -> int:
    return sum(1 for sub in ast.walk(func) if isinstance(sub, ast.Name) and sub.id == name)


def _target_of(stmt: ast.stmt) -> str:
    if isinstance(stmt, ast.Assign) and len(stmt.targets) == 1 and isinstance(stmt.targets[0], ast.Name):
        return stmt.targets[0].id
    if isinstance(stmt, ast.AnnAssign) and isinstance(stmt.target, ast.Name) and stmt.value is not None:
        return stmt.target.id
    return ""


def _pairs(func: ast.AST, name: str) -> int:
    """number of adjacent ``name = e; return name`` pairs in the function"""
    count = 0
    for node in ast.walk(func):
        for field in ("body", "orelse", "finalbody"):
            block = getattr(node, field, None)
            if isinstance(block, list):
                for first, second in zip(block, block[1:]):
                    if isinstance(first, ast.stmt) and _target_of(first) == name and isinstance(second, ast.Return) and isinstance(second.value, ast.Name) and second.value.id == name:
                        count += 1
    return count


def _fold_block(func: ast.AST, body: List[ast.stmt]) -> List[ast.stmt]:
    out: List[ast.stmt] = []
    index = 0
    while index < len(body):
        stmt = body[index]
        following = body[index + 1] if index + 1 < len(body) else None
        target = _target_of(stmt) or None
        if (
            target is not None
            and isinstance(following, ast.Return)
            and isinstance(following.value, ast.Name)
            and following.value.id == target
            and _uses(func, target) == 2 * _pairs(func, target)  # the local has no other use
        ):
            folded = ast.Return(value=stmt.value)  # type: ignore[union-attr]
            ast.copy_location(folded, stmt)
            folded.end_lineno = getattr(following, "end_lineno", None)
            out.append(folded)
            index += 2
            continue
        if (
            target is not None
            and isinstance(following, ast.If)
            and _uses(func, target) == 2
            and not isinstance(stmt.value, ast.Constant)  # type: ignore[union-attr]
        ):
            test = following.test
            negated = isinstance(test, ast.UnaryOp) and isinstance(test.op, ast.Not)
            inner = test.operand if negated else test  # type: ignore[union-attr]
            if isinstance(inner, ast.Name) and inner.id == target:
                value = stmt.value  # type: ignore[union-attr]
                following.test = ast.copy_location(ast.UnaryOp(op=ast.Not(), operand=value), value) if negated else value
                out.append(following)
                index += 2
                continue
        out.append(stmt)
        index += 1
    return out


def normalise(tree: ast.Module) -> ast.Module:
    for func in ast.walk(tree):
        if not isinstance(func, (ast.FunctionDef, ast.AsyncFunctionDef)):
            continue
        for node in ast.walk(func):
            if node is not func and isinstance(node, (ast.FunctionDef, ast.AsyncFunctionDef, ast.ClassDef)):
                continue
            for field in ("body", "orelse", "finalbody"):
                block = getattr(node, field, None)
                if isinstance(block, list) and block and isinstance(block[0], ast.stmt):
                    setattr(node, field, _fold_block(func, block))
    return tree
