"""
Shape normalisation applied to every parsed module before the program model is built.

Rules read expressions where they are used.  A value that is first stored in a local that has
no other use and then returned on the next statement,

    result = <expr>
    return result

is the same program as ``return <expr>``; the normal form is the latter.  Likewise

    flag = <expr>
    if flag:            (or ``if not flag:``)

with no other use of ``flag`` is normalised to ``if <expr>:``.  Nodes keep their
line numbers (the ``return`` takes the line of the assignment), so reports still point at the
source.  Nothing else is rewritten: branch polarity, early exits and loops are handled by the
rules themselves (guards_of / the CFG).
"""

from __future__ import annotations

import ast
from typing import Dict, List, Optional


def _uses(func: ast.AST, name: str) -> int:
    return sum(1 for sub in ast.walk(func) if isinstance(sub, ast.Name) and sub.id == name)


def _target_of(stmt: ast.stmt) -> str:
    if isinstance(stmt, ast.Assign) and len(stmt.targets) == 1 and isinstance(stmt.targets[0], ast.Name):
        return stmt.targets[0].id
    if isinstance(stmt, ast.AnnAssign) and isinstance(stmt.target, ast.Name) and stmt.value is not None:
        return stmt.target.id
    return ""


def _pairs(func: ast.AST, name: str) -> int:
    """number of adjacent ``name = e; return name`` pairs in the function"""
    count = 0
    for node in ast.walk(func):
        for field in ("body", "orelse", "finalbody"):
            block = getattr(node, field, None)
            if isinstance(block, list):
                for first, second in zip(block, block[1:]):
                    if isinstance(first, ast.stmt) and _target_of(first) == name and isinstance(second, ast.Return) and isinstance(second.value, ast.Name) and second.value.id == name:
                        count += 1
    return count


def _fold_block(func: ast.AST, body: List[ast.stmt]) -> List[ast.stmt]:
    out: List[ast.stmt] = []
    index = 0
    while index < len(body):
        stmt = body[index]
        following = body[index + 1] if index + 1 < len(body) else None
        target = _target_of(stmt) or None
        if (
            target is not None
            and isinstance(following, ast.Return)
            and isinstance(following.value, ast.Name)
            and following.value.id == target
            and _uses(func, target) == 2 * _pairs(func, target)  # the local has no other use
        ):
            folded = ast.Return(value=stmt.value)  # type: ignore[union-attr]
            ast.copy_location(folded, stmt)
            folded.end_lineno = getattr(following, "end_lineno", None)
            out.append(folded)
            index += 2
            continue
        if (
            target is not None
            and isinstance(following, ast.If)
            and _uses(func, target) == 2
            and not isinstance(stmt.value, ast.Constant)  # type: ignore[union-attr]
        ):
            test = following.test
            negated = isinstance(test, ast.UnaryOp) and isinstance(test.op, ast.Not)
            inner = test.operand if negated else test  # type: ignore[union-attr]
            if isinstance(inner, ast.Name) and inner.id == target:
                value = stmt.value  # type: ignore[union-attr]
                following.test = ast.copy_location(ast.UnaryOp(op=ast.Not(), operand=value), value) if negated else value
                out.append(following)
                index += 2
                continue
        out.append(stmt)
        index += 1
    return out


def named_tuple_classes(trees: List[ast.Module]) -> Dict[str, List[str]]:
    """class name -> field names, for every ``class X(NamedTuple)`` with annotated fields only"""
    found: Dict[str, List[str]] = {}
    ambiguous = set()
    for tree in trees:
        for node in ast.walk(tree):
            if not isinstance(node, ast.ClassDef):
                continue
            bases = {ast.unparse(b).split(".")[-1] for b in node.bases}
            if "NamedTuple" not in bases:
                continue
            fields = [s.target.id for s in node.body if isinstance(s, ast.AnnAssign) and isinstance(s.target, ast.Name)]
            has_methods = any(isinstance(s, (ast.FunctionDef, ast.AsyncFunctionDef)) for s in node.body)
            if not fields or has_methods:
                continue
            if node.name in found:
                ambiguous.add(node.name)
            found[node.name] = fields
    for name in ambiguous:
        found.pop(name, None)
    return found


class _Records(ast.NodeTransformer):
    """A plain record (NamedTuple without methods) is a tuple with named positions: ``X(a=1, b=2)`` is
    rewritten to ``(1, 2)`` and ``r.a`` to ``r[0]`` where ``r`` is bound, in the same function, to the result
    of a call of a function of this module whose return annotation is ``X`` (or to ``X(...)`` itself)."""

    def __init__(self, records: Dict[str, List[str]], returning: Dict[str, str]):
        self.records = records
        self.returning = returning  # function / method name (this module) -> record class it returns
        self.locals: Dict[str, str] = {}

    def visit_FunctionDef(self, node: ast.FunctionDef) -> ast.AST:
        saved = self.locals
        self.locals = {}
        for sub in ast.walk(node):
            if isinstance(sub, ast.Assign) and len(sub.targets) == 1 and isinstance(sub.targets[0], ast.Name) and isinstance(sub.value, ast.Call):
                callee = sub.value.func
                name = callee.attr if isinstance(callee, ast.Attribute) else callee.id if isinstance(callee, ast.Name) else ""
                record = self.returning.get(name) or (name if name in self.records else None)
                if record:
                    if sub.targets[0].id in self.locals and self.locals[sub.targets[0].id] != record:
                        self.locals[sub.targets[0].id] = ""
                    else:
                        self.locals[sub.targets[0].id] = record
        if node.returns is not None and ast.unparse(node.returns) in self.records:
            node.returns = None  # the annotation would name a class that the model no longer needs
        self.generic_visit(node)
        self._explode(node)
        self.locals = saved
        return node

    def _explode(self, func: ast.AST) -> None:
        """``r = f(); ... r[0] ... r[2]`` with no other use of ``r`` becomes ``(r__0, r__1, r__2) = f(); ... r__0 ... r__2``."""
        for name, record in self.locals.items():
            if not record:
                continue
            width = len(self.records[record])
            indexed = []
            other_loads = 0
            stores = []
            for sub in ast.walk(func):
                if isinstance(sub, ast.Subscript) and isinstance(sub.value, ast.Name) and sub.value.id == name and isinstance(sub.slice, ast.Constant) and isinstance(sub.slice.value, int) and isinstance(sub.ctx, ast.Load):
                    indexed.append(sub)
            indexed_names = {id(sub.value) for sub in indexed}
            for sub in ast.walk(func):
                if isinstance(sub, ast.Name) and sub.id == name:
                    if isinstance(sub.ctx, ast.Store):
                        stores.append(sub)
                    elif id(sub) not in indexed_names:
                        other_loads += 1
            if other_loads or len(stores) != 1 or not indexed:
                continue
            assign = next((a for a in ast.walk(func) if isinstance(a, ast.Assign) and len(a.targets) == 1 and a.targets[0] is stores[0]), None)
            if assign is None or isinstance(assign.value, ast.Tuple):
                continue
            assign.targets = [ast.copy_location(ast.Tuple(elts=[ast.copy_location(ast.Name(id=f"{name}__{i}", ctx=ast.Store()), stores[0]) for i in range(width)], ctx=ast.Store()), stores[0])]

            class Replace(ast.NodeTransformer):
                def visit_Subscript(self, node: ast.Subscript) -> ast.AST:
                    self.generic_visit(node)
                    if node in indexed and 0 <= node.slice.value < width:  # type: ignore[attr-defined]
                        return ast.copy_location(ast.Name(id=f"{name}__{node.slice.value}", ctx=ast.Load()), node)  # type: ignore[attr-defined]
                    return node

            Replace().visit(func)

    visit_AsyncFunctionDef = visit_FunctionDef  # type: ignore[assignment]

    def visit_Attribute(self, node: ast.Attribute) -> ast.AST:
        self.generic_visit(node)
        if isinstance(node.value, ast.Name) and isinstance(node.ctx, ast.Load):
            record = self.locals.get(node.value.id)
            if record and node.attr in self.records[record]:
                index = self.records[record].index(node.attr)
                return ast.copy_location(ast.Subscript(value=node.value, slice=ast.Constant(value=index), ctx=ast.Load()), node)
        return node

    def visit_Call(self, node: ast.Call) -> ast.AST:
        self.generic_visit(node)
        name = node.func.id if isinstance(node.func, ast.Name) else node.func.attr if isinstance(node.func, ast.Attribute) else ""
        fields = self.records.get(name)
        if fields is None or any(isinstance(a, ast.Starred) for a in node.args) or any(k.arg is None for k in node.keywords):
            return node
        values: Dict[str, ast.AST] = dict(zip(fields, node.args))
        for keyword in node.keywords:
            values[keyword.arg] = keyword.value  # type: ignore[index]
        if set(values) != set(fields):
            return node
        return ast.copy_location(ast.Tuple(elts=[values[f] for f in fields], ctx=ast.Load()), node)


def normalise(tree: ast.Module, records: Optional[Dict[str, List[str]]] = None) -> ast.Module:
    if records:
        returning: Dict[str, str] = {}
        for func in ast.walk(tree):
            if isinstance(func, (ast.FunctionDef, ast.AsyncFunctionDef)) and func.returns is not None:
                annotation = ast.unparse(func.returns)
                if annotation in records:
                    returning[func.name] = annotation
        if returning or any(isinstance(n, ast.Name) and n.id in records for n in ast.walk(tree)):
            tree = _Records(records, returning).visit(tree)
            ast.fix_missing_locations(tree)
    for func in ast.walk(tree):
        if not isinstance(func, (ast.FunctionDef, ast.AsyncFunctionDef)):
            continue
        for node in ast.walk(func):
            if node is not func and isinstance(node, (ast.FunctionDef, ast.AsyncFunctionDef, ast.ClassDef)):
                continue
            for field in ("body", "orelse", "finalbody"):
                block = getattr(node, field, None)
                if isinstance(block, list) and block and isinstance(block[0], ast.stmt):
                    setattr(node, field, _fold_block(func, block))
    return tree
