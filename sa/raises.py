"""
May-raise analysis: which exception classes can escape each function.

Sources of exceptions that are modelled (the three failure sources property C15 names):
explicit ``raise`` statements anywhere in the repo, ``sys.exit`` (SystemExit), and the I/O
builtins ``open`` / ``read*`` / ``write`` / ``os.remove`` / ``shutil.*`` / ``tempfile.*``.
Implicit IndexError / KeyError / AttributeError / AssertionError-from-assert are *not*
modelled: they are internal errors (properties C01 / C07), which the containment rules
route through catch-all handlers anyway.

The result is computed as a least fixpoint over the call graph; handlers filter by class
with the builtin hierarchy below plus the repo's own exception classes.
"""

from __future__ import annotations

import ast
from dataclasses import dataclass, field
from typing import Dict, FrozenSet, List, Optional, Set, Tuple

from sa.cfg import handler_catches
from sa.model import CallSite, FuncInfo, Program, dotted, walk_local

BUILTIN_PARENTS: Dict[str, Optional[str]] = {
    "BaseException": None,
    "Exception": "BaseException",
    "SystemExit": "BaseException",
    "KeyboardInterrupt": "BaseException",
    "OSError": "Exception",
    "IOError": "OSError",  # alias
    "FileNotFoundError": "OSError",
    "PermissionError": "OSError",
    "ValueError": "Exception",
    "UnicodeError": "ValueError",
    "UnicodeDecodeError": "UnicodeError",
    "UnicodeEncodeError": "UnicodeError",
    "AssertionError": "Exception",
    "LookupError": "Exception",
    "KeyError": "LookupError",
    "IndexError": "LookupError",
    "TypeError": "Exception",
    "AttributeError": "Exception",
    "ImportError": "Exception",
    "RuntimeError": "Exception",
    "NotImplementedError": "RuntimeError",
    "StopIteration": "Exception",
    "ArgumentTypeError": "Exception",
}

EXTERNAL_RAISES: Dict[str, Tuple[str, ...]] = {
    "builtins.open": ("OSError",),
    "sys.exit": ("SystemExit",),
    "os.remove": ("OSError",),
    "os.replace": ("OSError",),
    "os.rename": ("OSError",),
    "os.unlink": ("OSError",),
    "os.listdir": ("OSError",),
    "shutil.copyfile": ("OSError",),
    "shutil.copy": ("OSError",),
    "shutil.copymode": ("OSError",),
    "shutil.move": ("OSError",),
    "tempfile.NamedTemporaryFile": ("OSError",),
    "tempfile.mkstemp": ("OSError",),
    "builtins.__import__": ("ImportError",),
}
FILE_METHOD_RAISES: Dict[str, Tuple[str, ...]] = {
    "read": ("OSError", "UnicodeDecodeError"),
    "readlines": ("OSError", "UnicodeDecodeError"),
    "readline": ("OSError", "UnicodeDecodeError"),
    "write": ("OSError", "UnicodeEncodeError"),
    "writelines": ("OSError", "UnicodeEncodeError"),
}


@dataclass
class RaisePoint:
    node: ast.AST
    kind: str  # raise | call | reraise | ext
    classes: Tuple[str, ...] = ()
    site: Optional[CallSite] = None
    handler: Optional[ast.ExceptHandler] = None
    # enclosing try statements, innermost first: (try node, part) part in body|handler|else|final
    context: List[Tuple[ast.AST, str]] = field(default_factory=list)


class RaiseAnalysis:
    def __init__(self, prog: Program, include_dynamic: bool = True):
        self.prog = prog
        self.include_dynamic = include_dynamic
        self.parents: Dict[str, Optional[str]] = dict(BUILTIN_PARENTS)
        for cls in prog.classes.values():
            parent: Optional[str] = None
            if cls.bases:
                parent = cls.bases[0].name
            elif cls.ext_bases:
                parent = cls.ext_bases[0].split(".")[-1]
            if parent and (parent in self.parents or any(parent == c.name for c in prog.classes.values())):
                self.parents.setdefault(cls.name, parent)
        self.points: Dict[str, List[RaisePoint]] = {}
        self.escapes: Dict[str, Set[str]] = {}
        self.origin: Dict[Tuple[str, str], Tuple[str, int, str]] = {}  # (func, class) -> (via, line, text)
        self._collect()
        self._solve()

    # ------------------------------------------------------------------ hierarchy
    def is_subclass(self, name: str, ancestor: str) -> bool:
        name = name.split("@")[0]
        if ancestor == "*":
            return True
        if ancestor == "IOError":
            ancestor = "OSError"
        cur: Optional[str] = "OSError" if name == "IOError" else name
        guard = 0
        while cur is not None and guard < 20:
            if cur == ancestor:
                return True
            cur = self.parents.get(cur)
            guard += 1
        return False

    def caught_by(self, name: str, handler: ast.ExceptHandler) -> bool:
        return any(self.is_subclass(name, caught) for caught in handler_catches(handler))

    # ------------------------------------------------------------------ collection
    def _collect(self) -> None:
        for func in self.prog.iter_functions():
            points: List[RaisePoint] = []
            self._walk(func, getattr(func.node, "body", []), [], points, None)
            self.points[func.qualname] = points
            self.escapes[func.qualname] = set()

    def _walk(self, func: FuncInfo, block: List[ast.stmt], context: List[Tuple[ast.AST, str]],
              points: List[RaisePoint], handler: Optional[ast.ExceptHandler]) -> None:
        for stmt in block:
            if isinstance(stmt, (ast.FunctionDef, ast.AsyncFunctionDef, ast.ClassDef)):
                continue
            if isinstance(stmt, ast.Try):
                self._walk(func, stmt.body, [(stmt, "body")] + context, points, handler)
                self._walk(func, stmt.orelse, [(stmt, "else")] + context, points, handler)
                for sub_handler in stmt.handlers:
                    self._walk(func, sub_handler.body, [(stmt, "handler")] + context, points, sub_handler)
                self._walk(func, stmt.finalbody, [(stmt, "final")] + context, points, handler)
                continue
            if isinstance(stmt, ast.Raise):
                if stmt.exc is None:
                    points.append(RaisePoint(stmt, "reraise", (), None, handler, list(context)))
                else:
                    target = stmt.exc.func if isinstance(stmt.exc, ast.Call) else stmt.exc
                    name = (dotted(target) or "Exception").split(".")[-1]
                    if isinstance(stmt.exc, ast.Name) and handler is not None and handler.name == stmt.exc.id:
                        points.append(RaisePoint(stmt, "reraise", (), None, handler, list(context)))
                    else:
                        points.append(RaisePoint(stmt, "raise", (name,), None, handler, list(context)))
            # expressions of this statement (not nested blocks)
            for expr in self._own_expressions(stmt):
                for node in walk_local(expr):
                    if isinstance(node, ast.Call):
                        self._call_point(func, node, context, points, handler)
            for attr in ("body", "orelse"):
                sub = getattr(stmt, attr, None)
                if isinstance(sub, list) and sub and isinstance(sub[0], ast.stmt):
                    self._walk(func, sub, context, points, handler)
            if isinstance(stmt, ast.Match):
                for case in stmt.cases:
                    self._walk(func, case.body, context, points, handler)

    @staticmethod
    def _own_expressions(stmt: ast.stmt) -> List[ast.AST]:
        if isinstance(stmt, (ast.If, ast.While)):
            return [stmt.test]
        if isinstance(stmt, (ast.For, ast.AsyncFor)):
            return [stmt.iter]
        if isinstance(stmt, (ast.With, ast.AsyncWith)):
            return [item.context_expr for item in stmt.items]
        if isinstance(stmt, ast.Try):
            return []
        return [stmt]

    def _call_point(self, func: FuncInfo, node: ast.Call, context: List[Tuple[ast.AST, str]],
                    points: List[RaisePoint], handler: Optional[ast.ExceptHandler]) -> None:
        site = None
        for candidate in self.prog.sites_in(func):
            if candidate.node is node:
                site = candidate
                break
        if site is None:
            return
        if site.targets and not site.wild and (self.include_dynamic or not site.dynamic):
            points.append(RaisePoint(node, "call", (), site, handler, list(context)))
        if site.external:
            classes = EXTERNAL_RAISES.get(site.external)
            if classes is None and isinstance(node.func, ast.Attribute) and node.func.attr in FILE_METHOD_RAISES:
                if site.external.startswith(("?.", "io.", "ext.", "builtins.open", "tempfile.")) or "TextIOWrapper" in site.external:
                    classes = FILE_METHOD_RAISES[node.func.attr]
            if classes:
                source = site.external.split(".")[-1]
                tagged = tuple(f"{c}@{source}" for c in classes)
                points.append(RaisePoint(node, "ext", tagged, site, handler, list(context)))

    # ------------------------------------------------------------------ solving
    def escaping_at(self, func: FuncInfo, point: RaisePoint, classes: Set[str]) -> Set[str]:
        """Subset of ``classes`` raised at ``point`` that leaves ``func``."""
        remaining = set(classes)
        for try_node, part in point.context:
            if part == "body":
                for handler in try_node.handlers:  # type: ignore[attr-defined]
                    remaining = {c for c in remaining if not self.caught_by(c, handler)}
            if not remaining:
                break
        return remaining

    def arriving(self, func: FuncInfo, handler: ast.ExceptHandler, try_node: ast.AST) -> Set[str]:
        """Classes that may arrive at ``handler`` from its try body."""
        out: Set[str] = set()
        for point in self.points[func.qualname]:
            in_body = False
            inner_tries: List[ast.AST] = []
            for ctx_try, part in point.context:
                if ctx_try is try_node:
                    in_body = part == "body"
                    break
                if part == "body":
                    inner_tries.append(ctx_try)
            if not in_body:
                continue
            live = set(self._classes_of(point, func))
            for ctx_try in inner_tries:
                for inner in ctx_try.handlers:  # type: ignore[attr-defined]
                    live = {c for c in live if not self.caught_by(c, inner)}
            # earlier handlers of the same try take precedence
            for earlier in try_node.handlers:  # type: ignore[attr-defined]
                if earlier is handler:
                    break
                live = {c for c in live if not self.caught_by(c, earlier)}
            out |= {c for c in live if self.caught_by(c, handler)}
        return out

    def _classes_of(self, point: RaisePoint, func: Optional[FuncInfo] = None) -> Set[str]:
        if point.kind == "reraise" and func is not None and point.handler is not None:
            try_node = next((t for t, part in point.context if part == "handler"), None)
            if try_node is None:
                return set()
            return self._narrowed_by_isinstance(func, point, self.arriving(func, point.handler, try_node))
        if point.kind in ("raise", "ext"):
            return set(point.classes)
        if point.kind == "call" and point.site is not None:
            out: Set[str] = set()
            for target in point.site.targets:
                out |= self.escapes.get(target.qualname, set())
            return out
        return set()

    def _narrowed_by_isinstance(self, func: FuncInfo, point: RaisePoint, classes: Set[str]) -> Set[str]:
        """A re-raise under ``isinstance(<the caught exception>, C)`` (directly or through a local that holds
        the test) re-raises only the caught classes that are C; under ``not isinstance`` only the others."""
        from sa.util import guards_of

        handler = point.handler
        if handler is None or not handler.name:
            return classes

        def isinstance_classes(test: ast.AST) -> Optional[List[str]]:
            if isinstance(test, ast.Name):
                values = [n.value for n in walk_local(func.node) if isinstance(n, ast.Assign) and any(isinstance(t, ast.Name) and t.id == test.id for t in n.targets)]
                if len(values) == 1:
                    return isinstance_classes(values[0])
                return None
            if isinstance(test, ast.Call) and isinstance(test.func, ast.Name) and test.func.id == "isinstance" and len(test.args) == 2 and isinstance(test.args[0], ast.Name) and test.args[0].id == handler.name:
                wanted = test.args[1].elts if isinstance(test.args[1], ast.Tuple) else [test.args[1]]
                return [(dotted(w) or "").split(".")[-1] for w in wanted]
            return None

        out = set(classes)
        for test, polarity in guards_of(func.node, point.node):
            wanted = isinstance_classes(test)
            if wanted is None:
                continue
            matching = {c for c in out if any(self.is_subclass(c.split("@")[0], w) for w in wanted)}
            out = matching if polarity else out - matching
        return out

    def _solve(self) -> None:
        funcs = list(self.prog.iter_functions())
        changed = True
        rounds = 0
        while changed and rounds < 40:
            changed = False
            rounds += 1
            for func in funcs:
                current = self.escapes[func.qualname]
                for point in self.points[func.qualname]:
                    classes = self._classes_of(point, func)
                    if not classes:
                        continue
                    # a handler body is not protected by its own try's handlers
                    escaping = self.escaping_at(func, point, classes)
                    new = escaping - current
                    if new:
                        current |= new
                        changed = True
                        for cls in new:
                            via = "raise" if point.kind in ("raise", "reraise", "ext") else (
                                point.site.targets[0].qualname if point.site and point.site.targets else "?")
                            if point.kind == "call" and point.site:
                                for target in point.site.targets:
                                    if cls in self.escapes.get(target.qualname, set()):
                                        via = target.qualname
                                        break
                            self.origin.setdefault((func.qualname, cls), (via, getattr(point.node, "lineno", 0), point.kind))

    # ------------------------------------------------------------------ queries
    def trace(self, func: FuncInfo, cls: str, limit: int = 10) -> List[str]:
        out: List[str] = []
        cur = func.qualname
        seen: Set[str] = set()
        while cur and cur not in seen and len(out) < limit:
            seen.add(cur)
            origin = self.origin.get((cur, cls))
            info = self.prog.functions.get(cur)
            if origin is None or info is None:
                break
            via, line, kind = origin
            out.append(f"{info.short} ({info.rel}:{line}) {'raises' if kind != 'call' else 'calls'} {cls if kind != 'call' else self.prog.functions[via].short if via in self.prog.functions else via}")
            if kind != "call":
                break
            cur = via
        return out

    def may_raise_at(self, func: FuncInfo, node: ast.AST, ignore: Tuple[str, ...] = ("ParserLoggerException",)) -> Set[str]:
        """Classes that evaluating ``node`` (statement or expression of ``func``) may raise,
        before any handler of ``func`` is applied."""
        out: Set[str] = set()
        inside = {id(sub) for sub in walk_local(node)} if not isinstance(node, (ast.With, ast.AsyncWith)) else {
            id(sub) for item in node.items for sub in walk_local(item.context_expr)}
        for point in self.points.get(func.qualname, []):
            if id(point.node) in inside or point.node is node:
                out |= self._classes_of(point, func)
        return {c for c in out if c.split("@")[0] not in ignore}

    def raising_predicate(self, func: FuncInfo, ignore: Tuple[str, ...] = ("ParserLoggerException",)):
        """A ``raising`` callback for sa.cfg.CFG driven by this analysis: a node has an exceptional
        edge iff it contains a raise/assert or something in it may raise a modelled exception.
        Calls with no resolved repo target and no modelled external are treated as non-raising
        except calls through unknown (wild) function values."""
        def predicate(node: ast.AST) -> bool:
            if isinstance(node, (ast.Raise,)):
                return True
            if isinstance(node, ast.Assert):
                return False
            if isinstance(node, (ast.If, ast.While, ast.For, ast.Try)):
                return False
            if self.may_raise_at(func, node, ignore):
                return True
            calls = [n for n in (walk_local(node) if not isinstance(node, (ast.With, ast.AsyncWith)) else
                                 [s for item in node.items for s in walk_local(item.context_expr)]) if isinstance(n, ast.Call)]
            for call in calls:
                for site in self.prog.sites_in(func):
                    if site.node is call and site.wild:
                        return True
            return False
        return predicate
