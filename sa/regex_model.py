"""
Regular expressions as data: every pattern the package compiles or matches is recovered as a
constant string (literals, concatenations, f-strings over class-level / module-level constants)
and parsed with the standard library's own regex parser (``re._parser``).  The parse tree is then
analysed - nothing is matched against any input.

``unary_ambiguity(tree)`` looks for the classic exponential shape: a repetition ``(B)+`` / ``(B)*``
(unbounded or with a large bound) whose body B matches both c^i and c^j for one character c and
i != j.  A run c^n can then be split into iterations in exponentially many ways, and a backtracking
matcher tries them all before it rejects a near miss (``(a+)+``, ``(a|aa)*``, ``(?:LABEL\\.?)+``).
The set of lengths k with c^k in L(B) is computed on the parse tree (bounded by ``DEPTH``).
"""

from __future__ import annotations

import ast
import re
from typing import Dict, Iterator, List, Optional, Set, Tuple

from sa.model import ClassInfo, FuncInfo, Module, Program, dotted

try:  # Python >= 3.11
    from re import _constants as sre_constants  # type: ignore[attr-defined]
    from re import _parser as sre_parser  # type: ignore[attr-defined]
except ImportError:  # pragma: no cover
    import sre_constants  # type: ignore[no-redef]
    import sre_parse as sre_parser  # type: ignore[no-redef]

DEPTH = 6
LARGE = 10
REGEX_FUNCTIONS = {"compile", "match", "search", "fullmatch", "sub", "subn", "findall", "finditer", "split"}


# ------------------------------------------------------------------------- constant strings
def constant_string(prog: Program, module: Module, cls: Optional[ClassInfo], func: Optional[FuncInfo], expr: ast.AST, depth: int = 0) -> Optional[str]:
    if depth > 8:
        return None
    if isinstance(expr, ast.Constant):
        return expr.value if isinstance(expr.value, str) else None
    if isinstance(expr, ast.BinOp) and isinstance(expr.op, ast.Add):
        left = constant_string(prog, module, cls, func, expr.left, depth + 1)
        right = constant_string(prog, module, cls, func, expr.right, depth + 1)
        return left + right if left is not None and right is not None else None
    if isinstance(expr, ast.JoinedStr):
        parts: List[str] = []
        for value in expr.values:
            if isinstance(value, ast.Constant):
                parts.append(str(value.value))
            elif isinstance(value, ast.FormattedValue) and value.format_spec is None and value.conversion == -1:
                inner = constant_string(prog, module, cls, func, value.value, depth + 1)
                if inner is None:
                    return None
                parts.append(inner)
            else:
                return None
        return "".join(parts)
    if isinstance(expr, ast.Name):
        if func is not None and expr.id not in func.params:
            from sa.model import walk_local

            values = [n.value for n in walk_local(func.node) if isinstance(n, ast.Assign) and any(isinstance(t, ast.Name) and t.id == expr.id for t in n.targets)]
            if len(values) == 1:
                return constant_string(prog, module, cls, func, values[0], depth + 1)
            if values:
                return None
        if cls is not None and expr.id in cls.class_attrs:
            return constant_string(prog, module, cls, None, cls.class_attrs[expr.id], depth + 1)
        if expr.id in module.globals:
            return constant_string(prog, module, None, None, module.globals[expr.id], depth + 1)
        return None
    if isinstance(expr, ast.Attribute):
        name = dotted(expr) or ""
        if name.startswith("string."):
            import string

            value = getattr(string, name.split(".", 1)[1], None)
            return value if isinstance(value, str) else None
        owner = None
        if isinstance(expr.value, ast.Name):
            found = prog.lookup_qualified(module.imports.get(expr.value.id, f"{module.name}.{expr.value.id}"))
            if found and found[0] == "class":
                owner = found[1]
            elif cls is not None and expr.value.id in ("cls", "self"):
                owner = cls
        if owner is not None:
            for klass in owner.mro:
                if expr.attr in klass.class_attrs:
                    return constant_string(prog, klass.module, klass, None, klass.class_attrs[expr.attr], depth + 1)
        return None
    if isinstance(expr, ast.Call) and (dotted(expr.func) or "") == "re.compile" and expr.args:
        return constant_string(prog, module, cls, func, expr.args[0], depth + 1)
    return None


def patterns(prog: Program) -> Iterator[Tuple[Module, Optional[ClassInfo], Optional[FuncInfo], ast.Call, Optional[str]]]:
    """every ``re.<function>(pattern, ...)`` call of the package with its pattern as a constant (or None)"""
    for module in sorted(prog.modules.values(), key=lambda m: m.name):
        seen: Set[int] = set()
        scopes: List[Tuple[Optional[ClassInfo], Optional[FuncInfo], ast.AST]] = []
        for func in prog.functions.values():
            if func.module is module:
                scopes.append((func.cls, func, func.node))
        for klass in module.classes.values():
            scopes.append((klass, None, klass.node))
        scopes.append((None, None, module.tree))
        for klass, func, root in scopes:
            for node in ast.walk(root):
                if id(node) in seen or not isinstance(node, ast.Call):
                    continue
                name = dotted(node.func) or ""
                if name.startswith("re.") and name[3:] in REGEX_FUNCTIONS and node.args:
                    seen.add(id(node))
                    yield module, klass, func, node, constant_string(prog, module, klass, func, node.args[0])


# ------------------------------------------------------------------------- analysis of the parse tree
def _class_matches(items, char: str) -> bool:
    negate = False
    hit = False
    code = ord(char)
    for op, arg in items:
        if op is sre_constants.NEGATE:
            negate = True
        elif op is sre_constants.LITERAL:
            hit = hit or arg == code
        elif op is sre_constants.RANGE:
            hit = hit or arg[0] <= code <= arg[1]
        elif op is sre_constants.CATEGORY:
            name = str(arg)
            if "DIGIT" in name:
                value = char.isdigit()
            elif "SPACE" in name:
                value = char.isspace()
            elif "WORD" in name:
                value = char.isalnum() or char == "_"
            else:
                value = False
            if "NOT" in name:
                value = not value
            hit = hit or value
    return hit != negate


def unary_lengths(items, char: str, limit: int = DEPTH) -> Set[int]:
    """{k <= limit : char^k is matched by the sequence ``items``}"""
    lengths = {0}
    for op, arg in items:
        step: Set[int]
        if op is sre_constants.LITERAL:
            step = {1} if arg == ord(char) else set()
        elif op is sre_constants.NOT_LITERAL:
            step = {1} if arg != ord(char) else set()
        elif op is sre_constants.ANY:
            step = {1} if char != "\n" else set()
        elif op is sre_constants.IN:
            step = {1} if _class_matches(arg, char) else set()
        elif op is sre_constants.SUBPATTERN:
            step = unary_lengths(arg[-1], char, limit)
        elif op is sre_constants.BRANCH:
            step = set()
            for alternative in arg[1]:
                step |= unary_lengths(alternative, char, limit)
        elif op in (sre_constants.MAX_REPEAT, sre_constants.MIN_REPEAT) or str(op) == "POSSESSIVE_REPEAT":
            low, high, body = arg
            inner = unary_lengths(body, char, limit)
            step = set()
            reachable = {0}
            count = 0
            top = min(int(high), limit) if high is not sre_constants.MAXREPEAT else limit
            while count <= top:
                if count >= low:
                    step |= reachable
                reachable = {a + b for a in reachable for b in inner if a + b <= limit}
                if not reachable:
                    break
                count += 1
        elif op in (sre_constants.AT, sre_constants.ASSERT, sre_constants.ASSERT_NOT):
            step = {0}
        elif str(op) == "ATOMIC_GROUP":
            step = unary_lengths(arg, char, limit)
        else:  # GROUPREF and friends: unknown, assume nothing
            step = set()
        lengths = {a + b for a in lengths for b in step if a + b <= limit}
        if not lengths:
            return set()
    return lengths


def _candidate_chars(items) -> Set[str]:
    chars: Set[str] = set("a0 -._\t")
    for op, arg in items:
        if op is sre_constants.LITERAL:
            chars.add(chr(arg))
        elif op is sre_constants.IN:
            for inner_op, inner in arg:
                if inner_op is sre_constants.LITERAL:
                    chars.add(chr(inner))
                elif inner_op is sre_constants.RANGE:
                    chars.add(chr(inner[0]))
        elif op is sre_constants.SUBPATTERN:
            chars |= _candidate_chars(arg[-1])
        elif op is sre_constants.BRANCH:
            for alternative in arg[1]:
                chars |= _candidate_chars(alternative)
        elif op in (sre_constants.MAX_REPEAT, sre_constants.MIN_REPEAT):
            chars |= _candidate_chars(arg[2])
    return chars


def repeats(items) -> Iterator[Tuple[int, object, object]]:
    for op, arg in items:
        if op in (sre_constants.MAX_REPEAT, sre_constants.MIN_REPEAT):
            yield arg
            yield from repeats(arg[2])
        elif op is sre_constants.SUBPATTERN:
            yield from repeats(arg[-1])
        elif op is sre_constants.BRANCH:
            for alternative in arg[1]:
                yield from repeats(alternative)
        elif op in (sre_constants.ASSERT, sre_constants.ASSERT_NOT):
            yield from repeats(arg[1])


def unary_ambiguity(pattern: str) -> Optional[str]:
    """None, or a description of a repetition whose body matches c^i and c^j (i != j, both > 0)."""
    tree = sre_parser.parse(pattern)
    for low, high, body in repeats(tree):
        if not (high is sre_constants.MAXREPEAT or int(high) >= LARGE):
            continue
        for char in sorted(_candidate_chars(body)):
            lengths = sorted(k for k in unary_lengths(body, char) if k > 0)
            if len(lengths) >= 2:
                bound = "unbounded" if high is sre_constants.MAXREPEAT else f"up to {high} times"
                return (f"a group repeated {bound} matches {char!r} repeated {lengths[0]} and {lengths[1]} times: a run of {char!r} splits into "
                        "iterations in exponentially many ways, all of which a backtracking matcher tries before it rejects a near miss")
    return None


def parse_error(pattern: str) -> Optional[str]:
    try:
        sre_parser.parse(pattern)
        return None
    except re.error as exc:
        return str(exc)
