"""
Obligation bookkeeping, known findings, evidence files and exit-code contract.

A *rule* evaluates *obligations* (one per instance it matched in the source).  Each
obligation is discharged (``ok``) or produces a *finding* keyed by rule + construct
(qualified function name + normalised statement text) — never by line number.
"""

from __future__ import annotations

import json
import os
import time
from dataclasses import dataclass, field
from typing import Any, Dict, List, Optional

from sa.model import AnalysisError, Program

VERIF = os.path.dirname(os.path.dirname(os.path.abspath(__file__)))
KNOWN_FINDINGS = os.path.join(VERIF, "known_findings.json")
EVIDENCE_DIR = os.environ.get("VERIF_EVIDENCE_DIR") or os.path.join(VERIF, "evidence")


@dataclass
class Finding:
    rule: str
    key: str
    where: str
    message: str
    witness: List[str] = field(default_factory=list)

    def ident(self) -> str:
        return f"{self.rule}|{self.key}"


@dataclass
class Rule:
    rule_id: str
    title: str
    floor: int
    obligations: int = 0
    witnessed: set = field(default_factory=set)
    samples: List[Dict[str, Any]] = field(default_factory=list)
    findings: List[Finding] = field(default_factory=list)
    notes: List[str] = field(default_factory=list)

    def ok(self, site: str, detail: str = "") -> None:
        self.obligations += 1
        self.witnessed.add(site)
        if len(self.samples) < 6:
            self.samples.append({"rule": self.rule_id, "site": site, "verdict": "holds", "detail": detail[:300]})

    def fail(self, key: str, where: str, message: str, witness: Optional[List[str]] = None) -> None:
        self.obligations += 1
        self.witnessed.add(key)
        finding = Finding(self.rule_id, key, where, message, list(witness or []))
        if all(f.ident() != finding.ident() for f in self.findings):
            self.findings.append(finding)
        self.samples.insert(0, {"rule": self.rule_id, "site": key, "verdict": "violated", "detail": message[:300], "where": where})

    def note(self, text: str) -> None:
        self.notes.append(text)


class Context:
    """Handed to every rule function."""

    def __init__(self, prog: Program, tier: str, prop: str):
        self.prog = prog
        self.tier = tier
        self.prop = prop
        self.rules: List[Rule] = []

    def rule(self, rule_id: str, title: str, floor: int) -> Rule:
        rule = Rule(rule_id, title, floor)
        self.rules.append(rule)
        return rule

    def check_floors(self) -> None:
        for rule in self.rules:
            if rule.findings:
                continue  # a rule that reports a violation is not passing vacuously
            if rule.obligations < rule.floor:
                raise AnalysisError(
                    f"rule {rule.rule_id} ({rule.title}) matched {rule.obligations} instance(s), "
                    f"below the floor of {rule.floor} confirmed on the pinned tree: the anchors moved "
                    f"or the resolver lost them; refusing to pass vacuously"
                )

    def findings(self) -> List[Finding]:
        return [f for rule in self.rules for f in rule.findings]


def load_known() -> Dict[str, Dict[str, Any]]:
    """known_findings.json: {"known": [{property, rule, key, what}], "fixed": [...]}"""
    if not os.path.exists(KNOWN_FINDINGS):
        return {}
    with open(KNOWN_FINDINGS, encoding="utf-8") as handle:
        data = json.load(handle)
    table: Dict[str, Dict[str, Any]] = {}
    for entry in data.get("known", []):
        table[f"{entry['property']}|{entry['rule']}|{entry['key']}"] = entry
    return table


def write_evidence(prop: str, tier: str, seed: int, ctx: Optional[Context], explanation: str,
                   assumptions: List[str], wall: float, violations: int, extra: Optional[Dict[str, Any]] = None) -> str:
    os.makedirs(EVIDENCE_DIR, exist_ok=True)
    coverage: Dict[str, Any] = {"explanation": explanation}
    if ctx is not None:
        evaluations = sum(rule.obligations for rule in ctx.rules)
        distinct = sum(len(rule.witnessed) for rule in ctx.rules)
        samples: List[Dict[str, Any]] = []
        for rule in ctx.rules:
            samples.extend(rule.samples[:3])
        coverage.update(
            evaluations=evaluations,
            distinct_nontrivial=distinct,
            rule=(
                "one evaluation = one obligation (a rule instance matched in /repo's current source: a call "
                "site, function, loop, table row, path); distinct_nontrivial counts distinct construct keys "
                "(rule + qualified function + normalised statement) that the rule actually matched and decided"
            ),
            samples=samples[:40],
            per_rule={
                rule.rule_id: {
                    "title": rule.title,
                    "obligations": rule.obligations,
                    "floor": rule.floor,
                    "findings": len(rule.findings),
                    "notes": rule.notes[:8],
                }
                for rule in ctx.rules
            },
            program=dict(ctx.prog.stats, resolution_rate=round(ctx.prog.resolution_rate(), 4)),
        )
    if extra:
        coverage.update(extra)
    payload = {
        "property_id": prop,
        "tier": tier,
        "seed": seed,
        "level": "other",
        "coverage": coverage,
        "assumptions": assumptions,
        "wall_s": round(wall, 3),
        "violations": violations,
    }
    path = os.path.join(EVIDENCE_DIR, f"{prop}.json")
    tmp = path + ".tmp"
    with open(tmp, "w", encoding="utf-8") as handle:
        json.dump(payload, handle, indent=1, sort_keys=True, default=str)
        handle.write("\n")
    os.replace(tmp, path)
    return path


def write_replay(prop: str, index: int, finding: Finding, rule_title: str) -> str:
    replay_dir = os.path.join(EVIDENCE_DIR, "replay")
    os.makedirs(replay_dir, exist_ok=True)
    path = os.path.join(replay_dir, f"{prop}-{index}.json")
    with open(path, "w", encoding="utf-8") as handle:
        json.dump(
            {
                "property": prop,
                "rule": finding.rule,
                "rule_text": rule_title,
                "construct_key": finding.key,
                "where": finding.where,
                "message": finding.message,
                "witness": finding.witness,
                "how_to_replay": f"/venv/bin/python /verif/check.py {prop} --tier quick  (re-analyses /repo's current source)",
            },
            handle,
            indent=1,
        )
        handle.write("\n")
    return path


class Timer:
    def __init__(self) -> None:
        self.start = time.time()

    def elapsed(self) -> float:
        return time.time() - self.start
