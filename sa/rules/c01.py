"""C01 — parsing is total: every document tokenizes, and in bounded time (the decidable clause)."""

from __future__ import annotations

import ast
from typing import Dict, List, Optional, Set, Tuple

from sa.cfg import CFG
from sa.effects import Purity
from sa.model import AnalysisError, FuncInfo, Program, dotted, norm, walk_local
from sa.report import Context
from sa.rules import c15, common
from sa.state import MUTATORS
from sa.util import PathBudgetExceeded, enumerate_paths, func_key, where

EXPLANATION = (
    "Decides, from /repo's current source, one necessary condition of termination: R01 (definite divergence) for "
    "every 'while' loop of the package (about 200), no path through the loop body back to the loop head leaves "
    "untouched everything that the loop condition and the branch conditions on that path read. Writes are assignments, "
    "augmented assignments, deletions, mutator calls and — conservatively — every object handed to or receiving a "
    "call that the effect summary does not prove pure (including calls inside the loop condition). A path that writes "
    "nothing it reads re-executes identically for ever on any input that takes it once. R01c no 'for' loop grows or resizes the collection it iterates over (about 140 loops). R01d (totality, one clause) may-be-None dataflow over the CFG of every parser function: no parameter, local or Optional field/property chain that may be None (Optional annotation, None default, Optional-returning call, dict.get) is dereferenced, ordered, measured, iterated or handed to a non-Optional parameter on any path without a guard - such a path ends in TypeError / AttributeError, an internal error. R01e (bounded work, one clause) every regular expression the package compiles or matches is recovered as a compile-time constant and its parse tree (re._parser) has no repeated group whose body matches c^i and c^j for one character c (i != j) - the shape that makes a backtracking matcher exponential on a near miss; patterns that are not constants are unreachable from per-file processing. R01b the three parser passes "
    "run only inside the handler that converts any exception to a tokenization error (so an internal error is at "
    "least reported, =R15a). Not decided: absence of assertion failures and index errors, None held in object fields, polynomial work (including polynomial regular expressions), loops "
    "whose progress is made by a callee that may or may not mutate (the two known non-termination / assertion "
    "defects quoted in the property are of that kind and are out of this family's reach), recursion depth."
)
ASSUMPTIONS = [
    "all branches are feasible (a reported stuck path is a path of the code; an infeasible one would be triaged by name)",
    "callees not proved pure are assumed to make progress on everything they are given (no false alarm by construction)",
]


def _roots(expr: ast.AST) -> Set[str]:
    """Root variable names an expression reads (attribute/subscript chains collapse to their root)."""
    out: Set[str] = set()
    for node in ast.walk(expr):
        if isinstance(node, ast.Name) and isinstance(node.ctx, ast.Load):
            out.add(node.id)
    return out


def _root_of(node: ast.AST) -> Optional[str]:
    while isinstance(node, (ast.Attribute, ast.Subscript, ast.Starred)):
        node = node.value
    if isinstance(node, ast.Call):
        return _root_of(node.func)
    return node.id if isinstance(node, ast.Name) else None


def _writes(prog: Program, purity: Purity, func: FuncInfo, node: ast.AST) -> Set[str]:
    """Root names (possibly) written when evaluating ``node`` (a statement or a condition)."""
    out: Set[str] = set()
    for sub in ast.walk(node):
        if isinstance(sub, (ast.FunctionDef, ast.AsyncFunctionDef, ast.ClassDef, ast.Lambda)) and sub is not node:
            continue
        targets: List[ast.AST] = []
        if isinstance(sub, ast.Assign):
            targets = [t for t in sub.targets if ast.dump(t).replace("Store()", "Load()") != ast.dump(sub.value)]  # x = x changes nothing
        elif isinstance(sub, ast.AugAssign):
            neutral = isinstance(sub.value, ast.Constant) and (
                (isinstance(sub.op, (ast.Add, ast.Sub, ast.BitOr, ast.BitXor, ast.LShift, ast.RShift)) and sub.value.value == 0)
                or (isinstance(sub.op, (ast.Mult, ast.FloorDiv, ast.Div, ast.Pow)) and sub.value.value == 1)
                or (isinstance(sub.op, ast.Add) and sub.value.value == "")
            )
            targets = [] if neutral else [sub.target]
        elif isinstance(sub, ast.AnnAssign):
            targets = [sub.target]
        elif isinstance(sub, ast.Delete):
            targets = list(sub.targets)
        elif isinstance(sub, ast.NamedExpr):
            targets = [sub.target]
        elif isinstance(sub, (ast.For, ast.comprehension)):
            targets = [sub.target]
        elif isinstance(sub, ast.With):
            targets = [item.optional_vars for item in sub.items if item.optional_vars is not None]
        for target in targets:
            for elt in ast.walk(target):
                if isinstance(elt, (ast.Name, ast.Attribute, ast.Subscript)) and isinstance(getattr(elt, "ctx", None), (ast.Store, ast.Del)):
                    root = _root_of(elt)
                    if root:
                        out.add(root)
        if isinstance(sub, ast.Call):
            if isinstance(sub.func, ast.Attribute) and sub.func.attr in MUTATORS:
                root = _root_of(sub.func.value)
                if root:
                    out.add(root)
            if not purity.call_is_pure(func, sub):
                if isinstance(sub.func, ast.Attribute):
                    root = _root_of(sub.func.value)
                    if root:
                        out.add(root)
                for arg in list(sub.args) + [k.value for k in sub.keywords]:
                    out |= _roots(arg)
                # an impure call on a class (static helper) may advance class-level state read by the loop
                out.add("<world>")
    return out


def _immutable_local(prog: Program, func: FuncInfo, name: str) -> bool:
    env = prog.env_of(func)
    if name not in env:
        return False
    typ = env[name]
    return bool(typ and typ[0] in ("int", "str", "bool"))


def r01(ctx: Context) -> None:
    prog = ctx.prog
    rule = ctx.rule("R01", "no loop has a back-edge path that changes nothing its conditions read", 180)
    purity = Purity(prog)
    loops = 0
    fallback = 0
    total_decided = total_opaque = fully_decided = 0
    for func in prog.iter_functions():
        whiles = [n for n in walk_local(func.node) if isinstance(n, ast.While)]
        if not whiles:
            continue
        cfg = CFG(func.node, raising=lambda n: False)
        for loop in whiles:
            loops += 1
            head = cfg.stmt_node.get(id(loop))
            if head is None:
                raise AnalysisError(f"{func.short}: CFG head of a while loop not found")
            key = f"{func.short}: while {norm(loop.test)[:70]}"
            stuck_path = None
            paths = 0
            opaque_paths = 0
            decided_paths = 0
            try:
                for path in enumerate_paths(cfg, start=head, loop_bound=2, budget=6000, stop=lambda nid, h=head: nid == h):
                    if path[-1][0] != head:
                        continue  # left the loop (return / raise / fell out)
                    paths += 1
                    reads: Set[str] = set()
                    writes: Set[str] = set()
                    left_loop = False
                    for nid, label in path[:-1]:
                        node = cfg.nodes[nid]
                        if node.ast_node is None:
                            continue
                        if node.kind == "cond":
                            reads |= _roots(node.ast_node)
                            writes |= _writes(prog, purity, func, node.ast_node)
                        elif node.kind in ("stmt", "with"):
                            if node.kind == "stmt" and node.label == "for-iter":
                                reads |= set()
                            writes |= _writes(prog, purity, func, node.ast_node)
                        elif node.kind == "loop" and isinstance(node.ast_node, ast.For):
                            writes |= {n.id for n in ast.walk(node.ast_node.target) if isinstance(n, ast.Name)}
                    if "<world>" in writes:
                        # an impure call may change any mutable object and class-level state, but never the
                        # binding of a local whose static type is immutable (int / str / bool)
                        mutable_reads = {r for r in reads if not _immutable_local(prog, func, r)}
                        if mutable_reads or not reads:
                            opaque_paths += 1
                            continue
                        writes = writes - {"<world>"}
                    decided_paths += 1
                    if not (reads & writes):
                        # a constant-true loop with no reads at all and no exit on this path is stuck too
                        stuck_path = (path, reads, writes)
                        break
            except PathBudgetExceeded:
                fallback += 1
                reads = _roots(loop.test)
                writes = set()
                for stmt in loop.body:
                    writes |= _writes(prog, purity, func, stmt)
                    for sub in ast.walk(stmt):
                        if isinstance(sub, (ast.If, ast.While)):
                            reads |= _roots(sub.test)
                writes |= _writes(prog, purity, func, loop.test)
                if "<world>" not in writes and not (reads & writes):
                    stuck_path = ([], reads, writes)
            if stuck_path is not None:
                path, reads, writes = stuck_path
                steps = [cfg.describe(nid) + (f" [{label}]" if cfg.nodes[nid].kind == "cond" else "") for nid, label in path[:-1]][:14]
                rule.fail(
                    key, where(func, loop),
                    f"a path through the body of this loop returns to the loop head having written only {sorted(writes) or 'nothing'} while its "
                    f"conditions read {sorted(reads) or 'nothing'}: the next iteration is identical, so the parser never terminates on an input that reaches it",
                    steps,
                )
            else:
                rule.ok(key, f"{paths} back-edge path(s): {decided_paths} decided by read/write sets, {opaque_paths} contain a call that may make progress")
                total_decided += decided_paths
                total_opaque += opaque_paths
                if decided_paths and not opaque_paths:
                    fully_decided += 1
    rule.note(f"{fully_decided} loops decided on every path; back-edge paths decided {total_decided}, opaque {total_opaque}")
    rule.note(f"{loops} while loops; {fallback} analysed flow-insensitively (path budget); {len(purity.impure)} impure functions of {len(prog.functions)}")
    if loops < 180:
        raise AnalysisError(f"only {loops} while loops found (203 confirmed)")


def r01c(ctx: Context) -> None:
    """A for loop must not grow (or resize) the collection it iterates over."""
    prog = ctx.prog
    rule = ctx.rule("R01c", "no for loop grows or resizes the collection it is iterating over", 120)
    loops = 0
    for func in prog.iter_functions():
        for node in walk_local(func.node):
            if not isinstance(node, ast.For):
                continue
            loops += 1
            iterated = norm(node.iter)
            base = node.iter
            if isinstance(base, ast.Call) and (dotted(base.func) or "") in ("enumerate", "reversed", "iter") and base.args:
                iterated = norm(base.args[0])
            if isinstance(base, ast.Call) and isinstance(base.func, ast.Attribute) and base.func.attr in ("items", "keys", "values"):
                iterated = norm(base.func.value)
            offender = None
            for sub in [s for stmt in node.body for s in ast.walk(stmt)]:
                if isinstance(sub, ast.Call) and isinstance(sub.func, ast.Attribute) and norm(sub.func.value) == iterated:
                    if sub.func.attr in ("append", "extend", "insert", "add", "update", "setdefault"):
                        offender = sub
                    if sub.func.attr in ("pop", "remove", "clear", "popitem", "discard") and not isinstance(node.iter, ast.Name):
                        offender = sub
                if isinstance(sub, ast.Assign) and any(isinstance(t, ast.Subscript) and norm(t.value) == iterated for t in sub.targets):
                    typ = prog.infer(func, node.iter if not isinstance(base, ast.Call) else base)
                    if isinstance(base, ast.Call) and isinstance(base.func, ast.Attribute) and base.func.attr in ("items", "keys", "values"):
                        offender = sub  # new keys while iterating a dict view
            key = f"{func.short}: for {norm(node.target)} in {norm(node.iter)[:50]}"
            if offender is not None:
                rule.fail(key, where(func, offender), f"the loop body changes the size of '{iterated}' ('{norm(offender)[:60]}') while iterating over it: a list grows for ever, a dict or set raises 'changed size during iteration'")
            else:
                rule.ok(key, "collection not resized in the body")
    if loops < 120:
        raise AnalysisError(f"only {loops} for loops found")


def r01e(ctx: Context) -> None:
    """Bounded work: a backtracking regular expression with a repeated group whose iterations can
    overlap takes time exponential in the length of a near miss.  Every pattern of the package is
    recovered as a constant and its parse tree (re._parser) inspected; a pattern that is not a
    constant must not be reachable from the per-file processing."""
    from sa import regex_model
    from sa.rules.common import FSH

    prog = ctx.prog
    rule = ctx.rule("R01e", "no regular expression has a repeated group that matches the same run in more than one way", 8)
    per_file = prog.reachable([prog.method(FSH, "process_files_to_scan")])
    for module, klass, func, node, pattern in regex_model.patterns(prog):
        owner = func.short if func is not None else klass.name if klass is not None else module.name
        key = f"{owner}: {norm(node.args[0])[:70]}"
        location = f"{module.rel}:{node.lineno}"
        if pattern is None:
            if func is not None and func.qualname in per_file:
                rule.fail(key, location, "a regular expression that is not a compile-time constant is used while a file is processed: its matching cost cannot be bounded from the source")
            else:
                rule.ok(key, "built from configuration, matched against identifiers outside the per-file path")
            continue
        problem = regex_model.parse_error(pattern)
        if problem:
            rule.fail(key, location, f"the pattern {pattern!r} does not compile: {problem}")
            continue
        ambiguity = regex_model.unary_ambiguity(pattern)
        if ambiguity:
            rule.fail(key, location, f"pattern {pattern[:90]!r}: {ambiguity}")
        else:
            rule.ok(key, "no repeated group with overlapping iterations")


def run(ctx: Context) -> None:
    r01(ctx)
    r01c(ctx)
    r01e(ctx)
    common.optional_dereferences(
        ctx, "R01d", "no parameter or local of the parser that may be None is dereferenced unguarded on any path",
        lambda rel: not rel.startswith(("pymarkdown/plugins/", "pymarkdown/plugin_manager/", "pymarkdown/extension_manager/")), 300,
    )
    c15.r15a(ctx)
    ctx.rules[-1].rule_id = "R01b"
    for finding in ctx.rules[-1].findings:
        finding.rule = "R01b"
