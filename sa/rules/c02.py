"""C02 — the token stream is lossless: Markdown regenerated from tokens equals the source."""

from __future__ import annotations

import ast
import json
import os
import unicodedata
from typing import Dict, List, Optional, Set, Tuple

from sa.cfg import CFG
from sa.model import AnalysisError, ClassInfo, FuncInfo, Program, dotted, norm, walk_local
from sa.report import Context
from sa.rules import c11
from sa.tokens_model import MT, TokenClass, token_classes, token_constants
from sa.util import enumerate_paths, func_key, site_for, where

EXPLANATION = (
    "Decides, from /repo's current source: R02a every string constant that the regeneration path deletes from "
    "document-derived text (replace(c, '') in the closure of TransformToMarkdown.transform, and the marker "
    "characters the ParserHelper remove/resolve helpers strip) consists only of code points that cannot be document "
    "text (Unicode categories Cc/Cn/Co/Cs); R02b the token classes that can appear in a stream are exactly the "
    "registered ones, each registers its own class with a start handler and — iff it is closed by an end token — an "
    "end handler, containers are registered by the transformer itself, and token type names are pairwise distinct; "
    "R02c for every start/end handler pair the pushes on the transformer's block stack in the start handler equal "
    "the pops in the end handler on every path; R02d every token field that the regeneration code consumed on the "
    "pinned tree (sa/baseline/c02_fields.json, 100+ class.field pairs) is still read somewhere in the closure of "
    "the transformer — a field that is no longer consumed cannot reach the output; R02e (=R11d) pragma lines are "
    "re-inserted at decoded line numbers; R02f every boolean local of the parser and the regenerator that is tested, "
    "returned or handed on has more than one possible binding (three named constants) - a flag that can only hold "
    "one value has lost the case it records. Not decided: that the consumed fields are recombined correctly "
    "(character-level equality is a run-time property)."
)
ASSUMPTIONS = ["the parser stores each source character in some token field (the converse direction, not checked here)"]

T2M = "pymarkdown.transform_markdown.transform_to_markdown.TransformToMarkdown"
PH = "pymarkdown.general.parser_helper.ParserHelper"
MTC = "pymarkdown.transform_markdown.markdown_transform_context.MarkdownTransformContext"
BASELINE = os.path.join(os.path.dirname(os.path.dirname(os.path.abspath(__file__))), "baseline", "c02_fields.json")
SAFE_CATEGORIES = {"Cc", "Cn", "Co", "Cs"}


def regeneration_closure(prog: Program) -> Dict[str, object]:
    root = prog.method(T2M, "transform")
    init = prog.method(T2M, "__init__")
    return prog.reachable([root, init])


def _constant_string(prog: Program, func: FuncInfo, expr: ast.AST) -> Optional[str]:
    if isinstance(expr, ast.Constant) and isinstance(expr.value, str):
        return expr.value
    if isinstance(expr, ast.Attribute):
        owner = prog.infer(func, expr.value)
        if owner and owner[0] == "type":
            for klass in owner[1].mro:
                for name in (expr.attr, "__" + expr.attr.split("__")[-1]):
                    value = klass.class_attrs.get(name)
                    if isinstance(value, ast.Constant) and isinstance(value.value, str):
                        return value.value
    return None


def _letters(text: str) -> List[str]:
    return [f"U+{ord(ch):04X} ({unicodedata.category(ch)}, {unicodedata.name(ch, 'unnamed')})" for ch in text if unicodedata.category(ch) not in SAFE_CATEGORIES]


def r02a(ctx: Context) -> None:
    prog = ctx.prog
    rule = ctx.rule("R02a", "only non-text code points are ever deleted from regenerated text", 8)
    closure = regeneration_closure(prog)
    for qual in sorted(closure):
        func = prog.functions[qual]
        for node in walk_local(func.node):
            if isinstance(node, ast.Call) and isinstance(node.func, ast.Attribute) and node.func.attr == "replace" and len(node.args) == 2:
                replacement = node.args[1]
                if not (isinstance(replacement, ast.Constant) and replacement.value == ""):
                    continue
                receiver = prog.infer(func, node.func.value)
                if receiver is not None and receiver[0] != "str":
                    continue
                value = _constant_string(prog, func, node.args[0])
                name = norm(node.args[0])
                key = f"{func.short}: deletes {name}"
                if value is None:
                    if "make_value_visible" in norm(node) or func.name.startswith("__compose"):
                        continue
                    rule.ok(key, "run-time pattern (not a constant sentinel)")
                    continue
                bad = _letters(value)
                name = name if name.startswith(("'", '"')) else f"{name} = {value!r}"
                if bad:
                    rule.fail(f"sentinel {value!r}", where(func, node), f"{func.short} deletes every occurrence of {name} from the regenerated document, but {bad[0]} is a character a document can contain: such characters in the source are lost when the file is fixed")
                else:
                    rule.ok(f"sentinel {value!r}", f"{value!r} is not document text")
    helper = prog.cls(PH)
    referenced: Set[str] = set()
    for method in helper.methods.values():
        if not any(word in method.name for word in ("remove_", "resolve_")):
            continue
        for node in walk_local(method.node):
            if isinstance(node, ast.Attribute) and isinstance(node.value, ast.Name) and node.value.id == helper.name:
                referenced.add(node.attr)
            elif isinstance(node, ast.Constant) and isinstance(node.value, str) and node.value:
                # the helper's named characters are analysed as the literals they stand for
                referenced.update(name for name, bound in helper.class_attrs.items() if isinstance(bound, ast.Constant) and bound.value == node.value)
    markers = 0
    for attr in sorted(referenced):
        plain = attr if attr in helper.class_attrs else "__" + attr.split("__")[-1]
        value = helper.class_attrs.get(plain)
        if not (isinstance(value, ast.Constant) and isinstance(value.value, str)) or not plain.endswith("_character"):
            continue
        if plain.strip("_") in ("newline_character", "tab_character", "space_character", "backslash_character", "all_escape_characters"):
            continue
        markers += 1
        bad = _letters(value.value)
        key = f"marker ParserHelper.{plain.strip('_')}"
        if bad:
            rule.fail(key, f"pymarkdown/general/parser_helper.py:{value.lineno}", f"marker character {value.value!r} is stripped by the resolve/remove helpers but {bad[0]} can occur in documents")
        else:
            rule.ok(key, f"{value.value!r} is a control character")
    if markers < 4:
        raise AnalysisError(f"only {markers} ParserHelper marker characters recognised (5 confirmed)")


def container_registrations(prog: Program) -> List[Tuple[str, Optional[ast.AST], Optional[ast.AST]]]:
    """(container class name, start handler expression, end handler expression) for every registration the
    transformer's constructor makes - written out call by call, or driven by a local table of tuples."""
    init = prog.method(T2M, "__init__")
    rows: List[Tuple[str, Optional[ast.AST], Optional[ast.AST]]] = []

    def table_rows(call: ast.Call) -> Optional[List[List[ast.AST]]]:
        names = [a.id for a in call.args if isinstance(a, ast.Name)]
        if len(names) != len(call.args) or not names:
            return None
        for loop in [n for n in walk_local(init.node) if isinstance(n, ast.For) and any(sub is call for sub in ast.walk(n))]:
            if isinstance(loop.target, ast.Tuple) and [e.id for e in loop.target.elts if isinstance(e, ast.Name)] == [e.id for e in loop.target.elts if isinstance(e, ast.Name)]:
                positions = {e.id: i for i, e in enumerate(loop.target.elts) if isinstance(e, ast.Name)}
                if not all(n in positions for n in names):
                    continue
                table = loop.iter
                if isinstance(table, ast.Name):
                    values = [n.value for n in walk_local(init.node) if isinstance(n, (ast.Assign, ast.AnnAssign)) and getattr(n, "value", None) is not None
                              and any(isinstance(t, ast.Name) and t.id == table.id for t in (n.targets if isinstance(n, ast.Assign) else [n.target]))]
                    table = values[0] if len(values) == 1 else None
                if isinstance(table, (ast.List, ast.Tuple)) and all(isinstance(r, ast.Tuple) for r in table.elts):
                    return [[r.elts[positions[n]] for n in names] for r in table.elts]  # type: ignore[attr-defined]
        return None

    for node in walk_local(init.node):
        if isinstance(node, ast.Call) and isinstance(node.func, ast.Attribute) and node.func.attr == "register_container_handlers" and node.args:
            expanded = table_rows(node) or [list(node.args)]
            for arguments in expanded:
                name = (dotted(arguments[0]) or "").split(".")[-1]
                start = arguments[1] if len(arguments) > 1 else None
                end = arguments[2] if len(arguments) > 2 and not (isinstance(arguments[2], ast.Constant) and arguments[2].value is None) else None
                rows.append((name, start, end))
    return rows


def r02b(ctx: Context) -> None:
    prog = ctx.prog
    rule = ctx.rule("R02b", "every token class is registered and has the handlers its shape needs", 26)
    classes = token_classes(prog)
    consts = token_constants(prog)
    # distinct names
    by_value: Dict[str, List[str]] = {}
    for name, value in consts.items():
        by_value.setdefault(value, []).append(name)
    for value, names in by_value.items():
        if len(names) > 1:
            rule.fail(f"token names {sorted(names)}", "pymarkdown/tokens/markdown_token.py", f"token type constants {sorted(names)} share the value '{value}': handlers are keyed by this name, so one overwrites the other")
    rule.ok("token type names", f"{len(consts)} constants, pairwise distinct")
    init = prog.method(T2M, "__init__")
    container_regs: Dict[str, Tuple[bool, bool]] = {}
    for name, start, end in container_registrations(prog):
        container_regs[name] = (start is not None, end is not None)
    ends_by_container = {"NewListItemMarkdownToken": False}
    for token in classes:
        key = token.cls.name
        if token.registry is None:
            rule.fail(key, where(token.cls.methods["get_markdown_token_type"]), f"{key} can be produced by the parser but is not listed in TokenTypes / ExtensionTokenTypes: neither generator gets a handler for it")
            continue
        if token.type_name is None:
            rule.fail(key, where(token.cls.methods["get_markdown_token_type"]), f"{key}.get_markdown_token_type does not return a MarkdownToken._token_* constant")
            continue
        if token.registry == "CONTAINER":
            reg = container_regs.get(key)
            wants_end = ends_by_container.get(key, True)
            if reg is None or not reg[0]:
                rule.fail(key, where(init), f"container {key} has no start handler registered in TransformToMarkdown.__init__")
            elif reg[1] != wants_end:
                rule.fail(key, where(init), f"container {key}: end handler registered={reg[1]}, needed={wants_end}")
            else:
                rule.ok(key, "container handlers registered by the transformer")
            continue
        if key == "PragmaToken":
            rule.ok(key, "handled globally by __handle_pragma_processing (decided by R02e)")
            continue
        md = token.md_registration
        if md is None or md[1] is None:
            rule.fail(key, where(token.cls.methods["get_markdown_token_type"]), f"{key} registers no Markdown start handler: its text cannot be regenerated")
            continue
        if md[0] != key:
            rule.fail(key, where(token.cls.methods["register_for_markdown_transform"]), f"{key} registers its handlers under class {md[0]}")
            continue
        has_end = md[2] is not None
        if has_end != bool(token.requires_end):
            rule.fail(key, where(token.cls.methods["register_for_markdown_transform"]), f"{key}: requires_end_token={token.requires_end} but an end handler is {'registered' if has_end else 'missing'}: the end token's data (closing fence, trailing hashes, link suffix) is dropped or an assertion fires")
            continue
        rule.ok(key, f"start={md[1].name} end={md[2].name if md[2] else None}")
    # registries only list classes that exist
    if len([t for t in classes if t.registry]) < 26:
        rule.fail("registries", "pymarkdown/tokens/token_types.py", "fewer than 26 registered token classes")


def _stack_ops(func: FuncInfo, stack_attr: str) -> Set[int]:
    """Net push count (appends minus deletes) of ``context.<stack_attr>`` over each normal path."""
    cfg = CFG(func.node, raising=lambda n: False)
    nets: Set[int] = set()
    for path in enumerate_paths(cfg, loop_bound=1, budget=3000):
        if path[-1][0] != cfg.exit:
            continue
        net = 0
        for nid, _ in path:
            node = cfg.nodes[nid]
            if node.ast_node is None or node.kind != "stmt":
                continue
            stmt = node.ast_node
            for call in [c for c in ast.walk(stmt) if isinstance(c, ast.Call)]:
                if isinstance(call.func, ast.Attribute) and isinstance(call.func.value, ast.Attribute) and call.func.value.attr == stack_attr:
                    if call.func.attr == "append":
                        net += 1
                    elif call.func.attr == "pop":
                        net -= 1
            if isinstance(stmt, ast.Delete):
                for target in stmt.targets:
                    if isinstance(target, ast.Subscript) and isinstance(target.value, ast.Attribute) and target.value.attr == stack_attr:
                        net -= 1
        nets.add(net)
    return nets


def r02c(ctx: Context) -> None:
    prog = ctx.prog
    rule = ctx.rule("R02c", "start handlers push what end handlers pop on the regeneration block stack", 8)
    for token in token_classes(prog):
        md = token.md_registration
        if md is None or md[1] is None:
            continue
        start, end = md[1], md[2]
        pushes = _stack_ops(start, "block_stack")
        key = f"{token.cls.name}: block_stack"
        if end is None:
            if pushes - {0}:
                rule.fail(key, where(start), f"{start.short} pushes on block_stack (net {sorted(pushes)}) but {token.cls.name} has no end handler to pop it: every later token is regenerated in the wrong block context")
            else:
                rule.ok(key, "no push, no end handler")
            continue
        pops = _stack_ops(end, "block_stack")
        if len(pushes) != 1 or len(pops) != 1 or next(iter(pushes)) + next(iter(pops)) != 0:
            rule.fail(key, where(start), f"{start.short} changes block_stack by {sorted(pushes)} and {end.short} by {sorted(pops)} depending on the path: the stack is unbalanced after this element")
        else:
            rule.ok(key, f"start {sorted(pushes)}, end {sorted(pops)}")


def _fields_read(prog: Program, funcs) -> Set[str]:
    base = prog.cls(MT)
    out: Set[str] = set()
    for func in funcs:
        if func.cls is not None and base in func.cls.mro and func.name == "__init__":
            continue
        for node in walk_local(func.node):
            if not (isinstance(node, ast.Attribute) and isinstance(node.ctx, ast.Load)):
                continue
            owner = prog.infer(func, node.value)
            if not (owner and owner[0] == "cls" and base in owner[1].mro):
                continue
            member = owner[1].find_method(node.attr)
            if member is None or member.kind != "property" or member.cls is None:
                continue
            if node.attr.startswith("is_"):
                continue  # kind predicates, not content
            out.add(f"{member.cls.name}.{node.attr}")
    return out


def handler_roles(prog: Program) -> Dict[str, FuncInfo]:
    """'<TokenClass>:start' / ':end' -> the registered Markdown handler (leaf/inline/extension tokens
    register themselves; containers are registered in TransformToMarkdown.__init__)."""
    roles: Dict[str, FuncInfo] = {}
    for token in token_classes(prog):
        md = token.md_registration
        if md and md[1] is not None:
            roles[f"{token.cls.name}:start"] = md[1]
        if md and md[2] is not None:
            roles[f"{token.cls.name}:end"] = md[2]
    init = prog.method(T2M, "__init__")
    for name, start, end in container_registrations(prog):
        for handler, role in ((start, "start"), (end, "end")):
            if handler is not None:
                refs = prog._function_ref(init, handler)
                if refs:
                    roles[f"{name}:{role}"] = refs[0]
    return roles


def consumed_fields(prog: Program) -> Dict[str, List[str]]:
    """role -> class.property pairs of token classes read in the closure of that handler; the role
    'core' covers the transformer's own closure with the handlers cut out."""
    roles = handler_roles(prog)
    out: Dict[str, List[str]] = {}
    handler_quals = {func.qualname for func in roles.values()}
    for role, func in sorted(roles.items()):
        closure = prog.reachable([func])
        out[role] = sorted(_fields_read(prog, [prog.functions[q] for q in closure]))
    root = prog.method(T2M, "transform")
    core = prog.reachable([root], stop=handler_quals)
    out["core"] = sorted(_fields_read(prog, [prog.functions[q] for q in core if q not in handler_quals]))
    return out


def r02d(ctx: Context) -> None:
    prog = ctx.prog
    rule = ctx.rule("R02d", "token fields each regeneration handler consumed on the pinned tree are still consumed by it", 120)
    if not os.path.exists(BASELINE):
        raise AnalysisError(f"baseline {BASELINE} missing")
    with open(BASELINE, encoding="utf-8") as handle:
        baseline = json.load(handle)["fields"]
    current = consumed_fields(prog)
    roles = handler_roles(prog)
    for role, fields in sorted(baseline.items()):
        func = roles.get(role)
        for field in fields:
            cls_name, attr = field.split(".")
            candidates = prog.classes_by_name.get(cls_name, [])
            if not candidates or candidates[0].find_method(attr) is None:
                raise AnalysisError(f"property {field} of the baseline no longer exists (renamed?): regenerate the baseline with tools/gen_c02_baseline.py after review")
            key = f"{role}: {field}"
            if role != "core" and func is None:
                rule.fail(key, "pymarkdown/transform_markdown/transform_to_markdown.py", f"no Markdown {role.split(':')[1]} handler is registered for {role.split(':')[0]} any more, so '{field}' is not regenerated")
                continue
            if field in current.get(role, []):
                rule.ok(key, "read in the handler's closure")
            else:
                location = where(func) if func is not None else "pymarkdown/transform_markdown/transform_to_markdown.py"
                who = func.short if func is not None else "the transformer core"
                rule.fail(key, location, f"'{field}' is no longer read in the closure of {who} ({role}): the part of the source recorded in that field cannot reach the regenerated document for this element")


PIPELINE_EXCLUDED = ("pymarkdown/plugins/", "pymarkdown/plugin_manager/", "pymarkdown/extension_manager/")


def single_valued_branches(ctx: Context, rule_id: str = "R02f", only: Optional[Tuple[str, ...]] = None, floor: int = 600) -> None:
    """A local flag tested by a branch records something computed from the document (a container
    started mid-line, a prefix was consumed, ...).  If every binding of the flag is the same
    constant the branch is decided before the program runs and the distinction never reaches the
    tokens or the regenerated text.  (Contradiction rule: a test says 'may differ', the bindings
    say 'cannot'.)"""
    from sa.triage import C02_CONSTANT_FLAGS
    from sa.util import is_single_valued, single_valued_flags

    prog = ctx.prog
    rule = ctx.rule(rule_id, "no local flag of the parse / regeneration pipeline that is tested or handed on can hold one constant only", floor)
    for func in prog.functions.values():
        rel = func.module.rel
        if rel.startswith(PIPELINE_EXCLUDED) or (only and not rel.startswith(only)):
            continue
        flags = single_valued_flags(func)
        allowed = {f"{func.short}: {value!r}" for _name, value in flags if is_single_valued(value)} & set(C02_CONSTANT_FLAGS)
        constant_count: Dict[str, int] = {}
        for name, value in flags:
            key = f"{func.short}: {name.id}"
            if not is_single_valued(value):
                rule.ok(key, "the flag has more than one possible value")
                continue
            table_key = f"{func.short}: {value!r}"
            constant_count[table_key] = constant_count.get(table_key, 0) + 1
            if table_key in allowed and constant_count[table_key] == 1:
                rule.ok(table_key, "named constant: " + C02_CONSTANT_FLAGS[table_key])
            else:
                rule.fail(key, where(func, name), f"'{name.id}' is only ever bound to {value!r} in {func.short}, yet it is tested or handed on as a flag: the case it was meant to record is never recorded")


def run(ctx: Context) -> None:
    r02a(ctx)
    single_valued_branches(ctx)
    r02b(ctx)
    r02c(ctx)
    r02d(ctx)
    c11.r11d(ctx)
    ctx.rules[-1].rule_id = "R02e"
    for finding in ctx.rules[-1].findings:
        finding.rule = "R02e"
