"""C04 — the token stream is well-formed: balanced, properly nested, class-respecting."""

from __future__ import annotations

import ast
from typing import Dict, List, Optional, Set, Tuple

from sa.cfg import CFG
from sa.model import AnalysisError, ClassInfo, FuncInfo, Program, dotted, norm, walk_local
from sa.report import Context
from sa.tokens_model import END, MT, token_classes, token_constants
from sa.triage import C04_POP_EXCEPTIONS, C04_START_EXCEPTIONS
from sa.util import all_paths_pass, describe_path, func_key, site_for, where

EXPLANATION = (
    "Decides, from /repo's current source: R04a end tokens are constructed only by the two factories (from a "
    "markdown token, from a stack token) and by the named fix-rule replacement builders, and the factories pass the "
    "token being closed (self / the stack token's matching token) and its own type name; R04b every stack-token type "
    "name equals the type name of the markdown token class its stack class wraps (end tokens are matched to starts by "
    "that name); R04c on every path to each removal of the top of the parser's token stack an end token was "
    "generated from that stack entry first (or the entry is pushed back / is a link-reference-definition entry, "
    "named); R04d every construction of a token that must be closed is accompanied, in the same function, by the "
    "stack entry that will close it, by its end token, or by rebinding an existing stack entry; R04e the classes in "
    "the INLINE/LEAF/CONTAINER/SPECIAL registries derive from the matching base class; R04f both generators register "
    "an end handler exactly for the classes that are closed by an end token. "
    "R04g (=R02f on the parser packages) no boolean local that is tested or handed on can hold one constant only. R04h where a start token already in the stream is replaced by a corrected copy, every path that puts the copy into the stream also re-points the stack entry at it (must-pass-through), so the end token refers to the start token that is in the stream. Not decided: the nesting order chosen at run time (which entry is on top when a line is processed)."
)
ASSUMPTIONS = ["rules and generators match an end token to its start by the end token's type name and start_markdown_token reference"]

STACK = "pymarkdown.tokens.stack_token.StackToken"
FACTORY_MD = "generate_close_markdown_token_from_markdown_token"
FACTORY_STACK = "generate_close_markdown_token_from_stack_token"


def r04a(ctx: Context) -> None:
    prog = ctx.prog
    rule = ctx.rule("R04a", "end tokens come from the two factories and refer to the token they close", 4)
    end_cls = prog.cls(END)
    md_factory = prog.method(MT, FACTORY_MD)
    stack_factory = prog.method(STACK, FACTORY_STACK)
    allowed_builders = {
        "pymarkdown/plugins/rule_md_031.py": "fix-mode replacement builder",
        "pymarkdown/plugins/rule_md_046.py": "fix-mode replacement builder",
    }
    for func in prog.iter_functions():
        for site in prog.sites_in(func):
            if not any(t.cls == end_cls and t.name == "__init__" for t in site.targets):
                continue
            if isinstance(site.node.func, ast.Attribute) and site.node.func.attr == "__init__":
                continue
            key = func_key(func, site.node)
            if func in (md_factory, stack_factory):
                args = site.node.args
                name_arg = norm(args[0]) if args else ""
                token_keywords = [k.value for k in site.node.keywords if norm(k.value) in ("self", "self.matching_markdown_token") or (k.arg or "").endswith("markdown_token")]
                start_arg = norm(args[3]) if len(args) > 3 else norm(token_keywords[0] if token_keywords else ast.Constant(value=None))
                want_name = "self.token_name" if func == md_factory else "self.type_name"
                want_start = "self" if func == md_factory else "self.matching_markdown_token"
                if name_arg != want_name:
                    rule.fail(key, site.where, f"the factory names the end token '{name_arg}', not '{want_name}': the end token does not match its start by name")
                elif start_arg != want_start:
                    rule.fail(key, site.where, f"the factory links the end token to '{start_arg}', not to '{want_start}': the end token refers to the wrong start token")
                else:
                    rule.ok(key, f"end-{want_name} -> {want_start}")
            elif func.rel in allowed_builders:
                rule.ok(key, allowed_builders[func.rel])
            else:
                rule.fail(key, site.where, f"{func.short} constructs an EndMarkdownToken directly: its name and start reference are not guaranteed to match an open token")


def r04b(ctx: Context) -> None:
    prog = ctx.prog
    rule = ctx.rule("R04b", "stack-entry type names equal the type names of the tokens they close", 7)
    stack = prog.cls(STACK)
    stack_consts = {name: value.value for name, value in stack.class_attrs.items() if name.startswith("_stack_") and isinstance(value, ast.Constant)}
    token_by_class = {t.cls.name: t for t in token_classes(prog)}
    for cls in stack.all_subclasses():
        init = cls.methods.get("__init__")
        if init is None:
            continue
        const = None
        literal = None
        names_of = {value: name for name, value in stack_consts.items()}
        for node in walk_local(init.node):
            if isinstance(node, ast.Call) and isinstance(node.func, ast.Attribute) and node.func.attr == "__init__" and node.args:
                for arg in node.args:
                    name = dotted(arg) or ""
                    if name.split(".")[-1].startswith("_stack_"):
                        const = name.split(".")[-1]
                    elif const is None and isinstance(arg, ast.Constant) and isinstance(arg.value, str) and arg.value:
                        # the named type name is analysed as the literal it stands for
                        literal = arg.value
                        const = names_of.get(arg.value, repr(arg.value))
                        break
        if const is None:
            continue
        wrapped = None
        for param in init.params[1:]:
            typ = init.param_types.get(param)
            if param == "matching_markdown_token" and typ and typ[0] == "cls":
                wrapped = typ[1]
        key = f"{cls.name} ({const})"
        if wrapped is None:
            if const in ("_stack_base_document", "_stack_link_definition"):
                rule.ok(key, "no start token (never generates an end token)")
            continue
        expected = set()
        for token_name, token in token_by_class.items():
            if token.cls == wrapped or wrapped in token.cls.mro:
                if token.type_name:
                    expected.add(token.type_name)
        value = literal if literal is not None else stack_consts.get(const)
        if value in expected:
            rule.ok(key, f"'{value}' = type name of {wrapped.name}")
        else:
            rule.fail(key, where(init), f"stack entry {cls.name} is named '{value}' but closes a {wrapped.name} whose type name is {sorted(expected)}: its end token 'end-{value}' matches no start token")


def _top_removals(prog: Program) -> List[Tuple[FuncInfo, ast.AST]]:
    out = []
    for func in prog.iter_functions():
        if func.rel.startswith(("pymarkdown/plugins/", "pymarkdown/transform_")):
            continue
        for node in walk_local(func.node):
            if isinstance(node, ast.Delete):
                for target in node.targets:
                    if isinstance(target, ast.Subscript) and isinstance(target.value, ast.Attribute) and target.value.attr in ("token_stack", "__token_stack"):
                        out.append((func, node))
            if isinstance(node, ast.Call) and isinstance(node.func, ast.Attribute) and node.func.attr in ("pop", "clear", "remove") and isinstance(node.func.value, ast.Attribute) and node.func.value.attr in ("token_stack", "__token_stack"):
                out.append((func, node))
    return out


def r04c(ctx: Context) -> None:
    prog = ctx.prog
    rule = ctx.rule("R04c", "an entry leaves the parser's token stack only after its end token was generated", 9)
    removals = _top_removals(prog)
    if len(removals) < 8:
        raise AnalysisError(f"only {len(removals)} removals from the parser token stack found (>= 9 confirmed)")
    for func, node in removals:
        key = func_key(func, node)
        named = C04_POP_EXCEPTIONS.get(func.short)
        if named:
            rule.ok(key, f"named exception: {named}")
            continue
        cfg = CFG(func.node, raising=lambda n: False)
        target = None
        closes: Set[int] = set()
        saved_var: Optional[str] = None
        for cnode in cfg.nodes:
            if cnode.ast_node is None:
                continue
            if cnode.ast_node is node or (cnode.kind == "stmt" and any(sub is node for sub in ast.walk(cnode.ast_node))):
                target = cnode.nid
            if cnode.kind in ("stmt", "cond"):
                for call in [c for c in ast.walk(cnode.ast_node) if isinstance(c, ast.Call)]:
                    if isinstance(call.func, ast.Attribute) and call.func.attr in (FACTORY_STACK, FACTORY_MD):
                        closes.add(cnode.nid)
        if target is None:
            raise AnalysisError(f"{func.short}: CFG node of the stack removal not found")
        # temporary removal: the saved entry is pushed back later in the same function
        pushed_back = False
        for stmt in walk_local(func.node):
            if isinstance(stmt, ast.Assign) and norm(stmt.value).endswith("token_stack[-1]") and isinstance(stmt.targets[0], ast.Name):
                saved_var = stmt.targets[0].id
        if saved_var:
            for call in walk_local(func.node):
                if isinstance(call, ast.Call) and isinstance(call.func, ast.Attribute) and call.func.attr in ("append", "insert") and "token_stack" in norm(call.func.value) and any(isinstance(a, ast.Name) and a.id == saved_var for a in call.args):
                    pushed_back = True
            # or handed to a helper that re-adds it
            for call in walk_local(func.node):
                if isinstance(call, ast.Call) and any(isinstance(a, ast.Name) and a.id == saved_var for a in call.args) and getattr(call, "lineno", 0) > node.lineno:
                    pushed_back = True
        if pushed_back:
            rule.ok(key, f"temporary removal: '{saved_var}' is kept and re-added")
            continue
        witness = all_paths_pass(cfg, cfg.entry, closes, ends={target}, labels={"next", "true", "false"})
        if witness is None:
            rule.ok(key, f"every path to the removal generates the end token first ({len(closes)} factory call node(s))")
        else:
            rule.fail(key, where(func, node), f"{func.short} removes the top stack entry on a path that generated no end token for it: the element is left open in the token stream", describe_path(cfg, witness))


def r04d(ctx: Context) -> None:
    prog = ctx.prog
    rule = ctx.rule("R04d", "every token that needs an end token is created together with what will close it", 10)
    closing = {t.cls.qualname: t for t in token_classes(prog) if t.requires_end}
    stack = prog.cls(STACK)
    for func in prog.iter_functions():
        if func.rel.startswith(("pymarkdown/tokens/", "pymarkdown/plugins/", "pymarkdown/transform_", "pymarkdown/extensions/")):
            continue
        for site in prog.sites_in(func):
            made = [t.cls for t in site.targets if t.name == "__init__" and t.cls is not None and t.cls.qualname in closing]
            if not made or (isinstance(site.node.func, ast.Attribute) and site.node.func.attr == "__init__"):
                continue
            token_cls = made[0]
            key = f"{func.short}: new {token_cls.name}"
            named = C04_START_EXCEPTIONS.get(token_cls.name)
            if named:
                rule.ok(key, f"named exception: {named}")
                continue
            has_stack_entry = False
            has_end = False
            rebinds = False
            for other in prog.sites_in(func):
                for target in other.targets:
                    if target.name == "__init__" and target.cls is not None and stack in target.cls.mro and target.cls != stack:
                        wrapped = target.param_types.get("matching_markdown_token")
                        if wrapped and wrapped[0] == "cls" and (wrapped[1] == token_cls or wrapped[1] in token_cls.mro):
                            has_stack_entry = True
                    if target.name == FACTORY_MD:
                        has_end = True
                    if target.name == "reset_matching_markdown_token":
                        rebinds = True
            if has_stack_entry:
                rule.ok(key, "stack entry created in the same function")
            elif has_end:
                rule.ok(key, "end token generated in the same function")
            elif rebinds:
                rule.ok(key, "existing stack entry rebound to the new token")
            else:
                rule.fail(key, site.where, f"{func.short} creates a {token_cls.name} (which must be closed by an end token) without creating the stack entry that closes it, its end token, or rebinding an entry: the element is never closed")


def r04e(ctx: Context) -> None:
    prog = ctx.prog
    rule = ctx.rule("R04e", "registry lists agree with the class hierarchy", 26)
    for token in token_classes(prog):
        key = token.cls.name
        if token.registry in (None, "EXTENSION"):
            if token.registry == "EXTENSION":
                rule.ok(key, "extension token")
            continue
        if token.token_class == token.registry:
            rule.ok(key, f"{token.registry}")
        else:
            rule.fail(key, where(token.cls.methods["get_markdown_token_type"]), f"{key} is listed as {token.registry} but derives from the {token.token_class} base class: generators and rules treat it as the wrong class of token")


def r04f(ctx: Context) -> None:
    prog = ctx.prog
    rule = ctx.rule("R04f", "both generators have an end handler exactly for the classes that are closed", 20)
    for token in token_classes(prog):
        if token.registry in (None,) or token.cls.name == "PragmaToken":
            continue
        html = token.html_registration
        key = f"{token.cls.name}: html"
        wants_end = bool(token.requires_end) and token.cls.name != "NewListItemMarkdownToken"
        if html is None or html[1] is None:
            rule.fail(key, where(token.cls.methods["get_markdown_token_type"]), f"{token.cls.name} registers no HTML start handler")
            continue
        if (html[2] is not None) != wants_end:
            rule.fail(key, where(token.cls.methods["get_markdown_token_type"]), f"{token.cls.name}: closed by an end token = {wants_end}, HTML end handler registered = {html[2] is not None}")
        else:
            rule.ok(key, f"start={html[1].name} end={html[2].name if html[2] else None}")


PARSER_PACKAGES = tuple(f"pymarkdown/{name}/" for name in (
    "block_quotes", "coalesce", "container_blocks", "html", "inline", "leaf_blocks", "links", "list_blocks", "tokens", "general", "extensions",
))


def r04h(ctx: Context) -> None:
    """'Every end token ... refers to the token it closes.'  The end token is built from what the stack entry holds
    (its matching start token).  Where the parser replaces a start token that is already in the stream by a
    corrected copy, the stack entry must be re-pointed at the copy on every path that puts the copy into the
    stream - otherwise the end token refers to a start token that is not in the stream."""
    prog = ctx.prog
    rule = ctx.rule("R04h", "a start token replaced in the stream is replaced on the stack on the same paths", 2)
    sites = [(func, site) for func in prog.iter_functions() for site in prog.sites_in(func)
             if isinstance(site.node.func, ast.Attribute) and site.node.func.attr == "reset_matching_markdown_token" and site.node.args]
    if len(sites) < 2:
        raise AnalysisError(f"only {len(sites)} place(s) re-point a stack entry at a replaced start token (2 confirmed)")
    for func, site in sites:
        replacement = norm(site.node.args[0])
        key = func_key(func, site.node)
        placements = []
        for stmt in walk_local(func.node):
            if isinstance(stmt, ast.Expr) and isinstance(stmt.value, ast.Call) and isinstance(stmt.value.func, ast.Attribute) and stmt.value.func.attr in ("append", "insert", "extend"):
                if any(norm(sub) == replacement for arg in stmt.value.args for sub in ast.walk(arg)):
                    placements.append(stmt)
        if not placements:
            rule.ok(key, "re-pointed; the copy is put into the stream elsewhere")
            continue
        cfg = CFG(func.node, raising=lambda n: False)
        holders = [stmt for stmt in walk_local(func.node) if isinstance(stmt, ast.stmt) and not hasattr(stmt, "body") and any(sub is site.node for sub in ast.walk(stmt)) and id(stmt) in cfg.stmt_node]
        holder = holders[0] if holders else None
        if holder is None:
            raise AnalysisError(f"{func.short}: statement of the re-pointing call not found in the flow graph")
        target = {cfg.stmt_node[id(holder)]}
        bad = None
        for placement in placements:
            node_id = cfg.stmt_node.get(id(placement))
            if node_id is None:
                continue
            before = all_paths_pass(cfg, cfg.entry, target, ends={node_id})
            after = all_paths_pass(cfg, node_id, target, ends={cfg.exit})
            if before is not None and after is not None:
                bad = (placement, before + after[1:])
                break
        if bad:
            rule.fail(key, where(func, bad[0]), f"'{norm(bad[0])[:70]}' puts the replacement start token '{replacement}' into the stream on a path that does not re-point the stack entry at it: the end token generated later refers to the discarded original, not to the start token in the stream", describe_path(cfg, bad[1]))
        else:
            rule.ok(key, f"every path that puts '{replacement}' into the stream re-points the stack entry")


def run(ctx: Context) -> None:
    r04a(ctx)
    r04b(ctx)
    r04c(ctx)
    r04d(ctx)
    r04e(ctx)
    r04f(ctx)
    r04h(ctx)
    from sa.rules import c02

    c02.single_valued_branches(ctx, "R04g", only=PARSER_PACKAGES, floor=400)
