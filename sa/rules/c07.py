"""C07 — scan never fails internally; every report is in range, unique and ordered."""

from __future__ import annotations

import ast
from typing import Dict, List, Optional, Set, Tuple

from sa.cfg import CFG
from sa.model import AnalysisError, FuncInfo, Program, dotted, norm, walk_local
from sa.report import Context
from sa.rules import common
from sa.rules.common import FSH, PM
from sa.util import forward_taint, func_key, guards_of, returns_of, site_for, where

EXPLANATION = (
    "Decides, from /repo's current source: R07a every call into plugin code (8 callback sites, the plugin import and "
    "the plugin constructor) sits in try/except Exception whose every path raises BadPluginError; R07b only "
    "PluginManager invokes life-cycle callbacks; R07c PluginScanFailure.__lt__ is the lexicographic order over "
    "(line, column, rule id) and the reporter iterates sorted(<reported list>) and then clears it (printed once); "
    "R07d a failure line is printed only along report_on_triggered_rules -> log_scan_failure -> print_scan_failure; "
    "R07e no set-typed value is iterated, joined, listed or popped unsorted (commutative min/max/or accumulation "
    "excepted), directory listings reach output only through sorted(), and no clock/random/id()/hash() call is "
    "reachable from a per-file scan; R07g the name of a temporary file never flows into a presentation sink, an "
    "error message or the scan context (the display name travels separately); R07h (=R13b) every rule's per-file state is reset on every path of starting_new_file, so a scan prints the same thing whatever was scanned before it in the process. "
    "R07m (a contradiction rule, one clause of 'no internal failure') a length test that guards a constant index in the same conjunction admits no length for which that index is out of range; "
    "R07i no run-time text is ever used as a str.format / % template (a brace in document text would raise inside the reporter or rewrite the line); R07j may-be-None dataflow (as R01d) over every rule and the plugin manager: no unguarded dereference of a parameter / local that may be None. R07k in the reporting API the line and the column handed on are read from the same token and field pair on every path; R07l a rule reports at the token it was just handed, without computing a position of its own, only where the path has established the kind of token (or excluded the end of the stream, whose position is one line past the end, column 0). Not decided: that reported columns are in range in general, that reports are unique per (line, column, rule), and that a "
    "rule's own code raises no exception — those depend on run-time values."
)
ASSUMPTIONS = [
    "dict iteration order is insertion order (CPython >= 3.7)",
    "sorted() is stable and total on PluginScanFailure given __lt__ (dataclass eq by value)",
]

PSF = "pymarkdown.plugin_manager.plugin_scan_failure.PluginScanFailure"
PSC = "pymarkdown.plugin_manager.plugin_scan_context.PluginScanContext"
EXPECTED_ORDER = ["line_number", "column_number", "rule_id"]


def _self_other_field(node: ast.AST, self_name: str, other_name: str) -> Optional[Tuple[str, str]]:
    if isinstance(node, ast.Attribute) and isinstance(node.value, ast.Name):
        if node.value.id == self_name:
            return ("self", node.attr)
        if node.value.id == other_name:
            return ("other", node.attr)
    return None


def comparator_order(func: FuncInfo) -> Tuple[Optional[List[str]], str]:
    """Field order a ``__lt__`` implements when it is a lexicographic chain, else (None, why)."""
    params = func.params
    if len(params) != 2:
        return None, "unexpected signature"
    self_name, other_name = params
    body = [s for s in func.node.body if not (isinstance(s, ast.Expr) and isinstance(s.value, ast.Constant))]
    order: List[str] = []

    def less(compare: ast.AST) -> Optional[str]:
        if not (isinstance(compare, ast.Compare) and len(compare.ops) == 1):
            return None
        left = _self_other_field(compare.left, self_name, other_name)
        right = _self_other_field(compare.comparators[0], self_name, other_name)
        if not left or not right or left[1] != right[1]:
            return None
        if isinstance(compare.ops[0], ast.Lt) and left[0] == "self" and right[0] == "other":
            return left[1]
        if isinstance(compare.ops[0], ast.Gt) and left[0] == "other" and right[0] == "self":
            return left[1]
        return None

    for index, stmt in enumerate(body):
        last = index == len(body) - 1
        if isinstance(stmt, ast.If) and not stmt.orelse and len(stmt.body) == 1 and isinstance(stmt.body[0], ast.Return) and not last:
            test = stmt.test
            if not (isinstance(test, ast.Compare) and len(test.ops) == 1 and isinstance(test.ops[0], ast.NotEq)):
                return None, f"guard is not an inequality test: {norm(test)}"
            left = _self_other_field(test.left, self_name, other_name)
            right = _self_other_field(test.comparators[0], self_name, other_name)
            if not left or not right or left[1] != right[1] or {left[0], right[0]} != {"self", "other"}:
                return None, f"guard does not compare one field of self and other: {norm(test)}"
            field = less(stmt.body[0].value) if stmt.body[0].value is not None else None
            if field != left[1]:
                return None, f"guarded return does not order by the guarded field: {norm(stmt.body[0])}"
            order.append(field)
        elif isinstance(stmt, ast.Return) and last and stmt.value is not None:
            value = stmt.value
            if isinstance(value, ast.Compare) and len(value.ops) == 1 and isinstance(value.left, ast.Tuple) and isinstance(value.comparators[0], ast.Tuple):
                lefts = [_self_other_field(e, self_name, other_name) for e in value.left.elts]
                rights = [_self_other_field(e, self_name, other_name) for e in value.comparators[0].elts]
                if (
                    isinstance(value.ops[0], ast.Lt) and all(lefts) and all(rights) and len(lefts) == len(rights)
                    and all(l[0] == "self" and r[0] == "other" and l[1] == r[1] for l, r in zip(lefts, rights))  # type: ignore[index]
                ):
                    order.extend(l[1] for l in lefts)  # type: ignore[index]
                    return order, ""
                return None, f"tuple comparison is not self < other field-wise: {norm(value)}"
            # self.<key> < other.<key> where <key> is a property / method of the class returning a tuple of its own fields
            if isinstance(value, ast.Compare) and len(value.ops) == 1 and isinstance(value.ops[0], ast.Lt):
                sides = []
                for side in (value.left, value.comparators[0]):
                    accessor = side.func if isinstance(side, ast.Call) and not side.args else side
                    if isinstance(accessor, ast.Attribute) and isinstance(accessor.value, ast.Name):
                        sides.append((accessor.value.id, accessor.attr))
                if len(sides) == 2 and sides[0][0] == self_name and sides[1][0] == other_name and sides[0][1] == sides[1][1] and func.cls is not None:
                    key_method = func.cls.find_method(sides[0][1])
                    if key_method is not None and key_method.params:
                        own = key_method.params[0]
                        returned = [n.value for n in walk_local(key_method.node) if isinstance(n, ast.Return) and n.value is not None]
                        if len(returned) == 1 and isinstance(returned[0], ast.Tuple) and all(isinstance(e, ast.Attribute) and isinstance(e.value, ast.Name) and e.value.id == own for e in returned[0].elts):
                            order.extend(e.attr for e in returned[0].elts)  # type: ignore[attr-defined]
                            return order, ""
            field = less(value)
            if field is None:
                return None, f"final return is not 'self.f < other.f': {norm(value)}"
            order.append(field)
            return order, ""
        else:
            return None, f"statement is not part of a lexicographic chain: {norm(stmt)}"
    return None, "no final return"


def r07c(ctx: Context) -> None:
    prog = ctx.prog
    rule = ctx.rule("R07c", "failures are ordered by (line, column, rule id), iterated sorted, then cleared", 4)
    lt = prog.method(PSF, "__lt__")
    order, why = comparator_order(lt)
    key = func_key(lt)
    if order is None:
        rule.fail(key, where(lt), f"PluginScanFailure.__lt__ is not a recognisable lexicographic chain: {why}")
    elif order != EXPECTED_ORDER:
        rule.fail(key, where(lt), f"failures are ordered by {order}, the documented order is {EXPECTED_ORDER}")
    else:
        rule.ok(key, f"lexicographic over {order}")
    cls = prog.cls(PSF)
    for name in ("__gt__", "__le__", "__ge__", "__eq__"):
        if name in cls.methods:
            rule.fail(f"{cls.name}.{name}", where(cls.methods[name]), f"{name} overrides the ordering/equality that sorted() and the dataclass provide")
    reporter = prog.method(PSC, "report_on_triggered_rules")
    logger = prog.method(PM, "log_scan_failure")
    loops = [n for n in walk_local(reporter.node) if isinstance(n, ast.For)]
    checked = False
    for loop in loops:
        calls = [c for stmt in loop.body for c in ast.walk(stmt) if isinstance(c, ast.Call)]
        if not any((site_for(prog, reporter, c) or None) and logger in site_for(prog, reporter, c).targets for c in calls):  # type: ignore[union-attr]
            continue
        checked = True
        iter_expr = loop.iter
        if isinstance(iter_expr, ast.Name):
            defs = [n.value for n in walk_local(reporter.node) if isinstance(n, ast.Assign) and any(isinstance(t, ast.Name) and t.id == iter_expr.id for t in n.targets)]
            iter_expr = defs[-1] if len(defs) == 1 else iter_expr
        lkey = func_key(reporter, loop.iter)
        if not (isinstance(iter_expr, ast.Call) and dotted(iter_expr.func) == "sorted" and len(iter_expr.args) == 1):
            rule.fail(lkey, where(reporter, loop), f"failures are reported by iterating '{norm(iter_expr)}', not sorted(<reported list>): output order follows rule dispatch order")
            continue
        bad_kw = [k.arg for k in iter_expr.keywords if k.arg in ("reverse", "key")]
        if bad_kw:
            rule.fail(lkey, where(reporter, loop), f"sorted() is called with {bad_kw}: the order is no longer (line, column, rule id) ascending")
            continue
        source = iter_expr.args[0]
        source_type = prog.infer(reporter, source)
        elem = source_type[1] if source_type and source_type[0] == "list" else None
        if not (elem and elem[0] == "cls" and elem[1].qualname == PSF):
            rule.fail(lkey, where(reporter, loop), f"sorted() is applied to '{norm(source)}', which is not the list of reported failures")
            continue
        rule.ok(lkey, f"sorted({norm(source)})")
        # cleared afterwards: printed once even when the reporter runs again on the exception path
        cleared = False
        for node in walk_local(reporter.node):
            if isinstance(node, ast.Call) and isinstance(node.func, ast.Attribute) and node.func.attr == "clear" and norm(node.func.value) == norm(source) and node.lineno > loop.lineno:
                cleared = True
            if isinstance(node, ast.Assign) and any(norm(t) == norm(source) for t in node.targets) and node.lineno > loop.lineno:
                cleared = True
        ckey = func_key(reporter) + ": clears the reported list"
        if cleared:
            rule.ok(ckey, "cleared after reporting")
        else:
            rule.fail(ckey, where(reporter), "the reported list is not emptied after it is printed: the exception path of the scan reports the same failures a second time")
    if not checked:
        rule.fail(func_key(reporter), where(reporter), "report_on_triggered_rules no longer hands failures to log_scan_failure in a loop")
    # every scan path (normal and exceptional) reports: see C14 R14a; here: reporter is called from the scan function
    scan_fn = prog.method(FSH, "__scan_file")
    calls = [s for s in prog.sites_in(scan_fn) if reporter in s.targets]
    if not calls:
        rule.fail(func_key(scan_fn), where(scan_fn), "the per-file scan never reports the triggered rules")
    else:
        rule.ok(func_key(scan_fn) + ": reports", f"{len(calls)} call(s)")


def r07d(ctx: Context) -> None:
    prog = ctx.prog
    rule = ctx.rule("R07d", "failure lines are printed along one path only", 3)
    reporter = prog.method(PSC, "report_on_triggered_rules")
    logger = prog.method(PM, "log_scan_failure")
    printers = [f for f in prog.iter_functions() if f.name == "print_scan_failure" and f.cls is not None]
    if not printers:
        raise AnalysisError("print_scan_failure not found")
    for printer in printers:
        for site in prog.callers.get(printer.qualname, []):
            key = func_key(site.caller, site.node)
            if site.caller == logger:
                rule.ok(key, "from log_scan_failure")
            else:
                rule.fail(key, site.where, f"{site.caller.short} prints a scan failure directly: it bypasses the pragma filter and the failure count")
    for site in prog.callers.get(logger.qualname, []):
        key = func_key(site.caller, site.node)
        if site.caller == reporter:
            rule.ok(key, "from report_on_triggered_rules")
        else:
            rule.fail(key, site.where, f"{site.caller.short} logs a scan failure outside the sorted report: order and uniqueness are no longer guaranteed")
    # the failure counter moves with the print
    counted = any(
        isinstance(n, ast.AugAssign) and isinstance(n.target, ast.Attribute) and n.target.attr == "number_of_scan_failures"
        for n in walk_local(logger.node)
    )
    if counted:
        rule.ok(func_key(logger) + ": counts", "number_of_scan_failures incremented with the print")
    else:
        rule.fail(func_key(logger) + ": counts", where(logger), "log_scan_failure no longer counts the failure it prints: the exit code cannot reflect it")
    # PluginScanFailure objects are created only by the context (add_triggered_rule), the manager and the API copy
    ctor = prog.cls(PSF)
    for func in prog.iter_functions():
        for site in prog.sites_in(func):
            if site.external == f"ctor.{ctor.name}" or any(t.cls == ctor and t.name == "__init__" for t in site.targets):
                allowed = func.qualname in (
                    prog.method(PSC, "add_triggered_rule").qualname,
                    logger.qualname,
                ) or func.rel == "pymarkdown/api.py"
                key = func_key(func, site.node)
                if allowed:
                    rule.ok(key, "constructed by an owner")
                else:
                    rule.fail(key, site.where, f"{func.short} constructs a PluginScanFailure outside the context / manager / API copy")


ORDER_FREE_CALLS = {"sorted", "min", "max", "len", "set", "frozenset", "any", "all", "sum", "bool"}
NONDET_PREFIXES = ("random.", "time.", "uuid.", "datetime.", "secrets.")
NONDET_EXACT = {"builtins.id", "builtins.hash", "os.getpid", "os.urandom", "os.getppid"}
LISTING_SOURCES = {"os.listdir", "glob.glob", "glob.iglob", "os.walk", "os.scandir"}


def _commutative_body(loop: ast.For) -> bool:
    """Loop body only accumulates with min/max/or/|=/add/asserts (order cannot be observed)."""
    for stmt in loop.body:
        for node in ast.walk(stmt):
            if isinstance(node, (ast.Return, ast.Break, ast.Yield)):
                return False
            if isinstance(node, ast.Call):
                name = dotted(node.func) or ""
                leaf = name.split(".")[-1]
                if leaf in ("append", "extend", "insert", "write", "print") or leaf.startswith(("print_", "log_", "report_")):
                    return False
    return True


ORDER_FREE = {"min", "max", "sum", "len", "any", "all", "sorted", "set", "frozenset", "bool"}


def _order_free_comprehension(func: FuncInfo, generator: ast.comprehension) -> bool:
    """Is the comprehension that iterates this generator consumed in a way that cannot see its order?"""
    owner = None
    parents: Dict[int, ast.AST] = {}
    for node in ast.walk(func.node):
        for child in ast.iter_child_nodes(node):
            parents[id(child)] = node
        if isinstance(node, (ast.ListComp, ast.SetComp, ast.DictComp, ast.GeneratorExp)) and generator in node.generators:
            owner = node
    if owner is None:
        return False
    if isinstance(owner, (ast.SetComp, ast.DictComp)):
        return True

    def consumer_ok(expr: ast.AST) -> bool:
        parent = parents.get(id(expr))
        if isinstance(parent, ast.Call) and expr in parent.args and (dotted(parent.func) or "") in ORDER_FREE:
            return True
        if isinstance(parent, (ast.If, ast.While, ast.IfExp, ast.Assert)) and parent.test is expr:
            return True
        if isinstance(parent, ast.UnaryOp) and isinstance(parent.op, ast.Not):
            return consumer_ok(parent)
        if isinstance(parent, ast.BoolOp):
            return consumer_ok(parent)
        if isinstance(parent, ast.Compare) and any(isinstance(op, (ast.In, ast.NotIn)) for op in parent.ops) and expr in parent.comparators:
            return True
        return False

    if consumer_ok(owner):
        return True
    parent = parents.get(id(owner))
    if isinstance(parent, ast.Assign) and len(parent.targets) == 1 and isinstance(parent.targets[0], ast.Name):
        name = parent.targets[0].id
        uses = [n for n in walk_local(func.node) if isinstance(n, ast.Name) and n.id == name and isinstance(n.ctx, ast.Load)]
        stores = [n for n in walk_local(func.node) if isinstance(n, ast.Name) and n.id == name and isinstance(n.ctx, ast.Store)]
        return bool(uses) and len(stores) == 1 and all(consumer_ok(use) for use in uses)
    return False


def r07e(ctx: Context) -> None:
    prog = ctx.prog
    rule = ctx.rule("R07e", "no unordered collection, directory listing or clock/random value reaches the output order", 4)
    set_uses = 0
    for func in prog.iter_functions():
        for node in walk_local(func.node):
            uses: List[Tuple[ast.AST, str]] = []
            if isinstance(node, ast.For):
                uses.append((node.iter, "for"))
            elif isinstance(node, ast.comprehension):
                uses.append((node.iter, "comprehension"))
            elif isinstance(node, ast.Call):
                name = dotted(node.func) or ""
                if name in ("list", "tuple", "enumerate", "next", "iter", "zip", "reversed") and node.args:
                    uses.append((node.args[0], name))
                if isinstance(node.func, ast.Attribute) and node.func.attr == "join" and node.args:
                    uses.append((node.args[0], "join"))
                if isinstance(node.func, ast.Attribute) and node.func.attr == "pop" and not node.args:
                    uses.append((node.func.value, "pop"))
                if isinstance(node.func, ast.Attribute) and node.func.attr in ("extend",) and node.args:
                    uses.append((node.args[0], "extend"))
            for expr, how in uses:
                typ = prog.infer(func, expr)
                if not (typ and typ[0] == "set"):
                    continue
                set_uses += 1
                key = func_key(func, expr) + f" [{how}]"
                if how == "for" and isinstance(node, ast.For) and _commutative_body(node):
                    rule.ok(key, "commutative accumulation over a set")
                elif how == "comprehension" and _order_free_comprehension(func, node):
                    rule.ok(key, "the comprehension's result is consumed only by order-free operations (set/dict, min/max/sum/len/any/all/sorted, truth tests)")
                elif how == "comprehension":
                    rule.fail(key, where(func, expr), f"a set ('{norm(expr)}') is iterated in a comprehension: the resulting order differs between runs (hash randomisation)")
                else:
                    rule.fail(key, where(func, expr), f"a set ('{norm(expr)}') is consumed in order by '{how}': output order differs between runs (hash randomisation)")
    # sorted(set) instances are the positive witnesses that the recogniser is alive
    for func in prog.iter_functions():
        for node in walk_local(func.node):
            if isinstance(node, ast.Call) and dotted(node.func) == "sorted" and node.args:
                typ = prog.infer(func, node.args[0])
                if typ and typ[0] == "set":
                    rule.ok(func_key(func, node), "set consumed through sorted()")
    # directory listings
    for func in prog.iter_functions():
        for site in prog.sites_in(func):
            if site.external not in LISTING_SOURCES:
                continue
            key = func_key(func, site.node)
            verdict = _listing_is_ordered(prog, func, site.node)
            if verdict is None:
                rule.ok(key, "listing feeds a set or sorted() before any ordered use")
            else:
                rule.fail(key, site.where, verdict)
    # clocks / random / identity
    scan_roots = [prog.method(FSH, "__scan_specific_file"), prog.method(FSH, "__fix_specific_file")]
    reach = prog.reachable(scan_roots)
    nondet = 0
    for qual in reach:
        func = prog.functions[qual]
        for site in prog.sites_in(func):
            ext = site.external or ""
            if ext.startswith(NONDET_PREFIXES) or ext in NONDET_EXACT:
                nondet += 1
                rule.fail(func_key(func, site.node), site.where, f"{ext} is reachable from a per-file scan: two scans of the same input can print different things", prog.witness(reach, qual))
    rule.ok("per-file scan: clock/random/identity sources", f"none among {len(reach)} reachable functions")


def _listing_is_ordered(prog: Program, func: FuncInfo, call: ast.Call) -> Optional[str]:
    """None when the listing result only reaches order-free consumers; else a message."""
    from sa.util import parent_map

    parents = parent_map(func.node)
    parent = parents.get(id(call))
    # for root, _, files in os.walk(...): files iterated -> must only be added to a set
    if isinstance(parent, (ast.For, ast.comprehension)) and parent.iter is call:
        if isinstance(parent, ast.For):
            adds_only = True
            for stmt in parent.body:
                for node in ast.walk(stmt):
                    if isinstance(node, ast.Call):
                        leaf = (dotted(node.func) or "").split(".")[-1]
                        if leaf in ("append", "extend", "insert", "write", "print"):
                            adds_only = False
            return None if adds_only else "a directory listing is walked and appended to an ordered collection without sorting"
        # comprehension: list comprehension over listdir -> result order = listing order
        comp_owner = parents.get(id(parent))
        if isinstance(comp_owner, ast.ListComp):
            # accepted only when every caller sorts or the value flows into sorted()/set
            owner_stmt = parents.get(id(comp_owner))
            if isinstance(owner_stmt, ast.Call) and (dotted(owner_stmt.func) or "") in ("sorted", "set"):
                return None
            return _result_sorted_downstream(prog, func)
        return None
    if isinstance(parent, ast.Call) and (dotted(parent.func) or "") in ("sorted", "set", "len", "any", "all"):
        return None
    if isinstance(parent, ast.Assign) and len(parent.targets) == 1 and isinstance(parent.targets[0], ast.Name):
        name = parent.targets[0].id
        for node in walk_local(func.node):
            if isinstance(node, ast.For) and isinstance(node.iter, ast.Name) and node.iter.id == name:
                for stmt in node.body:
                    for sub in ast.walk(stmt):
                        if isinstance(sub, ast.Call) and (dotted(sub.func) or "").split(".")[-1] in ("append", "extend", "insert", "write", "print"):
                            return f"the listing '{name}' is walked and appended to an ordered collection without sorting"
            if isinstance(node, ast.Return) and isinstance(node.value, ast.Name) and node.value.id == name:
                return _result_sorted_downstream(prog, func)
        return None
    return None


def _result_sorted_downstream(prog: Program, func: FuncInfo) -> Optional[str]:
    """A function returning a raw listing is accepted when the collection it finally feeds is sorted
    before use: the enabled-plugin list is re-sorted by id after registration."""
    owner = func.cls
    if owner is not None and owner.qualname == PM:
        register = prog.method(PM, "__register_plugins")
        sorts = [n for n in walk_local(register.node) if isinstance(n, ast.Call) and dotted(n.func) == "sorted"]
        lists = prog.method(PM, "__handle_argparse_subparser_list")
        sorts_ids = [n for n in walk_local(lists.node) if isinstance(n, ast.Call) and isinstance(n.func, ast.Attribute) and n.func.attr == "sort"]
        if sorts and sorts_ids:
            return None
        return "plugin files are loaded in directory-listing order and the enabled/registered lists are no longer sorted afterwards"
    return f"{func.short} returns a raw directory listing"


PRESENTATION_SINK_METHODS = {
    "print_system_output", "print_system_error", "print_scan_failure", "print_pragma_failure", "print_fix_message",
    "format_scan_error",
}


def r07g(ctx: Context) -> None:
    prog = ctx.prog
    rule = ctx.rule("R07g", "temporary file names never reach output, error messages or the scan context", 2)
    seeds: List[Tuple[FuncInfo, str]] = []
    for func in prog.iter_functions("pymarkdown.file_scan_helper."):
        temp_objs: Set[str] = set()
        for node in walk_local(func.node):
            if isinstance(node, (ast.With, ast.AsyncWith)):
                for item in node.items:
                    if isinstance(item.context_expr, ast.Call) and (dotted(item.context_expr.func) or "").startswith("tempfile.") and isinstance(item.optional_vars, ast.Name):
                        temp_objs.add(item.optional_vars.id)
        for node in walk_local(func.node):
            if isinstance(node, ast.Assign) and isinstance(node.value, ast.Attribute) and node.value.attr == "name" and isinstance(node.value.value, ast.Name) and node.value.value.id in temp_objs:
                for target in node.targets:
                    if isinstance(target, ast.Name):
                        seeds.append((func, target.id))
    if len(seeds) < 3:
        raise AnalysisError(f"only {len(seeds)} temporary-file name bindings found (>= 3 confirmed)")
    tainted = forward_taint(prog, seeds)
    # names handed back through returns: tuple positions are followed by R15f; here the callers' bound names
    changed = True
    while changed:
        changed = False
        for qual, names in list(tainted.items()):
            func = prog.functions[qual]
            for ret in returns_of(func):
                elts = ret.elts if isinstance(ret, ast.Tuple) else [ret]
                for index, elt in enumerate(elts):
                    if isinstance(elt, ast.Name) and elt.id in names:
                        for site in prog.callers.get(qual, []):
                            for node in walk_local(site.caller.node):
                                if isinstance(node, ast.Assign) and node.value is site.node:
                                    target = node.targets[0]
                                    bound = None
                                    if isinstance(target, ast.Tuple) and isinstance(ret, ast.Tuple) and index < len(target.elts) and isinstance(target.elts[index], ast.Name):
                                        bound = target.elts[index].id  # type: ignore[attr-defined]
                                    elif isinstance(target, ast.Name) and not isinstance(ret, ast.Tuple):
                                        bound = target.id
                                    if bound and bound not in tainted.setdefault(site.caller.qualname, set()):
                                        more = forward_taint(prog, [(site.caller, bound)])
                                        for q2, n2 in more.items():
                                            before = len(tainted.setdefault(q2, set()))
                                            tainted[q2] |= n2
                                            changed = changed or len(tainted[q2]) != before
    sinks_checked = 0
    reporter = prog.method(FSH, "__handle_scan_error")
    starting = prog.method(PM, "starting_new_file")
    for qual, names in sorted(tainted.items()):
        func = prog.functions[qual]
        for site in prog.sites_in(func):
            node = site.node
            leaf = node.func.attr if isinstance(node.func, ast.Attribute) else (node.func.id if isinstance(node.func, ast.Name) else "")
            is_sink = leaf in PRESENTATION_SINK_METHODS or reporter in site.targets or starting in site.targets
            is_print = site.external == "builtins.print"
            if not (is_sink or is_print):
                continue
            args = list(node.args) + [k.value for k in node.keywords]
            hit = [n for arg in args for n in ast.walk(arg) if isinstance(n, ast.Name) and n.id in names]
            # the display-name parameter of starting_new_file / the reporter is the first one
            sinks_checked += 1
            key = func_key(func, node)
            if not hit:
                rule.ok(key, "no temporary name among the arguments")
                continue
            if is_print:
                facts = [norm(t) for t, pol in __import__("sa.util", fromlist=["guards_of"]).guards_of(func.node, node) if pol]
                if any("fix_debug" in fact or "show_fix_debug" in fact for fact in facts):
                    rule.ok(key, "debug print behind the hidden -x-fix-debug switches")
                    continue
            rule.fail(key, site.where, f"the temporary file name '{hit[0].id}' flows into {leaf or 'print'}: the user sees a path that differs on every run instead of the name of the input")
    for raise_func_qual, names in sorted(tainted.items()):
        func = prog.functions[raise_func_qual]
        for node in walk_local(func.node):
            if isinstance(node, ast.Raise) and node.exc is not None:
                hit = [n for n in ast.walk(node.exc) if isinstance(n, ast.Name) and n.id in names]
                sinks_checked += 1
                if hit:
                    rule.fail(func_key(func, node), where(func, node), f"the temporary file name '{hit[0].id}' is put into an exception message")
    rule.note(f"{sum(len(v) for v in tainted.values())} tainted names in {len(tainted)} functions; {sinks_checked} sinks inspected")


def r07i(ctx: Context) -> None:
    """A failure line carries document text (rule descriptions quote what they matched).  Text
    that reaches ``str.format`` / ``%`` as the *template* is parsed for ``{}`` / ``%`` fields: a
    brace in the document then raises (KeyError / ValueError) outside every callback wrapper, or
    silently rewrites the line.  Templates must be compile-time constants."""
    prog = ctx.prog
    rule = ctx.rule("R07i", "no run-time text is used as a str.format / % template anywhere in the package", 4)

    def constant_text(func: FuncInfo, expr: ast.AST, depth: int = 0) -> bool:
        if isinstance(expr, ast.Constant) and isinstance(expr.value, str):
            return True
        if isinstance(expr, ast.BinOp) and isinstance(expr.op, ast.Add):
            return constant_text(func, expr.left, depth) and constant_text(func, expr.right, depth)
        if isinstance(expr, ast.JoinedStr):
            return all(isinstance(v, ast.Constant) for v in expr.values)
        if isinstance(expr, ast.Name) and depth < 4:
            values = [n.value for n in walk_local(func.node) if isinstance(n, ast.Assign) and any(isinstance(t, ast.Name) and t.id == expr.id for t in n.targets)]
            if values and expr.id not in func.params:
                return all(constant_text(func, v, depth + 1) for v in values)
            value = func.module.globals.get(expr.id)
            return value is not None and not values and expr.id not in func.params and constant_text(func, value, depth + 1)
        if isinstance(expr, ast.Attribute) and depth < 4:
            owner = prog.infer(func, expr.value)
            klass = owner[1] if owner and owner[0] in ("cls", "type") else None
            value = klass.class_attrs.get(expr.attr) if klass is not None else None
            return value is not None and constant_text(func, value, depth + 1)
        return False

    for func in prog.functions.values():
        for node in walk_local(func.node):
            template = None
            if isinstance(node, ast.Call) and isinstance(node.func, ast.Attribute) and node.func.attr in ("format", "format_map"):
                owner = prog.infer(func, node.func.value)
                if owner is None or owner[0] == "str" or isinstance(node.func.value, (ast.Constant, ast.JoinedStr, ast.BinOp)):
                    template = node.func.value
            elif isinstance(node, ast.BinOp) and isinstance(node.op, ast.Mod):
                owner = prog.infer(func, node.left)
                if (owner and owner[0] == "str") or isinstance(node.left, (ast.Constant, ast.JoinedStr)) and isinstance(getattr(node.left, "value", ""), str):
                    template = node.left
            if template is None:
                continue
            key = func_key(func, node) + " [template]"
            if constant_text(func, template):
                rule.ok(key, "constant template")
            else:
                rule.fail(key, where(func, node), f"'{norm(template)[:90]}' is used as a format template although it is built at run time: a brace or percent sign in document text raises inside the reporter or rewrites the line")
    # the printers themselves: the line is assembled with f-strings / concatenation
    for class_qual in ("pymarkdown.general.main_presentation.MainPresentation", "pymarkdown.api._ApiPresentation"):
        klass = prog.classes.get(class_qual)
        if klass is None:
            raise AnalysisError(f"anchor class not found: {class_qual}")
        for name, method in sorted(klass.methods.items()):
            if name.startswith("print_"):
                rule.ok(f"{method.short}: assembled without a template", "f-strings / concatenation only (any template use is listed above)")


def r07k(ctx: Context) -> None:
    """A reported position is a (line, column) pair of one token.  In the reporting API of the plugin
    base class the line and the column handed to the context must, on every path, be read from the same
    object and the same pair of fields (token.line_number/column_number, or the original_* pair of a
    setext heading).  A line from one and a column from the other is a column that can lie outside the line."""
    from sa.util import enumerate_paths

    prog = ctx.prog
    rule = ctx.rule("R07k", "the line and the column of a reported failure are read from the same token on every path", 2)
    base = prog.cls(common.RULE_PLUGIN)
    collector = prog.method("pymarkdown.plugin_manager.plugin_scan_context.PluginScanContext", "add_triggered_rule")
    line_index = collector.params.index("line_number") - 1 if "line_number" in collector.params else 1
    column_index = collector.params.index("column_number") - 1 if "column_number" in collector.params else 2

    def source_of(expr: ast.AST) -> Optional[Tuple[str, str]]:
        """(object, field prefix) of an attribute read ``<object>.<prefix>line_number`` / ``..column_number``"""
        if isinstance(expr, ast.Attribute) and expr.attr.endswith(("line_number", "column_number")):
            prefix = expr.attr[: -len("line_number")] if expr.attr.endswith("line_number") else expr.attr[: -len("column_number")]
            return norm(expr.value), prefix
        return None

    checked = 0
    for func in base.methods.values():
        sites = [site for site in prog.sites_in(func) if collector in site.targets]
        if not sites:
            continue
        cfg = CFG(func.node)
        for site in sites:
            call = site.node
            if len(call.args) <= max(line_index, column_index):
                continue
            position = {"line": call.args[line_index], "column": call.args[column_index]}
            names = {kind: [n.id for n in ast.walk(expr) if isinstance(n, ast.Name) and isinstance(n.ctx, ast.Load)] for kind, expr in position.items()}
            direct = {kind: [source_of(n) for n in ast.walk(expr) if source_of(n)] for kind, expr in position.items()}
            key = func_key(func, call) + " [position]"
            problems = []
            paths = 0
            holders = [s for s in walk_local(func.node) if isinstance(s, ast.stmt) and s is not func.node and any(sub is call for sub in ast.walk(s))]
            innermost = min(holders, key=lambda s: (getattr(s, 'end_lineno', s.lineno) - s.lineno))
            target_node = cfg.stmt_node.get(id(innermost))
            for path in enumerate_paths(cfg, stop=lambda nid: nid == target_node):
                if not path or path[-1][0] != target_node:
                    continue
                paths += 1
                last: Dict[str, Optional[Tuple[str, str]]] = {}
                for nid, _label in path:
                    stmt = cfg.nodes[nid].ast_node
                    if isinstance(stmt, ast.Assign):
                        for target in stmt.targets:
                            for tgt, value, _ in Program._unpack(target, stmt.value):
                                if isinstance(tgt, ast.Name) and value is not None:
                                    found = [source_of(n) for n in ast.walk(value) if source_of(n)]
                                    if found:
                                        last[tgt.id] = found[0]
                sources = {}
                for kind in ("line", "column"):
                    candidates = list(direct[kind]) + [last[n] for n in names[kind] if n in last]
                    sources[kind] = candidates[0] if candidates else None
                if sources["line"] and sources["column"] and sources["line"] != sources["column"]:
                    problems.append(f"line from {sources['line'][0]}.{sources['line'][1]}line_number, column from {sources['column'][0]}.{sources['column'][1]}column_number")
            checked += 1
            if problems:
                rule.fail(key, where(func, call), f"{func.short} reports a position whose parts come from different places ({problems[0]}): the column can lie outside the reported line")
            elif paths:
                rule.ok(key, f"{paths} path(s): line and column from the same token and field pair")
    if checked < 2:
        raise AnalysisError(f"only {checked} reporting call(s) found in the plugin base class (2 confirmed)")


POSITIONLESS_FACTS = ("is_end_token", "is_end_of_stream", "is_pragma")


def r07l(ctx: Context) -> None:
    """'Every reported failure names a line that exists in the file and a column within that line.'  A report made
    at a token takes the token's own line and column.  The end-of-stream token - handed to every rule as the last
    token of every document - has no line of its own (it sits one line past the end, column 0).  A report at the
    token just received, without a position override, is therefore in range only where the path has established
    what kind of token it is (a positive ``is_<kind>`` fact, possibly through a local that is only set under one)
    or has excluded the end of the stream."""
    prog = ctx.prog
    rule = ctx.rule("R07l", "a rule reports at the token it was handed only where that token is known to have a line of its own", 25)
    base = prog.cls(common.RULE_PLUGIN)
    generic = {"MarkdownToken"}

    def positioned_kind(fact: str) -> bool:
        return fact not in POSITIONLESS_FACTS and not fact.endswith("_end")

    def kind_of(part: ast.AST, name: str) -> Optional[str]:
        """'<name>.is_<kind>' -> 'is_<kind>'"""
        if isinstance(part, ast.Attribute) and isinstance(part.value, ast.Name) and part.value.id == name and part.attr.startswith("is_"):
            return part.attr
        if isinstance(part, ast.Attribute) and isinstance(part.value, ast.Name) and part.value.id == name and part.attr in ("line_number", "column_number"):
            return "is_positioned"  # a truthy line / column is a position
        if isinstance(part, ast.Compare) and len(part.ops) == 1 and isinstance(part.ops[0], (ast.Gt, ast.GtE, ast.NotEq)) and kind_of(part.left, name) == "is_positioned" \
                and isinstance(part.comparators[0], ast.Constant) and part.comparators[0].value in (0, 1):
            return "is_positioned" if not (isinstance(part.ops[0], ast.GtE) and part.comparators[0].value == 0) else None
        if isinstance(part, ast.Call) and isinstance(part.func, ast.Name) and part.func.id == "isinstance" and len(part.args) == 2 and isinstance(part.args[0], ast.Name) and part.args[0].id == name:
            classes = [dotted(c) or "" for c in (part.args[1].elts if isinstance(part.args[1], ast.Tuple) else [part.args[1]])]
            if classes and all(c and c.split(".")[-1] not in ("MarkdownToken", "EndMarkdownToken", "EndOfStreamToken", "PragmaToken", "object") for c in classes):
                return "is_" + "_or_".join(c.split(".")[-1] for c in classes)
        return None

    def alternative_kind(part: ast.AST, name: str) -> Optional[str]:
        """the kind that one alternative of an 'or' establishes: the fact itself, or a conjunct of it"""
        if isinstance(part, ast.BoolOp) and isinstance(part.op, ast.And):
            return next((k for k in (kind_of(value, name) for value in part.values) if k is not None and positioned_kind(k)), None)
        return kind_of(part, name)

    def class_facts(func: FuncInfo, node: ast.AST, name: str) -> Tuple[List[str], List[str], List[ast.AST]]:
        """(kinds the token is known to be one of - only when every alternative is a kind -, kinds it is known
        not to be, the other facts that hold)"""
        positive: List[str] = []
        negative: List[str] = []
        other: List[ast.AST] = []
        work = list(guards_of(func.node, node, include_asserts=True))
        while work:
            part, pol = work.pop()
            if isinstance(part, ast.NamedExpr):
                if pol:
                    other.append(part.target)
                work.append((part.value, pol))
                continue
            if isinstance(part, ast.UnaryOp) and isinstance(part.op, ast.Not):
                work.append((part.operand, not pol))
                continue
            if isinstance(part, ast.BoolOp):
                conjunctive = (isinstance(part.op, ast.And) and pol) or (isinstance(part.op, ast.Or) and not pol)
                if conjunctive:
                    work.extend((value, pol) for value in part.values)
                    continue
                if pol:
                    # a or b: the token is one of these kinds only if every alternative names a kind with a line
                    kinds = [alternative_kind(value, name) for value in part.values]
                    if all(kind is not None and positioned_kind(kind) for kind in kinds):
                        positive.append(" or ".join(k for k in kinds if k))
                        continue
                continue
            kind = kind_of(part, name)
            if kind is not None:
                (positive if pol else negative).append(kind)
            elif pol:
                other.append(part)
        return positive, negative, other

    def has_kind(func: FuncInfo, node: ast.AST, name: str) -> Optional[str]:
        positive, _negative, _other = class_facts(func, node, name)
        for fact in positive:
            if " or " in fact or positioned_kind(fact):
                return fact
        return None

    def set_under_kind(func: FuncInfo, local: str, name: str, depth: int = 0) -> bool:
        """every binding that can make ``local`` truthy is made for a known kind of token ``name``"""
        found = False
        for node in walk_local(func.node):
            if isinstance(node, ast.NamedExpr) and isinstance(node.target, ast.Name) and node.target.id == local:
                kinds = [kind_of(value, name) for value in (node.value.values if isinstance(node.value, ast.BoolOp) and isinstance(node.value.op, ast.Or) else [node.value])]
                if not all(kind is not None and positioned_kind(kind) for kind in kinds):
                    return False
                found = True
                continue
            targets = node.targets if isinstance(node, ast.Assign) else [node.target] if isinstance(node, (ast.AnnAssign, ast.AugAssign)) else []
            index: Optional[int] = None
            hit = False
            for target in targets:
                if isinstance(target, ast.Name) and target.id == local:
                    hit = True
                elif isinstance(target, ast.Tuple):
                    for position, element in enumerate(target.elts):
                        if isinstance(element, ast.Name) and element.id == local:
                            hit, index = True, position
            if not hit:
                continue
            value = getattr(node, "value", None)
            if isinstance(value, ast.Tuple) and index is not None and index < len(value.elts):
                value, index = value.elts[index], None
            if isinstance(value, ast.Constant) and not value.value:
                continue
            if has_kind(func, node, name):
                found = True
                continue
            # the local *is* the answer to 'what kind of token is it'
            alternatives = value.values if isinstance(value, ast.BoolOp) and isinstance(value.op, ast.Or) else [value]
            kinds = [alternative_kind(a, name) for a in alternatives]
            if value is not None and all(k is not None and positioned_kind(k) for k in kinds):
                found = True
                continue
            _positive, _negative, other = class_facts(func, node, name)
            if any(isinstance(sub, ast.Name) and sub.id == local for test in other for sub in ast.walk(test)):
                continue  # refined where it already holds a value
            if isinstance(value, ast.Call) and depth < 2:
                site = site_for(prog, func, value)
                if site is not None and len(site.targets) == 1 and site.targets[0].cls == func.cls:
                    helper = site.targets[0]
                    bound = Program.bind_args(helper, value, skip_self=helper.kind in ("instance", "class"))
                    handed = [param for param, arg in bound.items() if isinstance(arg, ast.Name) and arg.id == name]
                    if handed:
                        good = True
                        for ret in returns_of(helper):
                            element = ret.elts[index] if isinstance(ret, ast.Tuple) and index is not None and index < len(ret.elts) else ret
                            if isinstance(element, ast.Constant) and not element.value:
                                continue
                            if isinstance(element, ast.Name) and set_under_kind(helper, element.id, handed[0], depth + 1):
                                continue
                            good = False
                        if good:
                            found = True
                            continue
            return False
        return found

    def field_under_kind(func: FuncInfo, local: str, field: str, name: str) -> bool:
        """``local`` holds the record a helper of the class built for the token ``name``; its ``field`` is truthy only
        in records built under a positive kind fact about the token"""
        bindings = [n.value for n in walk_local(func.node) if isinstance(n, (ast.Assign, ast.AnnAssign)) and getattr(n, "value", None) is not None
                    and any(isinstance(t, ast.Name) and t.id == local for t in (n.targets if isinstance(n, ast.Assign) else [n.target]))]
        if not bindings:
            return False
        for value in bindings:
            if not isinstance(value, ast.Call):
                return False
            site = site_for(prog, func, value)
            if site is None or len(site.targets) != 1 or site.targets[0].cls != func.cls:
                return False
            helper = site.targets[0]
            bound = Program.bind_args(helper, value, skip_self=helper.kind in ("instance", "class"))
            handed = [param for param, arg in bound.items() if isinstance(arg, ast.Name) and arg.id == name]
            if not handed:
                return False
            for ret_stmt in [n for n in walk_local(helper.node) if isinstance(n, ast.Return) and n.value is not None]:
                built = ret_stmt.value
                if not isinstance(built, ast.Call):
                    return False
                element = next((k.value for k in built.keywords if k.arg == field), None)
                if element is None:
                    record = prog.infer(helper, built)
                    fields = [s.target.id for s in record[1].node.body if isinstance(s, ast.AnnAssign) and isinstance(s.target, ast.Name)] if record and record[0] == "cls" else []
                    if field in fields and fields.index(field) < len(built.args):
                        element = built.args[fields.index(field)]
                if element is None:
                    return False
                if isinstance(element, ast.Constant) and not element.value:
                    continue
                if not has_kind(helper, ret_stmt, handed[0]):
                    return False
        return True

    def established(func: FuncInfo, node: ast.AST, name: str, depth: int = 0) -> Optional[str]:
        """why the token called ``name`` has a line of its own at ``node`` (None: not established)"""
        annotation = next((a.annotation for a in func.node.args.args if a.arg == name), None)  # type: ignore[attr-defined]
        if annotation is not None and norm(annotation).strip("'\"") not in generic and "Optional" not in norm(annotation):
            return f"typed {norm(annotation)}"
        positive, negative, other = class_facts(func, node, name)
        kind = has_kind(func, node, name)
        if kind:
            return f"under {kind}"
        if "is_end_of_stream" in negative:
            return "end of stream excluded"
        for test in other:
            for sub in ast.walk(test):
                if isinstance(sub, ast.Name) and sub.id != name and sub.id not in func.params and set_under_kind(func, sub.id, name):
                    return f"under '{sub.id}', which is only set for a known kind of token"
                if isinstance(sub, ast.Attribute) and isinstance(sub.value, ast.Name) and sub.value.id not in func.params and field_under_kind(func, sub.value.id, sub.attr, name):
                    return f"under '{sub.value.id}.{sub.attr}', a field of a helper's answer that is only set for a known kind of token"
        if func.name != "next_token" and depth < 3:
            callers = [s for s in prog.callers.get(func.qualname, []) if s.caller.cls is not None and func.cls in s.caller.cls.mro or s.caller.cls == func.cls]
            reasons = []
            for site in callers:
                bound = Program.bind_args(func, site.node, skip_self=func.kind == "instance")
                handed = bound.get(name)
                if isinstance(handed, ast.Name) and handed.id in site.caller.params:
                    reason = established(site.caller, site.node, handed.id, depth + 1)
                else:
                    reason = "a stored or derived token (not the one just received)"
                if reason is None:
                    return None
                reasons.append(reason)
            if reasons:
                return reasons[0]
        return None

    reporter = prog.method(common.RULE_PLUGIN, "report_next_token_error")
    offsets = [a.arg for a in reporter.node.args.args if a.annotation is not None and norm(a.annotation) == "int"]  # type: ignore[attr-defined]
    if len(offsets) != 2:
        raise AnalysisError("report_next_token_error: the line / column offsets were not found among the parameters")
    for cls in sorted(base.all_subclasses(), key=lambda c: c.qualname):
        if not cls.module.rel.startswith("pymarkdown/plugins/"):
            continue
        for method in cls.methods.values():
            for node in walk_local(method.node):
                if not (isinstance(node, ast.Call) and isinstance(node.func, ast.Attribute) and node.func.attr == "report_next_token_error" and len(node.args) >= 2):
                    continue
                key = func_key(method, node) + " [token has a line]"
                bound = Program.bind_args(reporter, node, skip_self=True)
                if any(param in bound for param in offsets):
                    rule.ok(key, "position computed by the rule")
                    continue
                token = node.args[1]
                if not (isinstance(token, ast.Name) and token.id in method.params):
                    rule.ok(key, "a stored or derived token (not decided here)")
                    continue
                reason = established(method, node, token.id)
                if reason:
                    rule.ok(key, reason)
                else:
                    rule.fail(key, where(method, node), f"{method.short} reports at '{token.id}' on a path that has not established what kind of token it is and has not excluded the end of the stream: for a document in which this path is reached by the end-of-stream token (an empty or blank-only file, ...) the failure is printed at the line after the last line, column 0 - a position that does not exist")


def _walk_unconditional(node: ast.AST):
    """Sub-expressions evaluated whenever ``node`` is: nested and/or, conditional expressions, lambdas and
    comprehensions are not entered (they carry guards of their own)."""
    yield node
    for child in ast.iter_child_nodes(node):
        if isinstance(child, (ast.BoolOp, ast.IfExp, ast.Lambda, ast.ListComp, ast.SetComp, ast.DictComp, ast.GeneratorExp)):
            continue
        yield from _walk_unconditional(child)


def length_guard_admits_index(ctx: Context, rule_id: str = "R07m") -> None:
    """A contradiction rule.  In one conjunction 'len(x) >= n and ... x[k] ...' the length test is there to make the
    index safe; when the lengths it admits (together with what startswith/endswith of a literal imply) include one for
    which x[k] does not exist, the rule (or the manager) raises IndexError on exactly the input the guard was written
    for: the file's scan is aborted and the other rules' reports are lost."""
    prog = ctx.prog
    rule = ctx.rule(rule_id, "a length test guarding a constant index in the same conjunction admits no length for which the index is out of range", 3)

    def length_bound(operand: ast.AST) -> Optional[Tuple[str, int]]:
        if isinstance(operand, ast.Compare) and len(operand.ops) == 1 and isinstance(operand.left, ast.Call) and dotted(operand.left.func) == "len" and operand.left.args:
            right = operand.comparators[0]
            if isinstance(right, ast.Constant) and isinstance(right.value, int) and not isinstance(right.value, bool):
                if isinstance(operand.ops[0], ast.GtE):
                    return norm(operand.left.args[0]), right.value
                if isinstance(operand.ops[0], ast.Gt):
                    return norm(operand.left.args[0]), right.value + 1
                if isinstance(operand.ops[0], ast.Eq):
                    return norm(operand.left.args[0]), right.value
        if isinstance(operand, ast.Call) and isinstance(operand.func, ast.Attribute) and operand.func.attr in ("startswith", "endswith") and operand.args:
            if isinstance(operand.args[0], ast.Constant) and isinstance(operand.args[0].value, str):
                return norm(operand.func.value), len(operand.args[0].value)
        return None

    for func in prog.iter_functions("pymarkdown."):
        for node in walk_local(func.node):
            if not (isinstance(node, ast.BoolOp) and isinstance(node.op, ast.And)):
                continue
            explicit: Dict[str, int] = {}
            known: Dict[str, int] = {}
            for operand in node.values:
                for sub in ([] if isinstance(operand, (ast.BoolOp, ast.IfExp)) else _walk_unconditional(operand)):
                    if isinstance(sub, ast.Subscript) and isinstance(sub.ctx, ast.Load):
                        index = sub.slice
                        if isinstance(index, ast.UnaryOp) and isinstance(index.op, ast.USub) and isinstance(index.operand, ast.Constant) and isinstance(index.operand.value, int):
                            need = index.operand.value
                        elif isinstance(index, ast.Constant) and isinstance(index.value, int) and not isinstance(index.value, bool):
                            need = index.value + 1
                        else:
                            continue
                        name = norm(sub.value)
                        if name not in explicit:
                            continue
                        key = f"{func.rel}:{func.short}: {norm(sub)[:60]}"
                        if known[name] >= need:
                            rule.ok(key, f"guarded: length >= {known[name]}")
                        else:
                            rule.fail(key, where(func, sub), f"'{norm(sub)[:60]}' needs at least {need} element(s), and the conjunction it stands in lets it be evaluated when len({name}) is {known[name]} ('{norm(node)[:120]}'): IndexError inside a callback aborts the file's scan, so every other rule's reports for that file are lost")
                bound = length_bound(operand)
                if bound is not None:
                    if isinstance(operand, ast.Compare):
                        explicit[bound[0]] = max(explicit.get(bound[0], 0), bound[1])
                    known[bound[0]] = max(known.get(bound[0], 0), bound[1])


def run(ctx: Context) -> None:
    common.callbacks_contained(ctx, "R07a")
    common.callbacks_only_from_manager(ctx, "R07b")
    r07c(ctx)
    r07d(ctx)
    r07e(ctx)
    r07g(ctx)
    r07i(ctx)
    r07k(ctx)
    r07l(ctx)
    length_guard_admits_index(ctx)
    common.optional_dereferences(
        ctx, "R07j", "no parameter or local of a rule or of the plugin manager that may be None is dereferenced unguarded on any path",
        lambda rel: rel.startswith(("pymarkdown/plugins/", "pymarkdown/plugin_manager/")), 100,
    )
    from sa.rules import c13

    # "two scans of the same input print the same thing", also inside one process: rule state is reset per file
    c13.r13b(ctx)
    ctx.rules[-1].rule_id = "R07h"
    for finding in ctx.rules[-1].findings:
        finding.rule = "R07h"
