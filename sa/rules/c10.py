"""C10 — fix reporting is truthful and scan is read-only."""

from __future__ import annotations

import ast
from typing import Dict, List, Optional, Set, Tuple

from sa.model import AnalysisError, CallSite, FuncInfo, Program, dotted, norm, walk_local
from sa.raises import RaiseAnalysis
from sa.report import Context
from sa.rules import common
from sa.rules.common import FSH, MAIN
from sa.util import func_key, guards_of, returns_of, site_for, where

EXPLANATION = (
    "Decides, from /repo's current source: R10a no file-mutation sink (open for writing, tempfile.*, os.remove/"
    "replace/rename/mkdir, shutil.*, pathlib writers, logging.FileHandler) is reachable in the call graph from the "
    "scan, scan-stdin, --list-files and plugins/extensions paths (everything main reaches with the fix function cut "
    "out), except the stdin spool (paired create/remove, R15f) and the --log-file handler; R10b the condition "
    "guarding the write-back, the flag returned up the fix chain, the guard of the 'Fixed:' announcement and the "
    "per-run fixed flag have one provenance; R10c every False-initialised flag that is reassigned inside a loop of "
    "the run driver is reassigned monotonically; R10d a later fault cannot lose the flag; R10e (=R15f) every temporary file, the scan-stdin spool included, is removed on every normal and exceptional exit; R10f the API's fix/scan results are built from the captured announcements, never from the exit code. "
    "Not decided: that a recorded fix actually changed bytes, or that no bytes change without a recorded fix inside "
    "the regeneration (that is C02's round trip); the interpreter's own __pycache__ writes when a plugin module is "
    "imported are outside the property."
)
ASSUMPTIONS = [
    "file mutation happens only through the sinks listed in R10a (no ctypes / subprocess in the repo: checked, none imported)",
    "application_properties, columnar, yaml, tomli and json do not write files",
]

PATH_SINKS = {
    "os.remove", "os.unlink", "os.replace", "os.rename", "os.mkdir", "os.makedirs", "os.rmdir", "os.truncate",
    "os.chmod", "os.chown", "os.symlink", "os.link", "os.utime", "os.removedirs", "os.renames",
    "logging.FileHandler", "logging.handlers.RotatingFileHandler",
}
PATH_SINK_PREFIXES = ("tempfile.", "shutil.", "subprocess.", "os.system", "os.popen", "os.spawn", "os.exec")
PATHLIB_WRITERS = {"write_text", "write_bytes", "touch", "unlink", "mkdir", "rmdir", "rename", "replace", "chmod"}


def mutation_sink(site: CallSite) -> Optional[str]:
    ext = site.external or ""
    node = site.node
    if ext == "builtins.open" or ext.endswith(".open") and ext.split(".")[0] in ("io", "codecs", "os"):
        mode = node.args[1] if len(node.args) > 1 else next((k.value for k in node.keywords if k.arg == "mode"), None)
        if mode is None:
            return None
        if isinstance(mode, ast.Constant) and isinstance(mode.value, str):
            return f"open(mode={mode.value!r})" if any(ch in mode.value for ch in "wax+") else None
        return "open(mode=<not constant>)"
    if ext in PATH_SINKS or ext.startswith(PATH_SINK_PREFIXES):
        return ext
    if isinstance(node.func, ast.Attribute) and node.func.attr in PATHLIB_WRITERS and ("pathlib" in ext or "Path" in ext):
        return ext
    return None


def r10a(ctx: Context) -> None:
    prog = ctx.prog
    rule = ctx.rule("R10a", "no file-mutation sink is reachable outside the fix path", 3)
    main = prog.method(MAIN, "main")
    fix_fn = prog.method(FSH, "__fix_specific_file")
    reach = prog.reachable([main], stop={fix_fn.qualname}, include_wild=False)
    # every function of the repo that contains a sink
    allowed_funcs = {
        prog.method(FSH, "__scan_from_stdin").qualname: "stdin spool: created and removed in one try/finally (pairing decided by R15f)",
    }
    allowed_prefix = {"pymarkdown.application_logging.ApplicationLogging.": "--log-file is an explicit user request to write a log"}
    sinks_total = 0
    for func in prog.iter_functions():
        for site in prog.sites_in(func):
            what = mutation_sink(site)
            if what is None:
                continue
            sinks_total += 1
            key = func_key(func, site.node)
            if func.qualname not in reach or func.qualname == fix_fn.qualname:
                rule.ok(key, f"{what}: only reachable through the fix function")
                continue
            if func.qualname in allowed_funcs:
                rule.ok(key, f"{what}: {allowed_funcs[func.qualname]}")
                continue
            if any(func.qualname.startswith(prefix) for prefix in allowed_prefix):
                rule.ok(key, f"{what}: --log-file")
                continue
            rule.fail(
                key, site.where,
                f"{what} in {func.short} is reachable from a scan / scan-stdin / list / plugins / extensions run: scan must never create, modify or remove a file",
                prog.witness(reach, func.qualname),
            )
    if sinks_total < 6:
        raise AnalysisError(f"only {sinks_total} file-mutation sinks found in the repo (>= 6 confirmed): sink recognition broke")
    rule.note(f"{len(reach)} functions reachable from main with the fix function cut out; {sinks_total} sinks in the repo")


# --------------------------------------------------------------------------------------
# R10b provenance of the fixed flag
# --------------------------------------------------------------------------------------


def _defs_of(func: FuncInfo, name: str) -> List[Tuple[ast.AST, ast.AST]]:
    """(value expression, assignment statement) for every assignment to ``name`` in ``func``."""
    out = []
    for node in walk_local(func.node):
        if isinstance(node, ast.Assign):
            for target in node.targets:
                for tgt, value, _ in Program._unpack(target, node.value):
                    if isinstance(tgt, ast.Name) and tgt.id == name and value is not None:
                        out.append((value, node))
        elif isinstance(node, ast.AnnAssign) and isinstance(node.target, ast.Name) and node.target.id == name and node.value is not None:
            out.append((node.value, node))
        elif isinstance(node, ast.AugAssign) and isinstance(node.target, ast.Name) and node.target.id == name:
            out.append((node.value, node))
    return out


def provenance(prog: Program, func: FuncInfo, expr: ast.AST, seen: Optional[Set[str]] = None, depth: int = 0) -> Set[str]:
    """Leaves the boolean ``expr`` is built from inside ``func``: 'False', 'True@<guard leaves>',
    'call:<callee>[i]' or 'expr:<text>'.  Follows names, ``or``-chains and ``bool(x)``."""
    seen = set() if seen is None else seen
    if depth > 12:
        return {"expr:" + norm(expr)}
    if isinstance(expr, ast.Constant) and isinstance(expr.value, bool):
        return {str(expr.value)}
    if isinstance(expr, ast.BoolOp) and isinstance(expr.op, ast.Or):
        out: Set[str] = set()
        for value in expr.values:
            out |= provenance(prog, func, value, seen, depth + 1)
        return out
    if isinstance(expr, ast.Call) and dotted(expr.func) == "bool" and len(expr.args) == 1:
        return provenance(prog, func, expr.args[0], seen, depth + 1)
    if isinstance(expr, ast.Subscript) and isinstance(expr.value, ast.Call) and isinstance(expr.slice, ast.Constant):
        site = site_for(prog, func, expr.value)
        if site and site.targets and not site.dynamic:
            return {f"call:{site.targets[0].short}[{expr.slice.value}]"}
    if isinstance(expr, ast.Call):
        site = site_for(prog, func, expr)
        if site and site.targets and not site.dynamic:
            return {f"call:{site.targets[0].short}[-1]"}
    if isinstance(expr, ast.Name):
        if expr.id in seen:
            return set()
        defs = _defs_of(func, expr.id)
        if not defs:
            return {"param:" + expr.id} if expr.id in func.params else {"expr:" + expr.id}
        out = set()
        for value, stmt in defs:
            leaves = provenance(prog, func, value, seen | {expr.id}, depth + 1)
            if leaves == {"True"}:
                guard_leaves: Set[str] = set()
                for test, polarity in guards_of(func.node, stmt):
                    if polarity and not isinstance(test, ast.Constant):  # 'while True:' guards nothing
                        one = provenance(prog, func, test, seen | {expr.id}, depth + 1)
                        # mode tests (pure expressions over the arguments) restrict when the flag can be
                        # set at all; they are not where its value comes from
                        if any(not leaf.startswith("expr:") for leaf in one):
                            guard_leaves |= {leaf for leaf in one if not leaf.startswith("expr:")}
                leaves = guard_leaves or {"True"}
            out |= leaves
        return out
    return {"expr:" + norm(expr)}


def r10b(ctx: Context) -> None:
    prog = ctx.prog
    rule = ctx.rule("R10b", "write-back guard, returned flag, 'Fixed:' guard and per-run flag share one provenance", 6)
    sinks = common.write_back_sinks(prog)
    if not sinks:
        raise AnalysisError("write-back sink not found")
    # step 1: follow the sink up to the function where it is guarded by a local flag
    for sink_func, sink_site in sinks:
        func, node = sink_func, sink_site.node
        guard_leaves: Set[str] = set()
        hops = 0
        while hops < 4:
            facts = [(t, p) for t, p in guards_of(func.node, node) if not norm(t).startswith("fix_")]
            if facts:
                for test, polarity in facts:
                    leaves = provenance(prog, func, test)
                    guard_leaves |= leaves if polarity else {f"not {leaf}" for leaf in leaves}
                break
            callers = prog.callers.get(func.qualname, [])
            if len(callers) != 1:
                break
            func, node = callers[0].caller, callers[0].node
            hops += 1
        key = func_key(sink_func, sink_site.node)
        if not guard_leaves:
            rule.fail(key, sink_site.where, "the write-back onto the user's file is unconditional: a file with nothing to fix is rewritten")
            continue
        writer = func
        rets = returns_of(writer)
        flag_index = None
        flag_leaves: Set[str] = set()
        for ret in rets:
            elts = ret.elts if isinstance(ret, ast.Tuple) else [ret]
            for index, elt in enumerate(elts):
                leaves = provenance(prog, writer, elt)
                if leaves and leaves == guard_leaves:
                    flag_index, flag_leaves = index if isinstance(ret, ast.Tuple) else -1, leaves
        if flag_index is None:
            all_ret = [sorted(provenance(prog, writer, e)) for ret in rets for e in (ret.elts if isinstance(ret, ast.Tuple) else [ret])]
            rule.fail(
                key, sink_site.where,
                f"the write-back in {writer.short} is guarded by {sorted(guard_leaves)} but no returned value has that provenance "
                f"(returned: {all_ret}): bytes can change without the flag, or the flag can be set without a write",
            )
            continue
        rule.ok(key, f"guard and returned flag [{flag_index}] both derive from {sorted(flag_leaves)}")
        # step 2: up the chain to the per-run driver
        callee, index = writer, flag_index
        driver = prog.method(FSH, "process_files_to_scan")
        per_file = prog.method(FSH, "__fix_specific_file")
        above_per_file: List[FuncInfo] = []  # helpers between the per-file function and the per-run driver
        consumed = (writer, flag_index)  # (function, index) whose result the driver finally consumes
        guard_hops = 0
        while callee != driver and guard_hops < 8:
            guard_hops += 1
            callers = prog.callers.get(callee.qualname, [])
            if len(callers) != 1:
                raise AnalysisError(f"{callee.short}: expected one caller on the fix chain, found {len(callers)}")
            caller = callers[0].caller
            want = f"call:{callee.short}[{index}]"
            consumed = (callee, index)
            if caller == driver:
                callee = caller
                break
            if callee == per_file or above_per_file:
                above_per_file.append(caller)
            found = None
            for ret in returns_of(caller):
                elts = ret.elts if isinstance(ret, ast.Tuple) else [ret]
                for position, elt in enumerate(elts):
                    leaves = provenance(prog, caller, elt)
                    if want in leaves:
                        found = (position if isinstance(ret, ast.Tuple) else -1, leaves)
            ckey = f"{caller.short}: passes on the fixed flag of {callee.short}"
            if found is None:
                rule.fail(ckey, where(caller), f"{caller.short} does not return the fixed flag it receives from {callee.short}: the write can happen without being announced")
                return
            extra = found[1] - {want, "False"}
            if extra:
                rule.fail(ckey, where(caller), f"the fixed flag returned by {caller.short} also derives from {sorted(extra)}: it can be set without a write-back (or cleared after one)")
            else:
                rule.ok(ckey, f"return[{found[0]}] derives only from {want} and False")
            callee, index = caller, found[0]
        # step 3: the driver: announcement and per-run flag guarded by that flag
        # the announcement sits in the driver or in a helper between it and the per-file function
        announce_sites = [
            (holder, s) for holder in [driver] + above_per_file for s in prog.sites_in(holder)
            if isinstance(s.node.func, ast.Attribute) and s.node.func.attr == "print_fix_message"
        ]
        if not announce_sites:
            rule.fail(f"{driver.short}: announcement", where(driver), "the per-run driver no longer announces fixed files")
            return
        driver_want = f"call:{consumed[0].short}[{consumed[1]}]" if consumed[1] >= 0 else f"call:{consumed[0].short}"
        for holder, site in announce_sites:
            leaves: Set[str] = set()
            for test, polarity in guards_of(holder.node, site.node):
                if polarity:
                    leaves |= provenance(prog, holder, test)
            akey = func_key(holder, site.node)
            # in the driver the flag arrives from the last helper, in a helper from the function below it
            wanted_here = driver_want if holder == driver else None
            if wanted_here is None:
                position = above_per_file.index(holder)
                below = per_file if position == 0 else above_per_file[position - 1]
                wanted_here = f"call:{below.short}"
            flag_leaf = [leaf for leaf in leaves if leaf.startswith(wanted_here)]
            if not flag_leaf:
                rule.fail(akey, site.where, f"'Fixed:' is printed under {sorted(leaves)}, which is not the fixed flag handed up from {wanted_here[5:]}")
                continue
            rule.ok(akey, f"guarded by {flag_leaf}")
            # the return that hands back the flags accumulated over the files (an early return for the single stdin
            # document gives its pair directly)
            rets = [r for r in returns_of(driver) if isinstance(r, ast.Tuple)]
            rets = [r for r in rets if all(isinstance(e, ast.Name) for e in r.elts)] or rets
            flag_leaf = [leaf for leaf in {l for elt in (rets[0].elts if rets else []) for l in provenance(prog, driver, elt)} if leaf.startswith(driver_want.split("[")[0])] or flag_leaf
            # per-run flag (returned index by role from C18) is set under the same guard
            if rets and isinstance(rets[0], ast.Tuple):
                run_leaves = [provenance(prog, driver, elt) for elt in rets[0].elts]
                if not any(set(flag_leaf) & leaves_i for leaves_i in run_leaves):
                    rule.fail(f"{driver.short}: per-run fixed flag", where(driver), f"no flag returned by the driver derives from {flag_leaf}: a fixed file does not lead to the fixed-at-least-one-file result")
                else:
                    for leaves_i in run_leaves:
                        if set(flag_leaf) & leaves_i:
                            extra = leaves_i - set(flag_leaf) - {"False"}
                            if extra:
                                rule.fail(f"{driver.short}: per-run fixed flag", where(driver), f"the per-run fixed flag also derives from {sorted(extra)}")
                            else:
                                rule.ok(f"{driver.short}: per-run fixed flag", f"derives only from {flag_leaf}")


def r10c(ctx: Context) -> None:
    prog = ctx.prog
    rule = ctx.rule("R10c", "flags accumulated in loops of the run driver are reassigned monotonically", 3)
    for func in prog.cls(FSH).methods.values():
        body = getattr(func.node, "body", [])
        initial_false: Dict[str, ast.stmt] = {}
        for node in walk_local(func.node):
            if isinstance(node, ast.Assign) and isinstance(node.value, ast.Constant) and node.value.value is False:
                for target in node.targets:
                    if isinstance(target, ast.Name):
                        initial_false.setdefault(target.id, node)
        if not initial_false:
            continue
        for loop in [n for n in walk_local(func.node) if isinstance(n, (ast.For, ast.While))]:
            for node in [n for stmt in loop.body for n in ast.walk(stmt)]:
                if not isinstance(node, (ast.Assign, ast.AugAssign)):
                    continue
                pairs: List[Tuple[ast.AST, Optional[ast.AST]]] = []
                if isinstance(node, ast.Assign):
                    for target in node.targets:
                        pairs.extend((t, v) for t, v, _ in Program._unpack(target, node.value))
                else:
                    pairs.append((node.target, None))
                for target, value in pairs:
                    if not (isinstance(target, ast.Name) and target.id in initial_false):
                        continue
                    name = target.id
                    init = initial_false[name]
                    if init.lineno >= loop.lineno:
                        continue  # (re)initialised inside the loop: a per-iteration variable
                    used_after = any(
                        isinstance(n, ast.Name) and n.id == name and isinstance(n.ctx, ast.Load) and n.lineno > loop.end_lineno
                        for n in walk_local(func.node)
                    )
                    if not used_after:
                        continue
                    key = f"{func.short}: {name} in loop"
                    monotone = False
                    if isinstance(node, ast.AugAssign):
                        monotone = isinstance(node.op, ast.BitOr)
                    elif isinstance(value, ast.Constant) and value.value is True:
                        monotone = True
                    elif isinstance(value, ast.BoolOp) and isinstance(value.op, ast.Or) and any(isinstance(v, ast.Name) and v.id == name for v in value.values):
                        monotone = True
                    if monotone:
                        rule.ok(key, norm(node))
                    else:
                        rule.fail(key, where(func, node), f"'{name}' is initialised False before the loop, read after it, and overwritten inside it by '{norm(node)}': a later iteration can clear what an earlier one set")


def run(ctx: Context) -> None:
    ra = RaiseAnalysis(ctx.prog)
    r10a(ctx)
    r10b(ctx)
    r10c(ctx)
    common.fixed_flag_survives_faults(ctx, "R10d", ra)
    from sa.rules import c15

    # "scan, scan-stdin and listing never ... leave behind any file": the spool of scan-stdin (the one
    # sink R10a allows on the scan path) is removed on every normal and exceptional exit
    c15.r15f(ctx, ra)
    ctx.rules[-1].rule_id = "R10e"
    for finding in ctx.rules[-1].findings:
        finding.rule = "R10e"
    from sa.rules import c16

    # the API's "files fixed" answer is the list of 'Fixed:' announcements, in both return-code schemes
    c16.api_results_from_presentation(ctx, "R10f")
    # 'announced as Fixed' implies the bytes changed: a refused write-back is an error, never swallowed
    c15.refused_write_back_is_an_error(ctx, "R10g")
    if ctx.tier == "thorough":
        from sa.rules import driver_exploration

        driver_exploration.c10_predicates(ctx)
