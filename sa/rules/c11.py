"""C11 — pragmas suppress exactly what they name and are invisible to the parser."""

from __future__ import annotations

import ast
from typing import Dict, List, Optional, Set, Tuple

from sa.cfg import CFG
from sa.events import EventOrder, Spec
from sa.model import AnalysisError, CallSite, FuncInfo, Program, dotted, norm, walk_local
from sa.report import Context
from sa.rules import c07, common
from sa.rules.common import FSH, PM
from sa.util import _atoms as _facts, enumerate_paths, forward_taint, func_key, guards_of, names_read, returns_of, site_for, where

EXPLANATION = (
    "Decides, from /repo's current source: R11a every failure line passes the pragma filter (single output path) and "
    "each early return of the filter is guarded by both a line test and a rule-id membership test; the inclusive "
    "range test of the filter agrees with the (line+1, line+N) range and the line+1 key the compiler stores; "
    "R11b the pragma recogniser is the first non-logging call of the line handler, the 'pragma found' path returns "
    "an empty token list without requeue, and nothing reachable on that path mutates the token stack or document; "
    "R11c pragmas are compiled before failures are reported on every path, and only compile_single_pragma fills the "
    "tables; R11d every consumer of the sign-encoded pragma_lines keys decodes the sign before using a key as a "
    "line number; R11e the tables are emptied when a new file starts; R11f the recogniser runs only under the "
    "pragma extension's flag; R11g every path through the compiler of one pragma either records a suppression or "
    "reports the malformed pragma; R11i the suppression tables are written only by the per-file reset and the pragma compiler (never while reporting). R11a also: a loop that looks for a suppressing entry looks at every entry; R11d also: every ordering of the keys decodes the sign and no arithmetic on a raw key is blind to its sign; R11j recogniser and compiler read a pragma line the same way (trailing whitespace stripped before the closing sequence is cut; every closing sequence shown in pragmas.md is cut off whole). Not decided: the rest of the character-level parsing of the pragma text, alias resolution "
    "values, and that positions after a pragma line are shifted by exactly one (runtime arithmetic)."
)
ASSUMPTIONS = ["the plugin id table (all_ids) maps every id and alias to its plugin (built in PluginManager registration, C17)"]

PRAGMA_EXT = "pymarkdown.extensions.pragma_token.PragmaExtension"
PRAGMA_TOKEN = "pymarkdown.extensions.pragma_token.PragmaToken"
CBP = "pymarkdown.container_blocks.container_block_processor.ContainerBlockProcessor"
PSC = "pymarkdown.plugin_manager.plugin_scan_context.PluginScanContext"


def r11a(ctx: Context) -> None:
    prog = ctx.prog
    rule = ctx.rule("R11a", "the pragma filter sits on the only output path and tests line and rule id", 5)
    logger = prog.method(PM, "log_scan_failure")
    printer_calls = [s for s in prog.sites_in(logger) if isinstance(s.node.func, ast.Attribute) and s.node.func.attr == "print_scan_failure"]
    if len(printer_calls) != 1:
        rule.fail(func_key(logger), where(logger), f"log_scan_failure prints the failure {len(printer_calls)} times")
        return
    early = [n for n in walk_local(logger.node) if isinstance(n, ast.Return) and n.lineno < printer_calls[0].node.lineno]
    # locals that hold the failure's rule id (assigned from <failure>.rule_id...)
    id_names = {
        t.id for n in walk_local(logger.node) if isinstance(n, ast.Assign) and ".rule_id" in norm(n.value)
        for t in n.targets if isinstance(t, ast.Name)
    }
    line_names: Set[str] = set()
    local_values: Dict[str, List[ast.AST]] = {}
    for n in walk_local(logger.node):
        if isinstance(n, (ast.Assign, ast.AnnAssign)) and getattr(n, "value", None) is not None:
            for t in (n.targets if isinstance(n, ast.Assign) else [n.target]):
                if isinstance(t, ast.Name):
                    local_values.setdefault(t.id, []).append(n.value)
    grew = True
    while grew:  # locals computed from the failure's line (the line itself, or what a table holds for it)
        grew = False
        for name, values in local_values.items():
            if name not in line_names and name not in id_names and any(
                ".line_number" in norm(v) or any(isinstance(sub, ast.Name) and sub.id in line_names for sub in ast.walk(v)) for v in values
            ):
                line_names.add(name)
                grew = True

    def mentions(node: ast.AST, names: Set[str], attr: str) -> bool:
        return any((isinstance(sub, ast.Name) and sub.id in names) or (isinstance(sub, ast.Attribute) and sub.attr == attr) for sub in ast.walk(node))

    def expand(node: ast.AST, polarity: bool) -> List[List[Tuple[ast.AST, bool]]]:
        """Disjunctive normal form of one guard fact: ``a or b`` gives two alternatives,
        ``any(c for ... in t if d)`` the conjunction of c and d."""
        if polarity and isinstance(node, ast.BoolOp) and isinstance(node.op, ast.Or):
            return [alt for value in node.values for alt in conj(_facts(value, True))]
        if polarity and isinstance(node, ast.Call) and isinstance(node.func, ast.Name) and node.func.id == "any" and len(node.args) == 1 and isinstance(node.args[0], ast.GeneratorExp):
            gen = node.args[0]
            inner = _facts(gen.elt, True) + [f for comp in gen.generators for cond in comp.ifs for f in _facts(cond, True)]
            return conj(inner)
        return [[(node, polarity)]]

    def conj(facts: List[Tuple[ast.AST, bool]]) -> List[List[Tuple[ast.AST, bool]]]:
        alternatives: List[List[Tuple[ast.AST, bool]]] = [[]]
        for node, polarity in facts:
            options = expand(node, polarity)
            alternatives = [alt + option for alt in alternatives for option in options][:32]
        return alternatives

    kinds: Set[str] = set()
    for ret in early:
        for alternative in conj(list(guards_of(logger.node, ret))):
            positive = [(norm(node), node) for node, pol in alternative if pol]
            negative = [(norm(node), node) for node, pol in alternative if not pol]
            line_test = [node for text, node in positive if mentions(node, line_names, "line_number")]
            id_test = [node for text, node in positive if isinstance(node, ast.Compare) and isinstance(node.ops[0], ast.In) and mentions(node.left, id_names, "rule_id")]
            key = func_key(logger, ret) + f" @{'+'.join(sorted(t for t, _ in positive))[:80]}"
            if not line_test or not id_test:
                rule.fail(key, where(logger, ret), f"a failure is suppressed under {[t for t, _ in positive]}: the suppression must depend on both the failure's line and its rule id")
                continue
            # the two tables are consulted independently of each other
            def is_suppression(node: ast.AST) -> bool:
                """the negated test is itself a complete suppression condition (line test and rule-id test in every
                alternative): 'not already suppressed by the other table' blocks nothing"""
                for option in conj(_facts(node, True)):
                    option_positive = [n for n, pol in option if pol]
                    has_line = any(mentions(n, line_names, "line_number") for n in option_positive)
                    has_id = any(isinstance(n, ast.Compare) and isinstance(n.ops[0], ast.In) and mentions(n.left, id_names, "rule_id") for n in option_positive)
                    if not (has_line and has_id):
                        return False
                return True

            blocking = [text for text, node in negative if (mentions(node, line_names | id_names, "line_number") or "pragma" in text.lower()) and not is_suppression(node)]
            bounds: Dict[str, List[Tuple[bool, ast.AST]]] = {"lower": [], "upper": []}
            for node in line_test:
                if not isinstance(node, ast.Compare):
                    continue
                operands = [node.left] + list(node.comparators)
                for left, op, right in zip(operands, node.ops, operands[1:]):
                    left_is_line, right_is_line = mentions(left, line_names, "line_number"), mentions(right, line_names, "line_number")
                    if isinstance(op, ast.In) and left_is_line:
                        kinds.add("table")
                    elif isinstance(op, ast.In) and right_is_line and mentions(left, id_names, "rule_id"):
                        # the rule id is looked up in what the table holds for this line: table.get(line, ()) / table[line],
                        # possibly kept in a local first
                        looked_in = [right] + (local_values.get(right.id, []) if isinstance(right, ast.Name) else [])
                        lookups = [sub for holder in looked_in for sub in ast.walk(holder) if (isinstance(sub, ast.Subscript) and mentions(sub.slice, line_names, "line_number"))
                                   or (isinstance(sub, ast.Call) and isinstance(sub.func, ast.Attribute) and sub.func.attr == "get" and sub.args and mentions(sub.args[0], line_names, "line_number"))]
                        if lookups:
                            kinds.add("table")
                    elif isinstance(op, (ast.Lt, ast.LtE, ast.Gt, ast.GtE)) and left_is_line != right_is_line:
                        ascending = isinstance(op, (ast.Lt, ast.LtE))
                        side = "lower" if right_is_line == ascending else "upper"
                        bounds[side].append((isinstance(op, (ast.LtE, ast.GtE)), node))
            if bounds["lower"] and bounds["upper"]:
                kinds.add("range")
            if blocking:
                rule.fail(key + " [independent]", where(logger, ret), f"this suppression is consulted only when not ({'; '.join(blocking)}): a line covered by both kinds of pragma is filtered by one of them only")
                continue
            rule.ok(key, "line test and rule-id membership")
            if bounds["lower"] and bounds["upper"]:
                strict = [node for side in bounds.values() for inclusive, node in side if not inclusive]
                if strict:
                    rule.fail(func_key(logger, strict[0]), where(logger, strict[0]), f"range test '{norm(strict[0])}' is not inclusive on both ends while the compiler stores the inclusive range (line+1, line+N)")
                else:
                    rule.ok(func_key(logger, bounds["lower"][0][1]), "inclusive range test")
    # a loop that looks for a suppressing entry looks at every entry: ranges overlap and nest, so no entry may end
    # the search for the others (break), and the loop runs over the whole table (no slice of it)
    for loop in [n for n in walk_local(logger.node) if isinstance(n, ast.For) and any(any(sub is ret for sub in ast.walk(n)) for ret in early)]:
        def own(nodes: List[ast.stmt]) -> List[ast.AST]:
            found: List[ast.AST] = []
            for stmt in nodes:
                if isinstance(stmt, (ast.For, ast.While, ast.FunctionDef, ast.AsyncFunctionDef, ast.ClassDef)):
                    continue
                if isinstance(stmt, ast.Break):
                    found.append(stmt)
                for field in ("body", "orelse", "finalbody", "handlers"):
                    inner = getattr(stmt, field, None)
                    if isinstance(inner, list):
                        found.extend(own([h for h in inner if isinstance(h, ast.stmt)] + [b for h in inner if isinstance(h, ast.ExceptHandler) for b in h.body]))
            return found

        lkey = func_key(logger, loop) + " [every entry]"
        breaks = own(loop.body)
        sliced = [sub for sub in ast.walk(loop.iter) if isinstance(sub, ast.Subscript) and isinstance(sub.slice, ast.Slice)]
        if breaks:
            rule.fail(lkey, where(logger, breaks[0]), f"the search through '{norm(loop.iter)[:60]}' stops at an entry that does not suppress the failure: entries overlap (nested or overlapping disable-num-lines), so a later entry that covers the line is never consulted")
        elif sliced:
            rule.fail(lkey, where(logger, loop), f"the search runs over a part of the table only ('{norm(loop.iter)[:60]}')")
        else:
            rule.ok(lkey, "every entry is consulted until one suppresses the failure")
    for kind, text in (("table", "disable-next-line (line table)"), ("range", "disable-num-lines (range list)")):
        if kind not in kinds:
            rule.fail(func_key(logger) + f": filters [{kind}]", where(logger), f"no suppression exit before the print consults the {text}: that pragma is no longer honoured")
    # rule id compared in one case on both sides
    lowered = any(isinstance(n, ast.Assign) and ".rule_id.lower()" in norm(n.value) and any(isinstance(t, ast.Name) and t.id in id_names for t in n.targets) and n.lineno < (early[0].lineno if early else 10**9) for n in walk_local(logger.node))
    if lowered:
        rule.ok(func_key(logger) + ": id case", "rule id lower-cased before the membership test (tables hold lower-case ids)")
    else:
        rule.fail(func_key(logger) + ": id case", where(logger), "the rule id is not lower-cased before it is looked up in the pragma tables (which hold lower-case plugin ids)")
    # compiler side: key line+1 and range (line+1, line+count)
    one = prog.method(PRAGMA_EXT, "__handle_disable_next_line")
    stores = [n for n in walk_local(one.node) if isinstance(n, ast.Assign) and isinstance(n.targets[0], ast.Subscript) and "pragma" in norm(n.targets[0].value)]
    def plus_one(expr: ast.AST, func: FuncInfo) -> Optional[str]:
        """'<parameter> + 1' -> parameter name."""
        if isinstance(expr, ast.BinOp) and isinstance(expr.op, ast.Add):
            for left, right in ((expr.left, expr.right), (expr.right, expr.left)):
                if isinstance(left, ast.Name) and left.id in func.params and isinstance(right, ast.Constant) and right.value == 1:
                    return left.id
        return None

    for store in stores:
        text = norm(store.targets[0].slice)
        key = f"{one.short}: next-line key"
        if plus_one(store.targets[0].slice, one):
            rule.ok(key, "suppresses the line after the pragma")
        else:
            rule.fail(key, where(one, store), f"disable-next-line is recorded for line '{text}', not for the line after the pragma")
    if not stores:
        rule.fail(func_key(one), where(one), "disable-next-line no longer records a suppression")
    many = prog.method(PRAGMA_EXT, "__handle_disable_num_lines")
    tuples = [n for n in walk_local(many.node) if isinstance(n, ast.Tuple) and len(n.elts) == 3 and "line_number" in norm(n)]
    for tup in tuples:
        first, last = norm(tup.elts[0]), norm(tup.elts[1])
        key = f"{many.short}: range"
        line_param = plus_one(tup.elts[0], many)
        def plain_count(expr: ast.AST) -> bool:
            """the count as parsed: a local, a field of the parse result or an element of it - no arithmetic on it"""
            return isinstance(expr, (ast.Name, ast.Attribute, ast.Subscript)) and not any(isinstance(sub, (ast.BinOp, ast.Call)) for sub in ast.walk(expr))

        last = tup.elts[1]
        last_ok = (
            line_param is not None and isinstance(last, ast.BinOp) and isinstance(last.op, ast.Add)
            and ((norm(last.left) == line_param and plain_count(last.right)) or (norm(last.right) == line_param and plain_count(last.left)))
        )
        if line_param and last_ok:
            rule.ok(key, "range (line+1, line+N)")
        else:
            rule.fail(key, where(many, tup), f"disable-num-lines records the range ({first}, {last}); the following N lines are (line+1, line+N)")
    if not tuples:
        rule.fail(func_key(many), where(many), "disable-num-lines no longer records a range")


def _mutates_parser_state(prog: Program, func: FuncInfo) -> Optional[str]:
    names = {"token_stack", "token_document", "__token_stack", "__tokenized_document"}
    for node in walk_local(func.node):
        if isinstance(node, ast.Call) and isinstance(node.func, ast.Attribute) and node.func.attr in ("append", "extend", "insert", "pop", "clear", "remove"):
            target = node.func.value
            if isinstance(target, ast.Attribute) and target.attr in names:
                return norm(node)
        if isinstance(node, ast.Delete):
            for target in node.targets:
                if any(isinstance(sub, ast.Attribute) and sub.attr in names for sub in ast.walk(target)):
                    return norm(node)
        if isinstance(node, (ast.Assign, ast.AugAssign)):
            targets = node.targets if isinstance(node, ast.Assign) else [node.target]
            for target in targets:
                if isinstance(target, ast.Subscript) and any(isinstance(sub, ast.Attribute) and sub.attr in names for sub in ast.walk(target.value)):
                    return norm(node)
    return None


def _is_logging(prog: Program, func: FuncInfo, call: ast.Call) -> bool:
    site = site_for(prog, func, call)
    if site is None:
        return False
    if site.external and site.external.startswith("logging."):
        return True
    return any(t.cls is not None and t.cls.name == "ParserLogger" for t in site.targets)


def r11b(ctx: Context) -> None:
    prog = ctx.prog
    rule = ctx.rule("R11b", "the pragma recogniser runs first and a pragma line leaves the parser untouched", 3)
    recogniser = prog.method(PRAGMA_EXT, "look_for_pragmas")
    callers = prog.callers.get(recogniser.qualname, [])
    if len(callers) != 1:
        rule.fail(func_key(recogniser) + ": callers", where(recogniser), f"the recogniser is called from {len(callers)} places")
        return
    wrapper = callers[0].caller
    line_handler = prog.method(CBP, "parse_line_for_container_blocks")
    wrapper_sites = prog.callers.get(wrapper.qualname, [])
    if len(wrapper_sites) != 1:
        raise AnalysisError("pragma wrapper has several callers")
    if wrapper_sites[0].caller == line_handler:
        # the recogniser is called by the setup function itself (no separate wrapper): the chain is one shorter
        class _Direct:  # the 'wrapper call' in the setup function is the recogniser call itself
            caller, node = wrapper, callers[0].node
        wrapper_sites = [_Direct]  # type: ignore[list-item]
    setup = wrapper_sites[0].caller
    # (a) in the setup function the wrapper call is the first call that can touch parser state: calls before it
    # (logging, whitespace extraction for the recogniser's own argument, ...) must be inert for the parser
    def _inert(call: ast.Call) -> bool:
        if _is_logging(prog, setup, call):
            return True
        handed = {a.arg for a in setup.node.args.args if "ParserState" in norm(a.annotation or ast.Constant("")) or "GrabBag" in norm(a.annotation or ast.Constant(""))}
        if any(isinstance(sub, ast.Name) and sub.id in handed for arg in list(call.args) + [k.value for k in call.keywords] for sub in [arg]):
            return False  # the parser state (or the per-line work area) is handed over as a whole
        site = site_for(prog, setup, call)
        if site is None or not site.targets:
            return bool(site is not None and site.external)
        return not any(_mutates_parser_state(prog, prog.functions[q]) for q in prog.reachable(list(site.targets)))

    first_call = None
    for stmt in setup.node.body:
        calls = [c for c in ast.walk(stmt) if isinstance(c, ast.Call) and not _inert(c)]
        if any(c is wrapper_sites[0].node for c in ast.walk(stmt)):
            first_call = (stmt, [wrapper_sites[0].node] if wrapper_sites[0].node not in calls else calls)
            break
        if calls:
            first_call = (stmt, calls)
            break
    key = func_key(setup) + ": first effect"
    if first_call and any(c is wrapper_sites[0].node for c in first_call[1]) and isinstance(first_call[0], ast.If):
        stmt = first_call[0]
        if stmt.body and isinstance(stmt.body[-1], ast.Return):
            rule.ok(key, "pragma recogniser first; found -> immediate return")
        else:
            rule.fail(key, where(setup, stmt), "a recognised pragma line does not leave the line handler immediately")
    else:
        rule.fail(key, where(setup), "the pragma recogniser is not the first thing done for a source line: container processing sees (and may act on) pragma lines")
    # (b) the line handler: setup is the first non-constructor call, found -> return [] ...
    handler_sites = prog.callers.get(setup.qualname, [])
    if len(handler_sites) != 1:
        raise AnalysisError("setup function has several callers")
    handler = handler_sites[0].caller
    # (a') every source line is shown to the recogniser: along handler -> setup -> wrapper -> recogniser
    # nothing but the extension's flag decides whether the next call is made
    chain = [(handler, handler_sites[0].node), (setup, wrapper_sites[0].node)] + ([(wrapper, callers[0].node)] if wrapper != setup else [])
    conditions = []
    for func, call in chain:
        for test, polarity in guards_of(func.node, call, include_asserts=False):
            text = ("" if polarity else "not ") + norm(test)
            if not (polarity and "pragmas_enabled" in norm(test)):
                conditions.append(f"{func.short}: {text}")
    key = func_key(setup) + ": every line"
    if conditions:
        rule.fail(key, where(setup, wrapper_sites[0].node), f"whether a line is shown to the pragma recogniser depends on {conditions[:3]}: in that parser state a pragma line is parsed as document text (it becomes visible to the parser and its suppression is lost)")
    else:
        rule.ok(key, "only the extension flag decides whether the recogniser runs")
    before = []
    for stmt in handler.node.body:
        if any(sub is handler_sites[0].node for sub in ast.walk(stmt)):
            break
        for call in [c for c in ast.walk(stmt) if isinstance(c, ast.Call) and not _is_logging(prog, handler, c)]:
            site = site_for(prog, handler, call)
            if site and site.targets:
                before.extend(site.targets)
    closure = prog.reachable([setup] + before, stop=None)
    # restrict to what the pragma-found path can reach: wrapper closure + constructors before it
    found_path = prog.reachable(([wrapper] if wrapper != setup else [recogniser]) + before)
    offenders = []
    for qual in found_path:
        mutated = _mutates_parser_state(prog, prog.functions[qual])
        if mutated:
            offenders.append((qual, mutated))
    key = func_key(handler) + ": pragma path effects"
    if offenders:
        qual, mutated = offenders[0]
        rule.fail(key, where(prog.functions[qual]), f"on the path that swallows a pragma line, {prog.functions[qual].short} mutates parser state ('{mutated}')", prog.witness(found_path, qual))
    else:
        rule.ok(key, f"{len(found_path)} functions reachable before/inside the recogniser, none touches token_stack/token_document")
    # the value that setup returns when the recogniser reported a pragma must lead the line handler to
    # 'return [], None, None, None, False, False' at once - whatever shape that value has (a flag inside a
    # tuple, None instead of a tuple, ...)
    key = func_key(handler) + ": pragma found return"
    found_returns = [r for r in walk_local(setup.node) if isinstance(r, ast.Return) and any(pol and any(sub is wrapper_sites[0].node for sub in ast.walk(t)) for t, pol in guards_of(setup.node, r))]
    other_returns = [r for r in walk_local(setup.node) if isinstance(r, ast.Return) and r not in found_returns]
    if not found_returns or not other_returns:
        rule.fail(key, where(setup), "the setup function no longer tells its caller apart whether the line was a pragma")
        return
    call_stmt = None
    block: List[ast.stmt] = []
    for holder in ast.walk(handler.node):
        for field in ("body", "orelse"):
            stmts = getattr(holder, field, None)
            if isinstance(stmts, list):
                for stmt in stmts:
                    if isinstance(stmt, ast.Assign) and stmt.value is handler_sites[0].node:
                        call_stmt, block = stmt, stmts
    if call_stmt is None:
        rule.fail(key, where(handler), "the result of the setup function is not kept")
        return

    def value_of(test: ast.AST, returned: Optional[ast.AST]) -> Optional[bool]:
        """truth value of the handler's test when setup returned ``returned``"""
        target = call_stmt.targets[0]
        if isinstance(test, ast.UnaryOp) and isinstance(test.op, ast.Not):
            inner = value_of(test.operand, returned)
            return None if inner is None else not inner
        if isinstance(test, ast.Compare) and len(test.ops) == 1 and isinstance(test.comparators[0], ast.Constant) and test.comparators[0].value is None:
            inner_none = None
            if isinstance(test.left, ast.Name) and isinstance(target, ast.Name) and test.left.id == target.id:
                inner_none = isinstance(returned, ast.Constant) and returned.value is None or returned is None
            if inner_none is None:
                return None
            return inner_none if isinstance(test.ops[0], ast.Is) else (not inner_none) if isinstance(test.ops[0], ast.IsNot) else None
        if isinstance(test, ast.Name):
            if isinstance(target, ast.Name) and test.id == target.id:
                return not (returned is None or (isinstance(returned, ast.Constant) and not returned.value))
            if isinstance(target, ast.Tuple) and isinstance(returned, ast.Tuple) and len(returned.elts) == len(target.elts):
                for element, value in zip(target.elts, returned.elts):
                    if isinstance(element, ast.Name) and element.id == test.id and isinstance(value, ast.Constant):
                        return bool(value.value)
        return None

    good = False
    position = block.index(call_stmt)
    for following in block[position + 1:]:
        if isinstance(following, ast.Expr) and isinstance(following.value, ast.Call) and _is_logging(prog, handler, following.value):
            continue
        if isinstance(following, ast.If) and following.body and isinstance(following.body[0], ast.Return):
            when_found = [value_of(following.test, r.value) for r in found_returns]
            when_other = [value_of(following.test, r.value) for r in other_returns]
            value = following.body[0].value
            empty = isinstance(value, ast.Tuple) and isinstance(value.elts[0], ast.List) and not value.elts[0].elts and all(isinstance(e, ast.Constant) and e.value in (None, False) for e in value.elts[1:])
            good = empty and all(v is True for v in when_found) and all(v is False for v in when_other)
        break
    if good:
        rule.ok(key, "returns no tokens, no requeue, no state change")
    else:
        rule.fail(key, where(handler), "when the setup function reports a pragma line the line handler does not return the empty result at once")


def r11c(ctx: Context) -> None:
    prog = ctx.prog
    rule = ctx.rule("R11c", "pragmas are compiled before failures are reported; one compiler fills the tables", 3)
    compiler = prog.method(PM, "compile_pragmas")
    reporter = prog.method(PSC, "report_on_triggered_rules")

    collectors = [prog.method(PM, name) for name in ("next_token", "next_line", "completed_file")]

    def event_of(func: FuncInfo, site: CallSite) -> Optional[str]:
        if compiler in site.targets:
            return "P"
        if reporter in site.targets:
            return "R"
        if any(c in site.targets for c in collectors):
            return "F"  # a callback through which rules record failures
        return None

    # Failures are collected by the token / line / completion callbacks and printed by the
    # reporter - also by the reporter call in the handler of the scan when a callback raises.
    # The tables must therefore be filled before the first failure can be collected: no path
    # may compile after a collecting callback, and none may report twice out of order.
    spec = Spec(
        0,
        {(0, "P"): 1, (1, "F"): 1, (0, "F"): 2, (2, "F"): 2, (0, "R"): 3, (1, "R"): 3, (2, "R"): 3, (3, "R"): 3},
        accept_normal={3}, accept_raise={0, 1, 2, 3},
        names={0: "nothing yet", 1: "pragmas compiled", 2: "failures collected without compiling (no pragma token)", 3: "reported"},
    )
    order = EventOrder(prog, event_of, raising=None)
    scan = prog.method(FSH, "__scan_file")
    witness = order.check(scan, spec)
    key = func_key(scan) + ": compile before report"
    if witness is None:
        rule.ok(key, "no path compiles pragmas after a failure-collecting callback or after the report")
    else:
        rule.fail(key, where(scan), f"failures can be collected or reported before the document's pragmas are compiled (a callback that raises then reports them unfiltered): {witness['message']}", list(witness["steps"]))  # type: ignore[arg-type]

    # compile is guarded only by 'the last token is the pragma token'
    def pragma_guard(func: FuncInfo, test: ast.AST, depth: int = 0) -> bool:
        text = norm(test)
        if "is_pragma" in text or text == "actual_tokens":
            return True
        name = test
        if isinstance(test, ast.Compare) and len(test.ops) == 1 and isinstance(test.ops[0], ast.IsNot) and isinstance(test.comparators[0], ast.Constant) and test.comparators[0].value is None:
            name = test.left
        if isinstance(name, ast.Name) and depth < 3:
            # a local that is None / False unless assigned under the pragma-token test
            seen = False
            for node in walk_local(func.node):
                targets = node.targets if isinstance(node, ast.Assign) else [node.target] if isinstance(node, ast.AnnAssign) and node.value is not None else []
                if not any(isinstance(t, ast.Name) and t.id == name.id for t in targets):
                    continue
                value = node.value  # type: ignore[union-attr]
                if isinstance(value, ast.Constant) and not value.value:
                    continue
                facts = guards_of(func.node, node)
                if not any(pol and pragma_guard(func, fact, depth + 1) for fact, pol in facts):
                    return False
                seen = True
            return seen
        return False

    for site in prog.callers.get(compiler.qualname, []):
        all_facts = guards_of(site.caller.node, site.node)
        facts = [norm(t) if p else f"not {norm(t)}" for t, p in all_facts]
        skey = func_key(site.caller, site.node)
        if all_facts and all(p and pragma_guard(site.caller, t) for t, p in all_facts):
            rule.ok(skey, f"guarded by {facts}")
        else:
            rule.fail(skey, site.where, f"compile_pragmas is guarded by {facts}: pragmas of some documents are not compiled")
        # its argument is the pragma token's table
        if not any("pragma_lines" in norm(a) for a in site.node.args):
            rule.fail(skey + " [argument]", site.where, "compile_pragmas is not given the pragma token's lines")
    # only the single-pragma compiler stores into the tables
    single = prog.method(PRAGMA_EXT, "compile_single_pragma")
    loop_calls = [s for s in prog.sites_in(compiler) if single in s.targets]
    loops = [n for n in walk_local(compiler.node) if isinstance(n, ast.For)]
    if len(loop_calls) == 1 and len(loops) == 1 and "pragma_lines" in norm(loops[0].iter):
        rule.ok(func_key(compiler), "one compile_single_pragma per recorded pragma line")
    else:
        rule.fail(func_key(compiler), where(compiler), "compile_pragmas does not compile every recorded pragma line exactly once")


def r11d(ctx: Context) -> None:
    prog = ctx.prog
    rule = ctx.rule("R11d", "every consumer of the sign-encoded pragma keys decodes the sign", 3)
    token_cls = prog.cls(PRAGMA_TOKEN)
    consumers: List[Tuple[FuncInfo, str, ast.AST]] = []
    for func in prog.iter_functions():
        if func.cls is not None and func.cls == token_cls and "compose" in func.name:
            continue  # serialisation writes the keys verbatim
        for node in walk_local(func.node):
            iter_expr = None
            target = None
            if isinstance(node, (ast.For, ast.comprehension)):
                iter_expr, target = node.iter, node.target
            if iter_expr is None:
                continue
            text = norm(iter_expr)
            if "pragma_lines" not in text and not any(isinstance(sub, ast.Name) and _derived_from_pragma_lines(func, sub.id) for sub in ast.walk(iter_expr)):
                continue
            key_var = None
            if isinstance(target, ast.Name):
                key_var = target.id
            elif isinstance(target, ast.Tuple) and target.elts and isinstance(target.elts[0], ast.Name):
                key_var = target.elts[0].id
            if key_var:
                consumers.append((func, key_var, node))
    if len(consumers) < 3:
        raise AnalysisError(f"only {len(consumers)} loops over pragma_lines found (>= 3 confirmed)")
    # ordering the raw keys is using them as numbers: a sort / min / max over the table must decode the sign
    orderings = 0
    for func in prog.iter_functions():
        for node in walk_local(func.node):
            if not (isinstance(node, ast.Call) and (dotted(node.func) in ("sorted", "min", "max") or isinstance(node.func, ast.Attribute) and node.func.attr == "sort")):
                continue
            subject = node.args[0] if node.args and dotted(node.func) in ("sorted", "min", "max") else node.func.value if isinstance(node.func, ast.Attribute) else None
            if subject is None:
                continue
            if "pragma_lines" not in norm(subject) and not any(isinstance(sub, ast.Name) and _derived_from_pragma_lines(func, sub.id) for sub in ast.walk(subject)):
                continue
            orderings += 1
            key_arg = next((k.value for k in node.keywords if k.arg == "key"), None)
            decoded = key_arg is not None and (dotted(key_arg) == "abs" or any(isinstance(sub, ast.Call) and dotted(sub.func) == "abs" for sub in ast.walk(key_arg)))
            okey = func_key(func, node) + " [order]"
            if decoded:
                rule.ok(okey, "ordered by abs(key)")
            else:
                rule.fail(okey, where(func, node), f"'{norm(node)[:80]}' orders the sign-encoded pragma keys as plain numbers: the '<!---' pragmas (negative keys) come first whatever their line, so pragma lines are re-inserted / shifted in the wrong order")
    if orderings < 1:
        raise AnalysisError("no ordering of the pragma keys found (1 confirmed: the regenerator re-inserts pragma lines in line order)")
    seeds = [(func, var) for func, var, _ in consumers]
    tainted = _key_taint(prog, seeds)
    # R11h part: a table is never re-keyed entry by entry while a loop walks its keys (entries collide)
    mutating_methods = set()
    for method in token_cls.methods.values():
        for node in walk_local(method.node):
            if isinstance(node, ast.Delete) and any("pragma_lines" in norm(t) for t in node.targets):
                mutating_methods.add(method.name)
    for func, var, loop in consumers:
        body = loop.body if isinstance(loop, ast.For) else []
        for stmt in body:
            for node in ast.walk(stmt):
                rekeys = isinstance(node, ast.Delete) and any("pragma_lines" in norm(t) for t in node.targets)
                if isinstance(node, ast.Call) and isinstance(node.func, ast.Attribute) and node.func.attr in mutating_methods:
                    rekeys = True
                if rekeys:
                    rule.fail(f"{func.short}: re-keys pragma_lines inside a loop over it", where(func, node), "pragma entries are moved one at a time while the loop walks the same table: when two pragmas are exactly the shift apart one overwrites the other and a pragma line is lost from the fixed file")
    for qual, names in sorted(tainted.items()):
        func = prog.functions[qual]
        if func.cls is not None and func.cls == token_cls and "compose" in func.name:
            continue
        for var in sorted(names):
            uses_as_number = []
            decodes = []
            for node in walk_local(func.node):
                if isinstance(node, ast.Call) and dotted(node.func) == "abs" and node.args and isinstance(node.args[0], ast.Name) and node.args[0].id == var:
                    decodes.append(node)
                if isinstance(node, ast.UnaryOp) and isinstance(node.op, ast.USub) and isinstance(node.operand, ast.Name) and node.operand.id == var:
                    decodes.append(node)
                if isinstance(node, ast.Compare) and isinstance(node.left, ast.Name) and node.left.id == var and len(node.comparators) == 1:
                    other = node.comparators[0]
                    if isinstance(other, ast.Constant) and other.value == 0:
                        decodes.append(node)
                    elif not isinstance(node.ops[0], (ast.In, ast.NotIn, ast.Is, ast.IsNot)):
                        uses_as_number.append(node)
                if isinstance(node, ast.Compare) and any(isinstance(c, ast.Name) and c.id == var for c in node.comparators) and not isinstance(node.ops[0], (ast.In, ast.NotIn)):
                    if not (isinstance(node.left, ast.Constant) and node.left.value == 0):
                        uses_as_number.append(node)
                if isinstance(node, ast.BinOp) and isinstance(node.op, (ast.Sub, ast.Add)):
                    for side in (node.left, node.right):
                        if isinstance(side, ast.Name) and side.id == var:
                            uses_as_number.append(node)
                if isinstance(node, ast.Call) and (dotted(node.func) or "").endswith("find_nth_occurrence"):
                    if any(isinstance(sub, ast.Name) and sub.id == var for a in node.args for sub in ast.walk(a)) and not any(isinstance(sub, ast.Call) and dotted(sub.func) == "abs" for a in node.args for sub in ast.walk(a)):
                        uses_as_number.append(node)
            # arithmetic on a raw key must know its sign: under a test of the key against 0, or with an operand
            # that itself depends on that test ('delta if key > 0 else -delta')
            def sign_test(expr: ast.AST) -> bool:
                return any(
                    isinstance(sub, ast.Compare) and len(sub.comparators) == 1
                    and (isinstance(sub.left, ast.Name) and sub.left.id == var and isinstance(sub.comparators[0], ast.Constant) and sub.comparators[0].value == 0
                         or isinstance(sub.comparators[0], ast.Name) and sub.comparators[0].id == var and isinstance(sub.left, ast.Constant) and sub.left.value == 0)
                    for sub in ast.walk(expr)
                )

            blind = []
            for node in walk_local(func.node):
                arithmetic = None
                if isinstance(node, ast.AugAssign) and isinstance(node.op, (ast.Add, ast.Sub)) and isinstance(node.target, ast.Name) and node.target.id == var:
                    arithmetic = node.value
                elif isinstance(node, ast.BinOp) and isinstance(node.op, (ast.Add, ast.Sub)):
                    if isinstance(node.left, ast.Name) and node.left.id == var:
                        arithmetic = node.right
                    elif isinstance(node.right, ast.Name) and node.right.id == var:
                        arithmetic = node.left
                if arithmetic is None:
                    continue
                if sign_test(arithmetic) or any(sign_test(test) for test, _pol in guards_of(func.node, node, include_asserts=False)):
                    continue
                blind.append(node)
            if blind:
                rule.fail(f"{func.short}: pragma key '{var}' [arithmetic]", where(func, blind[0]), f"'{norm(blind[0])[:80]}' does arithmetic on '{var}', a pragma_lines key that is negative for the '<!---' prefix, without regard to its sign: such pragma lines move the wrong way")
                continue
            if not uses_as_number and not decodes:
                # passes the key on verbatim (as a dictionary key or argument): nothing to decode here
                rule.ok(f"{func.short}: '{var}' (passed on)", "not used as a number")
                continue
            key = f"{func.short}: pragma key '{var}'"
            bare_compare = [n for n in uses_as_number if isinstance(n, ast.Compare) or isinstance(n, ast.Call)]
            if not decodes:
                rule.fail(key, where(func, uses_as_number[0]), f"'{var}' holds a pragma_lines key (negative for the '<!---' prefix) and is used as a line number in '{norm(uses_as_number[0])}' without decoding the sign: such pragma lines are misplaced")
            elif bare_compare:
                rule.fail(key, where(func, bare_compare[0]), f"'{var}' is compared / located as a line number without abs() in '{norm(bare_compare[0])}'")
            else:
                rule.ok(key, f"{len(decodes)} decode idiom(s)")


def _key_taint(prog: Program, seeds: List[Tuple[FuncInfo, str]]) -> Dict[str, Set[str]]:
    """Names holding a raw (sign-encoded) key: loop variables over pragma_lines, parameters they are
    passed for, and unguarded local copies.  A copy made under a sign test of the source, or through
    abs()/negation, holds a decoded line number and is not a key any more."""
    tainted: Dict[str, Set[str]] = {}
    work: List[Tuple[FuncInfo, str]] = []
    for func, name in seeds:
        if name not in tainted.setdefault(func.qualname, set()):
            tainted[func.qualname].add(name)
            work.append((func, name))
    while work:
        func, var = work.pop()
        for node in walk_local(func.node):
            if isinstance(node, ast.Assign) and isinstance(node.value, ast.Name) and node.value.id == var:
                facts = [t for t, _ in guards_of(func.node, node)]
                sign_tested = any(
                    isinstance(t, ast.Compare) and isinstance(t.left, ast.Name) and t.left.id == var
                    and isinstance(t.comparators[0], ast.Constant) and t.comparators[0].value == 0
                    for t in facts
                )
                if sign_tested:
                    continue
                for target in node.targets:
                    if isinstance(target, ast.Name) and target.id not in tainted[func.qualname]:
                        tainted[func.qualname].add(target.id)
                        work.append((func, target.id))
        for site in prog.sites_in(func):
            if site.wild or not site.targets:
                continue
            for target in site.targets:
                bound = Program.bind_args(target, site.node, skip_self=target.kind in ("instance", "class"))
                for param, arg in bound.items():
                    if isinstance(arg, ast.Name) and arg.id == var and param not in tainted.setdefault(target.qualname, set()):
                        tainted[target.qualname].add(param)
                        work.append((target, param))
    return tainted


def _derived_from_pragma_lines(func: FuncInfo, name: str) -> bool:
    for node in walk_local(func.node):
        if isinstance(node, ast.Assign) and any(isinstance(t, ast.Name) and t.id == name for t in node.targets):
            if "pragma_lines" in norm(node.value):
                return True
    return False


def r11e(ctx: Context) -> None:
    prog = ctx.prog
    rule = ctx.rule("R11e", "pragma tables are emptied when a new file starts and per document in the parser", 3)
    starting = prog.method(PM, "starting_new_file")
    for field in ("__document_pragmas", "__document_pragma_ranges"):
        resets = [
            n for n in starting.node.body
            if isinstance(n, ast.Assign) and any(isinstance(t, ast.Attribute) and t.attr == field for t in n.targets)
            and isinstance(n.value, (ast.Dict, ast.List)) and not getattr(n.value, "keys", getattr(n.value, "elts", []))
        ]
        key = f"{starting.short}: {field}"
        if resets:
            rule.ok(key, "emptied unconditionally at the top of starting_new_file")
        else:
            rule.fail(key, where(starting), f"'{field}' is not emptied when a new file starts: pragmas of one file suppress failures in the next")
    block_pass = prog.method("pymarkdown.general.tokenized_markdown.TokenizedMarkdown", "__parse_blocks_pass")
    resets = [n for n in block_pass.node.body if isinstance(n, ast.Assign) and any(isinstance(t, ast.Attribute) and t.attr == "pragma_lines" for t in n.targets) and isinstance(n.value, ast.Dict) and not n.value.keys]
    key = f"{block_pass.short}: pragma_lines"
    if resets:
        rule.ok(key, "fresh dict per document")
    else:
        rule.fail(key, where(block_pass), "the parser does not start each document with an empty pragma_lines table")


def r11_table_writers(ctx: Context, rule_id: str = "R11i") -> None:
    """The suppression tables are written only by the per-file reset and by the pragma compiler."""
    prog = ctx.prog
    rule = ctx.rule(rule_id, "the pragma tables are written only at file start and by the pragma compiler", 3)
    manager = prog.cls(PM)
    fields = ("__document_pragmas", "__document_pragma_ranges")
    from sa.state import self_effects

    allowed = {"__init__", "starting_new_file"}
    for method in manager.methods.values():
        eff = self_effects(method)
        for name in fields:
            for node in eff.writes.get(name, []):
                key = f"{method.short}: writes {name}"
                if method.name in allowed:
                    rule.ok(key, "per-file reset")
                else:
                    rule.fail(key, where(method, node), f"{method.short} modifies the suppression table '{name}' ('{norm(node)[:70]}'): the table is shared by all rules, so what one rule's failure does to it changes which failures of other rules are reported")
    # the compiler receives the tables as arguments from compile_pragmas only
    for func in prog.iter_functions():
        if func.cls is not None and func.cls == manager:
            continue
        for node in walk_local(func.node):
            if isinstance(node, ast.Attribute) and node.attr.lstrip("_").startswith(("PluginManager__document_pragma", "document_pragma")) and "PluginManager" in node.attr:
                rule.fail(func_key(func, node), where(func, node), "the pragma tables are reached from outside the plugin manager")
    compiler = prog.method(PM, "compile_pragmas")
    passes = [n for n in walk_local(compiler.node) if isinstance(n, ast.Call) and any("document_pragma" in norm(a) for a in n.args)]
    if len(passes) == 1:
        rule.ok(func_key(compiler), "tables handed to compile_single_pragma only")
    else:
        rule.fail(func_key(compiler), where(compiler), f"the tables are handed out {len(passes)} times in compile_pragmas")


def r11f(ctx: Context) -> None:
    prog = ctx.prog
    rule = ctx.rule("R11f", "the recogniser runs only when the pragma extension is enabled", 1)
    recogniser = prog.method(PRAGMA_EXT, "look_for_pragmas")
    for site in prog.callers.get(recogniser.qualname, []):
        facts = [norm(t) for t, p in guards_of(site.caller.node, site.node) if p]
        key = func_key(site.caller, site.node)
        if any("is_pragmas_enabled" in f for f in facts):
            rule.ok(key, "under is_pragmas_enabled")
        else:
            rule.fail(key, site.where, "pragma lines are recognised even when the pragma extension is disabled")


def r11g(ctx: Context) -> None:
    prog = ctx.prog
    rule = ctx.rule("R11g", "every pragma either records a suppression or is reported as malformed", 4)
    # the compiler and every helper of the pragma extension that is handed the 'report a malformed pragma' callback
    entry = prog.method(PRAGMA_EXT, "compile_single_pragma")
    entry_log = next((p for p in entry.params if "Protocol" in ast.unparse(next(a.annotation for a in entry.node.args.args if a.arg == p) or ast.Constant(value=""))), None)  # type: ignore[attr-defined]
    if entry_log is None:
        raise AnalysisError("compile_single_pragma: the callback that reports a malformed pragma was not found among its parameters")
    log_carriers = forward_taint(prog, [(entry, entry_log)], any_expression=False)
    table_params = [a.arg for a in entry.node.args.args if a.annotation is not None and ast.unparse(a.annotation).startswith(("Dict[int", "List[Tuple"))]  # type: ignore[attr-defined]
    table_carriers: Dict[str, Set[str]] = {}
    for table in table_params:
        for qual, names in forward_taint(prog, [(entry, table)], any_expression=False).items():
            table_carriers.setdefault(qual, set()).update(names)
    compiler_funcs = [f for f in prog.cls(PRAGMA_EXT).methods.values() if log_carriers.get(f.qualname)]
    if len(compiler_funcs) < 3:
        raise AnalysisError(f"only {len(compiler_funcs)} functions of the pragma compiler receive the report callback (4 confirmed)")
    compiler_quals = {f.qualname for f in compiler_funcs}
    for func in sorted(compiler_funcs, key=lambda f: f.qualname):
        log_names = log_carriers.get(func.qualname, set())
        tables = table_carriers.get(func.qualname, set())
        returned_locals = {r.id for r in returns_of(func) if isinstance(r, ast.Name)}
        cfg = CFG(func.node, raising=lambda n: False)
        bad = None
        count = 0
        for path in enumerate_paths(cfg, loop_bound=2, budget=4000):
            if path[-1][0] != cfg.exit:
                continue
            # a loop over the result of str.split() runs at least once: drop zero-iteration paths
            entered: Set[int] = set()
            infeasible = False
            for nid, label in path:
                node = cfg.nodes[nid]
                if node.kind == "loop" and isinstance(node.ast_node, ast.For):
                    if label == "true":
                        entered.add(nid)
                    elif label == "false" and nid not in entered:
                        iter_text = norm(node.ast_node.iter)
                        sources = [norm(n.value) for n in walk_local(func.node) if isinstance(n, ast.Assign) and any(isinstance(t, ast.Name) and t.id == iter_text for t in n.targets)]
                        if ".split(" in iter_text or any(".split(" in src for src in sources):
                            infeasible = True
            if infeasible:
                continue
            count += 1
            acted = False
            explicit_ok = False
            for nid, _ in path:
                node = cfg.nodes[nid]
                if node.ast_node is None or node.kind not in ("stmt",):
                    continue
                stmt = node.ast_node
                for call in [c for c in ast.walk(stmt) if isinstance(c, ast.Call)]:
                    if isinstance(call.func, ast.Name) and call.func.id in log_names:
                        acted = True  # reported as malformed
                    site = site_for(prog, func, call)
                    if site and any(t.qualname in compiler_quals for t in site.targets):
                        acted = True  # handed on to a helper of the compiler, which is checked in its own right
                    if isinstance(call.func, ast.Attribute) and call.func.attr in ("append", "add", "update", "extend") and isinstance(call.func.value, ast.Name):
                        receiver = call.func.value.id
                        if receiver in tables:
                            acted = True  # recorded in a suppression table
                        elif receiver not in func.params:
                            acted = True  # a valid id was collected in a local; what becomes of it is checked by R11a / the caller
                if isinstance(stmt, ast.Assign) and isinstance(stmt.targets[0], ast.Subscript) and isinstance(stmt.targets[0].value, ast.Name) and stmt.targets[0].value.id in tables:
                    acted = True
                if isinstance(stmt, ast.Return) and stmt.value is not None and not (isinstance(stmt.value, ast.Constant) and not stmt.value.value):
                    carried = [n for n in ast.walk(stmt.value) if isinstance(n, ast.Name)]
                    flagged_ok = isinstance(stmt.value, ast.Tuple) and stmt.value.elts and isinstance(stmt.value.elts[0], ast.Constant) and stmt.value.elts[0].value is True
                    flagged_bad = isinstance(stmt.value, ast.Tuple) and stmt.value.elts and isinstance(stmt.value.elts[0], ast.Constant) and stmt.value.elts[0].value is False
                    if flagged_ok or (carried and not flagged_bad and func is not entry):
                        explicit_ok = True  # a parse helper handing its result to its caller, which goes on with it
            if not acted and not explicit_ok:
                bad = path
                break
        key = f"{func.short}: every path acts"
        if bad is not None:
            conds = [f"{norm(cfg.nodes[n].ast_node)}={label}" for n, label in bad if cfg.nodes[n].kind == "cond"]
            rule.fail(key, where(func), "a path through the pragma compiler neither records a suppression nor reports the pragma as malformed: the pragma is silently ignored", conds)
        else:
            rule.ok(key, f"{count} paths")
    # 'disable-num-lines N' with N < 1 is malformed (documented: a positive integer): the parse helper may report
    # success only under a test that excludes a count of 0
    from sa.rules.c17 import _evaluate_int_predicate

    parse = prog.method(PRAGMA_EXT, "__handle_disable_num_lines_parse")
    counts = {
        t.id for n in walk_local(parse.node) if isinstance(n, ast.Assign) and any(isinstance(c, ast.Call) and dotted(c.func) == "int" for c in ast.walk(n.value))
        for t in n.targets if isinstance(t, ast.Name)
    }
    successes = [
        r for r in returns_of(parse)
        if isinstance(r, ast.Tuple) and any(isinstance(e, ast.Name) and e.id in counts for e in r.elts)
        and not (r.elts and isinstance(r.elts[0], ast.Constant) and r.elts[0].value is False)
    ]
    if not counts or not successes:
        raise AnalysisError("disable-num-lines parse helper: count variable or success return not found")
    for ret in successes:
        returned = [e.id for e in ret.elts if isinstance(e, ast.Name) and e.id in counts]
        key = f"{parse.short}: count at least 1"
        if not returned:
            rule.fail(key, where(parse, ret), "the success result of the count parser no longer carries the parsed count")
            continue
        name = returned[0]
        ret_stmt = next(n for n in walk_local(parse.node) if isinstance(n, ast.Return) and n.value is ret)
        facts = guards_of(parse.node, ret_stmt, include_asserts=False)

        def admitted(value: int) -> bool:
            for test, polarity in facts:
                verdict = _evaluate_int_predicate(test, name, value)
                if verdict is not None and verdict != polarity:
                    return False
            return True

        if admitted(0) or admitted(-1) or not admitted(1) or not admitted(7):
            rule.fail(key, where(parse, ret_stmt), f"a count is accepted under {[('' if p else 'not ') + norm(t)[:50] for t, p in facts]}, which does not exclude {0 if admitted(0) else -1 if admitted(-1) else 'only valid counts'}: 'disable-num-lines 0' is taken as a valid pragma that suppresses nothing instead of being reported")
        else:
            rule.ok(key, "success is returned only when the count is at least 1")


def r11j(ctx: Context) -> None:
    """'A pragma removes the failures of exactly the named rules': the recogniser decides which lines are pragmas,
    the compiler cuts the command out of the recorded line.  The two must read the line the same way: what the
    recogniser strips before it looks for the closing sequence the compiler must strip before it cuts that
    sequence off, and every closing sequence the documentation allows must be cut off whole - otherwise the last
    rule id of a pragma that the recogniser accepted keeps a tail ('md009--') and the pragma names no rule."""
    prog = ctx.prog
    rule = ctx.rule("R11j", "recogniser and compiler of pragma lines agree on trailing whitespace and on the documented closing sequences", 2)
    recogniser = prog.method(PRAGMA_EXT, "look_for_pragmas")
    compiler = prog.method(PRAGMA_EXT, "compile_single_pragma")

    def normalisations(func: FuncInfo, expr: ast.AST, depth: int = 0) -> Set[str]:
        """string methods applied on the way from the recorded line to ``expr``"""
        found: Set[str] = set()
        if depth > 6:
            return found
        if isinstance(expr, ast.Call) and isinstance(expr.func, ast.Attribute):
            found.add(expr.func.attr)
            found |= normalisations(func, expr.func.value, depth + 1)
        elif isinstance(expr, ast.Subscript):
            found |= normalisations(func, expr.value, depth + 1)
        elif isinstance(expr, ast.Name):
            for node in walk_local(func.node):
                if isinstance(node, (ast.Assign, ast.AnnAssign)) and getattr(node, "value", None) is not None:
                    targets = node.targets if isinstance(node, ast.Assign) else [node.target]
                    if any(isinstance(t, ast.Name) and t.id == expr.id for t in targets):
                        found |= normalisations(func, node.value, depth + 1)
        return found

    def family(root: FuncInfo) -> List[FuncInfo]:
        """the function and the helpers of its class that it reaches (code extracted from it is still its code)"""
        return [root] + [prog.functions[q] for q in sorted(prog.reachable([root])) if prog.functions[q].cls == root.cls and prog.functions[q] != root]

    tests = [(f, n) for f in family(recogniser) if f != compiler for n in walk_local(f.node) if isinstance(n, ast.Call) and isinstance(n.func, ast.Attribute) and n.func.attr == "endswith" and n.args]
    if not tests:
        raise AnalysisError("look_for_pragmas: the test for the closing sequence was not found")
    accepted: Set[str] = set()
    recogniser_strips = False
    for holder, test in tests:
        for sub in ast.walk(test.args[0]):
            if isinstance(sub, ast.Constant) and isinstance(sub.value, str):
                accepted.add(sub.value)
        recogniser_strips = recogniser_strips or bool({"rstrip", "strip"} & normalisations(holder, test.func.value))
    cuts: List[Tuple[ast.AST, Optional[str], ast.AST]] = []  # (node, sequence cut off, text it is cut from)
    cut_holder: Dict[int, FuncInfo] = {}
    compiler_family = [f for f in family(compiler) if f not in family(recogniser) or f == compiler]
    for holder in compiler_family:
        for node in walk_local(holder.node):
            cut_holder[id(node)] = holder
            if isinstance(node, ast.Subscript) and isinstance(node.slice, ast.Slice) and node.slice.upper is not None:
                upper = node.slice.upper
                if isinstance(upper, ast.UnaryOp) and isinstance(upper.op, ast.USub):
                    sources = [upper.operand]
                    if isinstance(upper.operand, ast.Name):  # a length kept in a local
                        sources = [n.value for n in walk_local(holder.node) if isinstance(n, (ast.Assign, ast.AnnAssign)) and getattr(n, "value", None) is not None
                                   and any(isinstance(t, ast.Name) and t.id == upper.operand.id for t in (n.targets if isinstance(n, ast.Assign) else [n.target]))]
                    literals = [sub.value for source in sources for sub in ast.walk(source) if isinstance(sub, ast.Constant) and isinstance(sub.value, str)]
                    for literal in literals or [None]:
                        cuts.append((node, literal, node.value))
            if isinstance(node, ast.Call) and isinstance(node.func, ast.Attribute) and node.func.attr == "removesuffix" and node.args and isinstance(node.args[0], ast.Constant):
                cuts.append((node, node.args[0].value, node.func.value))
    # a chain of removesuffix calls cuts the innermost one first: a sequence that is the tail of a later one ('-->' before
    # '--->') takes part of it away, and the later one never matches
    for holder in compiler_family:
        for node in walk_local(holder.node):
            if isinstance(node, ast.Call) and isinstance(node.func, ast.Attribute) and node.func.attr == "removesuffix" and node.args and isinstance(node.args[0], ast.Constant):
                inner = node.func.value
                while isinstance(inner, ast.Call) and isinstance(inner.func, ast.Attribute):
                    if inner.func.attr == "removesuffix" and inner.args and isinstance(inner.args[0], ast.Constant):
                        first, later = inner.args[0].value, node.args[0].value
                        if isinstance(first, str) and isinstance(later, str) and later != first and later.endswith(first):
                            rule.fail(func_key(holder, node) + " [order of cuts]", where(holder, node), f"'{first}' is cut off before '{later}': of a line ending in '{later}' only '{first}' is removed, the rest ('{later[:-len(first)]}') stays on the last rule id, so the pragma names no rule")
                    inner = inner.func.value
    if not cuts:
        raise AnalysisError("compile_single_pragma: the place where the closing sequence is cut off was not found")
    compiler_strips = any({"rstrip", "strip"} & normalisations(cut_holder.get(id(node), compiler), text) for node, _literal, text in cuts)
    key = func_key(compiler) + ": trailing whitespace"
    if recogniser_strips and not compiler_strips:
        rule.fail(key, where(compiler, cuts[0][0]), f"the recogniser looks for the closing sequence after stripping trailing whitespace, the compiler cuts the last characters of the line as recorded ('{norm(cuts[0][0])[:70]}'): a pragma followed by a blank (allowed by the documentation and accepted by the recogniser) names the rule 'id--' and suppresses nothing")
    else:
        rule.ok(key, "both strip trailing whitespace before the closing sequence" if recogniser_strips else "neither strips")
    # the documented closing sequences
    doc = prog.source.read("newdocs/src/extensions/pragmas.md")
    documented: List[str] = []
    import re as _re

    # every comment-closing sequence the page shows in code spans (whatever the wording around them)
    documented = sorted(set(_re.findall(r"`(-{2,}>)`", doc)))
    if not documented:
        raise AnalysisError("pragmas.md: no closing sequence of a pragma comment is shown")
    handled = {literal for _node, literal, _text in cuts if literal} | {
        sub.value for holder in compiler_family for node in walk_local(holder.node) if isinstance(node, ast.Call) and isinstance(node.func, ast.Attribute) and node.func.attr == "endswith"
        for arg in node.args for sub in ast.walk(arg) if isinstance(sub, ast.Constant) and isinstance(sub.value, str)
    }
    for sequence in documented:
        key = func_key(compiler) + f": closing sequence {sequence}"
        if sequence in handled:
            rule.ok(key, "cut off whole")
        else:
            longest = max((h for h in handled if sequence.endswith(h)), key=len, default=None)
            rule.fail(key, where(compiler, cuts[0][0]), f"the documentation allows a pragma to end in '{sequence}' (the recogniser accepts it: it ends in '{longest or sorted(accepted)[0]}'), but the compiler only cuts {sorted(handled)}: the rest stays on the last rule id ('md009-'), so the pragma names no rule and suppresses nothing")


def run(ctx: Context) -> None:
    r11a(ctx)
    c07.r07d(ctx)
    ctx.rules[-1].rule_id = "R11a2"
    for finding in ctx.rules[-1].findings:
        finding.rule = "R11a2"
    r11b(ctx)
    r11c(ctx)
    r11d(ctx)
    r11e(ctx)
    r11f(ctx)
    r11g(ctx)
    r11_table_writers(ctx, "R11i")
    r11j(ctx)
