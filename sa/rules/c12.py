"""C12 — rules are independent: enabling or disabling one never changes another's reports."""

from __future__ import annotations

import ast
from typing import Dict, List, Optional, Set, Tuple

from sa.model import AnalysisError, ClassInfo, FuncInfo, Program, dotted, norm, walk_local
from sa.report import Context
from sa.rules import c14
from sa.rules.common import PM, RULE_PLUGIN
from sa.state import global_writes, self_effects, static_writes
from sa.util import func_key, site_for, where

EXPLANATION = (
    "Decides, from /repo's current source: R12a no function of a rule module or of plugins/utils writes a class-level "
    "attribute or a module global at run time (the same recogniser finds the parser's eleven written statics, so it "
    "is alive); R12b helper objects (trackers, managers, start-of-line parsers) are constructed inside the owning "
    "rule's __init__/starting_new_file and bound to an instance field — never a class attribute, module global or "
    "argument shared between rules; R12c every call from rule code to a method that mutates a token (55 mutators, "
    "computed as methods of token classes that store to self, transitively) has a receiver created in the same "
    "function by copy.deepcopy or a constructor, and rule code never assigns to a token attribute; rule code also "
    "never assigns to attributes of the shared scan context; R12d (=R14c) the dispatch tables agree four ways so each "
    "rule receives exactly its own callbacks; R12e no rule module refers to another rule's plugin class, and a "
    "helper class imported from another rule module is itself free of class-level state; R12f (=R14a) the life-cycle "
    "order holds whichever rules are enabled; R12g the pragma tables shared by all rules are written only when a file "
    "starts and when its pragmas are compiled, never while failures are reported. "
    "R12k (=R07m) no length guard admits the index it protects (a rule raising IndexError aborts the file's scan and the other rules' reports are lost); "
    "R12i (=R14k) a scan tokenizes whatever the enabled rules implement; R12j no rule reads the plugin manager (the set of enabled rules) through its context. Not decided: value-level interference through objects reachable from tokens that are shared by reference."
)
ASSUMPTIONS = ["rule code reaches tokens only through the callback arguments and its own fields (no global token registry exists: R12a)"]

MT = "pymarkdown.tokens.markdown_token.MarkdownToken"
PSC = "pymarkdown.plugin_manager.plugin_scan_context.PluginScanContext"


def plugin_code(func: FuncInfo) -> bool:
    return func.rel.startswith("pymarkdown/plugins/")


def r12a(ctx: Context) -> None:
    prog = ctx.prog
    rule = ctx.rule("R12a", "rule code writes no class-level or module-level state at run time", 8)
    writes = static_writes(prog)
    fixture = 0
    for write in writes:
        key = f"{write.func.short}: {write.cls.name}.{write.attr} [{write.kind}]"
        if plugin_code(write.func) or write.cls.module.rel.startswith("pymarkdown/plugins/"):
            rule.fail(key, where(write.func, write.node), f"rule code writes class-level state '{write.cls.name}.{write.attr}' ('{norm(write.node)[:80]}'): the value is shared by every instance and every file, so one rule's activity can change another's reports")
        else:
            fixture += 1
            rule.ok(key, "parser-side static (decided under C13)")
    if fixture < 8:
        raise AnalysisError(f"the static-write recogniser found only {fixture} parser statics (11 confirmed): it is not alive")
    for func, node, name in global_writes(prog):
        if plugin_code(func):
            rule.fail(f"{func.short}: global {name}", where(func, node), f"rule code writes the module global '{name}'")
    # class attributes of rule / helper classes holding mutable containers are suspicious only when mutated: covered above
    rule.ok("plugins: module globals", "no 'global' statement or mutation of a module-level name in rule code")


def helper_classes(prog: Program) -> List[ClassInfo]:
    base = prog.cls(RULE_PLUGIN)
    out = []
    for cls in prog.classes.values():
        if not cls.module.rel.startswith("pymarkdown/plugins/"):
            continue
        if base in cls.mro:
            continue
        if cls.ext_base_names() & {"enum.Enum", "Enum"} or cls.is_dataclass:
            continue
        if any(m.kind in ("instance",) and m.name != "__init__" for m in cls.methods.values()) and "__init__" in cls.methods:
            out.append(cls)
    return out


def r12b(ctx: Context) -> None:
    prog = ctx.prog
    rule = ctx.rule("R12b", "stateful helper objects are constructed by, and private to, one rule instance", 8)
    base = prog.cls(RULE_PLUGIN)
    helpers = helper_classes(prog)
    stateful = []
    for cls in helpers:
        has_state = any(self_effects(m).writes for m in cls.methods.values() if m.name != "__init__")
        if has_state:
            stateful.append(cls)
    if len(stateful) < 3:
        raise AnalysisError(f"only {len(stateful)} stateful helper classes found in plugins (>= 3 confirmed)")
    for func in prog.iter_functions():
        for site in prog.sites_in(func):
            ctor = [t for t in site.targets if t.name == "__init__" and t.cls in stateful]
            if not ctor or (func.cls is not None and func.cls in stateful and isinstance(site.node.func, ast.Attribute) and isinstance(site.node.func.value, ast.Call)):
                continue
            if isinstance(site.node.func, ast.Attribute) and isinstance(site.node.func.value, ast.Call) and dotted(site.node.func.value.func) == "super":
                continue
            if isinstance(site.node.func, ast.Attribute) and site.node.func.attr == "__init__":
                continue  # explicit base-class initialiser call
            helper = ctor[0].cls
            if not plugin_code(func):
                continue  # a parser function using a tracker as a local object is not rule state
            key = func_key(func, site.node)
            owner_ok = func.cls is not None and base in func.cls.mro and func.name in ("__init__", "starting_new_file")
            bound_to_field = False
            for node in walk_local(func.node):
                if isinstance(node, (ast.Assign, ast.AnnAssign)) and getattr(node, "value", None) is site.node:
                    targets = node.targets if isinstance(node, ast.Assign) else [node.target]
                    bound_to_field = all(isinstance(t, ast.Attribute) and isinstance(t.value, ast.Name) and t.value.id == (func.params[0] if func.params else "") for t in targets)
            if owner_ok and bound_to_field:
                rule.ok(key, f"{helper.name} constructed in {func.short} and stored on self")
            elif func.cls is not None and func.cls in stateful and bound_to_field:
                rule.ok(key, f"{helper.name} nested inside helper {func.cls.name}")
            else:
                rule.fail(key, site.where, f"stateful helper {helper.name} is constructed in {func.short} and not bound to a field of one rule instance: its state can be shared between rules or files")
    # helpers held in class attributes / module globals
    for cls in prog.classes.values():
        if not cls.module.rel.startswith("pymarkdown/plugins/"):
            continue
        for attr, value in cls.class_attrs.items():
            if isinstance(value, ast.Call):
                typ = prog.infer(prog._module_holder(cls.module), value)
                if typ and typ[0] == "cls" and typ[1] in stateful:
                    rule.fail(f"{cls.name}.{attr}", f"{cls.module.rel}:{value.lineno}", f"class attribute '{cls.name}.{attr}' holds a stateful helper shared by all instances")
    for module in prog.modules.values():
        if not module.rel.startswith("pymarkdown/plugins/"):
            continue
        for name, value in module.globals.items():
            if isinstance(value, ast.Call):
                typ = prog.infer(prog._module_holder(module), value)
                if typ and typ[0] == "cls" and typ[1] in stateful:
                    rule.fail(f"{module.name}.{name}", f"{module.rel}:{value.lineno}", f"module global '{name}' holds a stateful helper shared by every rule that imports it")


def token_mutators(prog: Program) -> Set[str]:
    base = prog.cls(MT)
    classes = [base] + base.all_subclasses()
    mutators: Set[str] = set()
    for cls in classes:
        for method in cls.methods.values():
            if method.name == "__init__":
                continue
            if self_effects(method).writes:
                mutators.add(method.qualname)
    changed = True
    while changed:
        changed = False
        for cls in classes:
            for method in cls.methods.values():
                if method.qualname in mutators or method.name == "__init__" or not method.params:
                    continue
                for site in prog.sites_in(method):
                    node = site.node
                    if isinstance(node.func, ast.Attribute) and isinstance(node.func.value, ast.Name) and node.func.value.id == method.params[0] and any(t.qualname in mutators for t in site.targets):
                        mutators.add(method.qualname)
                        changed = True
    return mutators


def _fresh_receiver(prog: Program, func: FuncInfo, receiver: ast.AST) -> bool:
    if not isinstance(receiver, ast.Name):
        return False
    defs = []
    for node in walk_local(func.node):
        if isinstance(node, (ast.Assign, ast.AnnAssign)) and getattr(node, "value", None) is not None:
            targets = node.targets if isinstance(node, ast.Assign) else [node.target]
            for target in targets:
                for tgt, value, _ in Program._unpack(target, node.value):
                    if isinstance(tgt, ast.Name) and tgt.id == receiver.id:
                        defs.append(value)
    if not defs or receiver.id in func.params:
        return False
    for value in defs:
        inner = value
        if isinstance(inner, ast.Call) and dotted(inner.func) == "cast" and len(inner.args) == 2:
            inner = inner.args[1]
        if isinstance(inner, ast.Call):
            name = dotted(inner.func) or ""
            if name in ("copy.deepcopy", "deepcopy", "copy.copy"):
                continue
            typ = prog.infer(func, inner.func)
            if typ and typ[0] == "type":
                continue
            # a repo function that itself returns a fresh copy
            site = site_for(prog, func, inner)
            if site and site.targets and all(_returns_fresh(prog, t) for t in site.targets):
                continue
        if isinstance(inner, ast.Name) and _fresh_receiver(prog, func, inner):
            continue
        return False
    return True


def _returns_fresh(prog: Program, func: FuncInfo) -> bool:
    from sa.util import returns_of

    rets = returns_of(func)
    if not rets:
        return False
    for ret in rets:
        if isinstance(ret, ast.Call):
            name = dotted(ret.func) or ""
            typ = prog.infer(func, ret.func)
            if name in ("copy.deepcopy", "deepcopy") or (typ and typ[0] == "type"):
                continue
        if isinstance(ret, ast.Name) and _fresh_receiver(prog, func, ret):
            continue
        return False
    return True


def fix_only(prog: Program, func: FuncInfo, seen: Optional[Set[str]] = None) -> bool:
    """Is ``func`` only ever entered with ``context.in_fix_mode`` true (all call sites guarded, transitively)?"""
    from sa.util import guards_of

    seen = seen or set()
    if func.qualname in seen:
        return True
    seen = seen | {func.qualname}
    callers = prog.callers.get(func.qualname, [])
    if not callers:
        return False
    for site in callers:
        facts = [norm(t) for t, pol in guards_of(site.caller.node, site.node) if pol]
        if any(f.endswith("in_fix_mode") for f in facts):
            continue
        if site.caller.cls is not None and site.caller.cls == func.cls and fix_only(prog, site.caller, seen):
            continue
        return False
    return True


def r12c(ctx: Context) -> None:
    prog = ctx.prog
    rule = ctx.rule("R12c", "rule code mutates only tokens it created itself; never the shared context's attributes", 8)
    mutators = token_mutators(prog)
    if len(mutators) < 40:
        raise AnalysisError(f"only {len(mutators)} token mutators computed (55 confirmed)")
    token_base = prog.cls(MT)
    context_cls = prog.cls(PSC)
    for func in prog.iter_functions("pymarkdown.plugins."):
        for site in prog.sites_in(func):
            hit = [t for t in site.targets if t.qualname in mutators]
            if not hit or not isinstance(site.node.func, ast.Attribute):
                continue
            receiver = site.node.func.value
            key = func_key(func, site.node)
            from sa.util import guards_of

            local_fix = any(norm(t).endswith("in_fix_mode") for t, pol in guards_of(func.node, site.node) if pol)
            if _fresh_receiver(prog, func, receiver):
                rule.ok(key, f"receiver '{norm(receiver)}' is a local copy / new token")
            elif local_fix or fix_only(prog, func):
                rule.ok(key, "only executed in fix mode (the property is about scan mode; fix mode edits tokens by design)")
            else:
                rule.fail(key, site.where, f"rule code calls the token mutator {hit[0].short} on '{norm(receiver)}', which is not a token created in this function: the token stream every other rule sees is changed")
        for node in walk_local(func.node):
            targets: List[ast.AST] = []
            if isinstance(node, ast.Assign):
                targets = list(node.targets)
            elif isinstance(node, (ast.AugAssign, ast.AnnAssign)):
                targets = [node.target]
            elif isinstance(node, ast.Delete):
                targets = list(node.targets)
            for target in targets:
                base = target
                while isinstance(base, ast.Subscript):
                    base = base.value
                if not isinstance(base, ast.Attribute):
                    continue
                owner = prog.infer(func, base.value)
                if owner and owner[0] == "cls" and token_base in owner[1].mro:
                    if not _fresh_receiver(prog, func, base.value):
                        rule.fail(func_key(func, node), where(func, node), f"rule code assigns to the token attribute '{norm(base)}'")
                if owner and owner[0] == "cls" and owner[1] == context_cls:
                    rule.fail(func_key(func, node), where(func, node), f"rule code assigns to '{norm(base)}' on the scan context shared by all rules")
    rule.note(f"{len(mutators)} token mutators")
    _token_containers(ctx, rule, token_base)
    _context_writers(ctx, rule, context_cls)


CONTAINER_MUTATORS = {"append", "extend", "insert", "pop", "remove", "clear", "sort", "reverse", "update", "setdefault", "popitem", "add", "discard"}


def _token_containers(ctx: Context, rule, token_base: ClassInfo) -> None:
    """Containers handed out by a token (``token.matter_map``, ``token.leading_spaces`` ...) are part
    of the token every rule sees: rule code may read them, copy them, but not change them in scan mode."""
    from sa.util import guards_of

    prog = ctx.prog

    def token_rooted(func: FuncInfo, expr: ast.AST) -> bool:
        """an attribute / element chain that starts at a token-typed value which this function did not create"""
        node = expr
        seen_attribute = False
        while isinstance(node, (ast.Attribute, ast.Subscript)):
            if isinstance(node, ast.Attribute):
                owner = prog.infer(func, node.value)
                if owner and owner[0] == "cls" and token_base in owner[1].mro and not _fresh_receiver(prog, func, node.value):
                    return True
                seen_attribute = True
            node = node.value
        _ = seen_attribute
        return False

    for func in prog.iter_functions("pymarkdown.plugins."):
        aliases: Dict[str, ast.AST] = {}
        for node in walk_local(func.node):
            if isinstance(node, (ast.Assign, ast.AnnAssign)) and getattr(node, "value", None) is not None:
                targets = node.targets if isinstance(node, ast.Assign) else [node.target]
                value = node.value
                if isinstance(value, ast.Call) and dotted(value.func) == "cast" and len(value.args) == 2:
                    value = value.args[1]
                for target in targets:
                    if isinstance(target, ast.Name) and token_rooted(func, value):
                        typ = prog.infer(func, value)
                        if typ is None or typ[0] in ("list", "dict", "set"):
                            aliases[target.id] = value
        if not aliases and not any(isinstance(n, (ast.Delete, ast.Call, ast.Assign, ast.AugAssign)) for n in walk_local(func.node)):
            continue

        def shared(expr: ast.AST) -> Optional[str]:
            base = expr
            while isinstance(base, ast.Subscript):
                base = base.value
            if isinstance(base, ast.Name) and base.id in aliases:
                return f"{base.id} (= {norm(aliases[base.id])})"
            if isinstance(base, ast.Attribute) and token_rooted(func, base):
                typ = prog.infer(func, base)
                if typ is None or typ[0] in ("list", "dict", "set"):
                    return norm(base)
            return None

        only_fix = None
        for node in walk_local(func.node):
            victims: List[Tuple[ast.AST, str]] = []
            if isinstance(node, ast.Delete):
                victims = [(t, "deletes from") for t in node.targets if isinstance(t, ast.Subscript)]
            elif isinstance(node, ast.Assign):
                victims = [(t, "stores into") for t in node.targets if isinstance(t, ast.Subscript)]
            elif isinstance(node, ast.AugAssign) and isinstance(node.target, ast.Subscript):
                victims = [(node.target, "updates an element of")]
            elif isinstance(node, ast.Call) and isinstance(node.func, ast.Attribute) and node.func.attr in CONTAINER_MUTATORS:
                victims = [(node.func.value, f"calls .{node.func.attr}() on")]
            for victim, verb in victims:
                what = shared(victim.value if isinstance(victim, ast.Subscript) and verb != f"calls .{getattr(getattr(node, 'func', None), 'attr', '')}() on" else victim)
                if what is None:
                    continue
                key = func_key(func, node) + " [token container]"
                local_fix = any(norm(t).endswith("in_fix_mode") for t, pol in guards_of(func.node, node) if pol)
                if only_fix is None:
                    only_fix = fix_only(prog, func)
                if local_fix or only_fix:
                    rule.ok(key, "only executed in fix mode")
                else:
                    rule.fail(key, where(func, node), f"rule code {verb} '{what}', a container owned by a token of the shared stream: rules that run after this one see a different token (their reports depend on whether this rule is enabled)")


def _context_writers(ctx: Context, rule, context_cls: ClassInfo) -> None:
    """The scan context is shared by all rules of a pass.  In scan mode the only thing a rule may
    do to it is report (add_triggered_rule); the fix registrations / current-line setters are
    consulted by the dispatcher for *later* rules and must be reached in fix mode only."""
    from sa.state import self_effects
    from sa.util import guards_of

    prog = ctx.prog
    reporter = context_cls.methods.get("report_on_triggered_rules")
    if reporter is None:
        raise AnalysisError("anchor method not found: PluginScanContext.report_on_triggered_rules")
    report_fields = set(self_effects(reporter).writes)
    # context fields the dispatchers consult on code that also runs in scan mode
    manager = prog.cls(PM)
    visible: Set[str] = set()
    work = [manager.methods[name] for name in ("starting_new_file", "next_token", "next_line", "completed_file") if name in manager.methods]
    if len(work) != 4:
        raise AnalysisError("the four dispatchers of the plugin manager were not found")
    seen_funcs: Set[str] = set()
    while work:
        current = work.pop()
        if current.qualname in seen_funcs:
            continue
        seen_funcs.add(current.qualname)
        for node in walk_local(current.node):
            if isinstance(node, ast.Attribute) and node.attr in context_cls.methods:
                owner = prog.infer(current, node.value)
                if owner and owner[0] == "cls" and owner[1] == context_cls:
                    if any(norm(t).endswith("in_fix_mode") for t, pol in guards_of(current.node, node) if pol):
                        continue
                    visible |= set(self_effects(context_cls.methods[node.attr]).reads)
        for site in prog.sites_in(current):
            if any(norm(t).endswith("in_fix_mode") for t, pol in guards_of(current.node, site.node) if pol):
                continue
            work.extend(t for t in site.targets if t.cls == manager and t.qualname not in seen_funcs)
    visible -= report_fields
    fix_flag = set(self_effects(context_cls.methods["in_fix_mode"]).reads) if "in_fix_mode" in context_cls.methods else set()
    visible -= fix_flag
    if not visible:
        raise AnalysisError("no context field is consulted by the dispatchers outside fix mode (current_fix_line confirmed)")
    rule.note(f"context fields the dispatchers read on scan-mode paths: {sorted(visible)}")
    writers: Dict[str, Set[str]] = {}
    for name, method in context_cls.methods.items():
        if name == "__init__" or method is reporter:
            continue
        written = set(self_effects(method).writes) & visible
        if written:
            writers[method.qualname] = written
    if not writers:
        raise AnalysisError("no method of the scan context writes a field the dispatchers consult")
    # helpers of the plugin base class that forward to them (RulePlugin.register_fix_token_request ...)
    base = prog.cls(RULE_PLUGIN)
    for _round in range(3):
        for method in base.methods.values():
            if method.qualname in writers:
                continue
            for site in prog.sites_in(method):
                hit = [t for t in site.targets if t.qualname in writers]
                if hit and not any(norm(t).endswith("in_fix_mode") for t, pol in guards_of(method.node, site.node) if pol):
                    writers[method.qualname] = writers[hit[0].qualname]
    sites = 0
    fix_cache: Dict[str, bool] = {}
    for func in prog.iter_functions("pymarkdown.plugins."):
        for site in prog.sites_in(func):
            hit = [t for t in site.targets if t.qualname in writers]
            if not hit:
                continue
            sites += 1
            key = func_key(func, site.node) + " [context state]"
            local_fix = any(norm(t).endswith("in_fix_mode") for t, pol in guards_of(func.node, site.node) if pol)
            if func.qualname not in fix_cache:
                fix_cache[func.qualname] = fix_only(prog, func)
            if local_fix or fix_cache[func.qualname]:
                rule.ok(key, "only executed in fix mode")
            else:
                rule.fail(key, site.where, f"rule code calls {hit[0].short}, which writes {sorted(writers[hit[0].qualname])} on the scan context shared with the rules that run after it, outside fix mode: in scan mode the dispatcher then hands later rules a different line / token")
    if sites < 3:
        raise AnalysisError(f"only {sites} calls from rule code to context methods that write dispatcher-visible state found (3 confirmed: MD009, MD010, MD047)")


def r12e(ctx: Context) -> None:
    prog = ctx.prog
    rule = ctx.rule("R12e", "rule modules do not refer to each other's plugin classes", 40)
    base = prog.cls(RULE_PLUGIN)
    rule_classes = {c.qualname: c for c in base.all_subclasses() if c.module.rel.startswith("pymarkdown/plugins/")}
    for module in sorted(prog.modules.values(), key=lambda m: m.name):
        if not module.rel.startswith("pymarkdown/plugins/rule_") and not module.rel.startswith("pymarkdown/plugins/plugin_"):
            continue
        problems = []
        cross_helpers = []
        for alias, target in module.imports.items():
            found = prog.lookup_qualified(target)
            if not found or found[0] != "class":
                continue
            cls = found[1]
            if cls.qualname in rule_classes and cls.module != module:
                problems.append(f"imports the plugin class {cls.name} of {cls.module.rel}")
            elif cls.module.rel.startswith("pymarkdown/plugins/rule_") and cls.module != module:
                cross_helpers.append(cls)
        key = module.rel
        if problems:
            rule.fail(key, module.rel, "; ".join(problems) + ": one rule depends on another rule's instance or state")
            continue
        for cls in cross_helpers:
            statics = [w for w in static_writes(prog) if w.cls == cls]
            if statics:
                rule.fail(f"{module.rel}: {cls.name}", module.rel, f"helper {cls.name} imported from another rule module has class-level state written at run time")
        rule.ok(key, "no reference to another rule's plugin class" + (f"; shares stateless helper(s) {[c.name for c in cross_helpers]}" if cross_helpers else ""))


def r12j(ctx: Context) -> None:
    """'What a rule reports does not depend on which other rules are enabled': a rule learns about the run through the
    context it is handed (the file, the mode, the line) - never about the other rules.  The context carries a
    reference to the plugin manager for its own reporting; rule code that reads it (the lists of enabled / registered
    plugins, the id table) can make its verdict depend on the rule set."""
    prog = ctx.prog
    rule = ctx.rule("R12j", "no rule reads the plugin manager (the set of enabled rules) through its context", 40)
    base = prog.cls(RULE_PLUGIN)
    forbidden = {"owning_manager", "enabled_plugins", "registered_plugins", "all_plugin_ids"}
    for cls in sorted(base.all_subclasses(), key=lambda c: c.qualname):
        if not cls.module.rel.startswith("pymarkdown/plugins/"):
            continue
        hits = [(m, n) for m in cls.methods.values() for n in walk_local(m.node) if isinstance(n, ast.Attribute) and n.attr in forbidden]
        key = f"{cls.name}: manager access"
        if hits:
            method, node = hits[0]
            rule.fail(key, where(method, node), f"{method.short} reads '{norm(node)[:60]}': the rule asks the plugin manager about the other rules, so what it reports depends on which rules are enabled")
        else:
            rule.ok(key, "reads only its own context")


def run(ctx: Context) -> None:
    r12a(ctx)
    r12b(ctx)
    r12c(ctx)
    c14.r14c(ctx, "R12d")
    # what one rule sees must not depend on which other rules are enabled: the token pass runs whatever they implement
    c14.r14_tokenizer_calls(ctx, "R12i")
    r12e(ctx)
    r12j(ctx)
    from sa.rules import c07

    # a rule that raises inside a callback aborts the file's scan: the other rules' reports for that file are lost
    c07.length_guard_admits_index(ctx, "R12k")
    from sa.raises import RaiseAnalysis

    # a rule's callbacks must not depend on which other rules are enabled: the life-cycle order holds
    # whatever the dispatch lists contain, and the shared pragma tables are read-only while reporting
    c14.r14ab(ctx, RaiseAnalysis(ctx.prog))
    ctx.rules[-1].rule_id = "R12f"
    for finding in ctx.rules[-1].findings:
        finding.rule = "R12f"
    from sa.rules import c11

    c11.r11_table_writers(ctx, "R12g")
    from sa.rules import c17

    # a rule is enabled and configured from its own sections only (id and names): one rule's section never decides another's
    c17.r17b(ctx)
    ctx.rules[-1].rule_id = "R12h"
    for finding in ctx.rules[-1].findings:
        finding.rule = "R12h"
