"""C13 — results for a file do not depend on which files were processed before it."""

from __future__ import annotations

import ast
from typing import Dict, List, Optional, Set, Tuple

from sa.cfg import CFG
from sa.model import AnalysisError, ClassInfo, FuncInfo, Program, dotted, norm, walk_local
from sa.report import Context, Rule
from sa.rules.common import FSH, MAIN, PM, RULE_PLUGIN
from sa.state import method_closure, self_effects, static_writes
from sa.triage import C13_FIELDS, C13_MANAGER_FIELDS, C13_STATICS
from sa.util import func_key, guards_of, returns_of, site_for, where

EXPLANATION = (
    "Decides, from /repo's current source: R13a every class-level (static) attribute of the parser that some "
    "function writes at run time is re-assigned by an initialiser that TokenizedMarkdown.__transform calls "
    "unconditionally before the block pass (four process-wide exceptions are named with reasons); R13b for each of "
    "the rule plugins and, recursively, their helper objects, every field written or mutated in the closure of "
    "next_token/next_line/completed_file is assigned, cleared or replaced in the closure of starting_new_file "
    "(thirteen fields that are emptied when their construct closes are named one by one with reasons); R13c the "
    "plugin manager and the tokenizer re-create their per-document containers per file/document and a fresh scan "
    "context is built per file; R13d ReturnCodeHelper.reset() and the failure counters are reset on entry of every "
    "main, and every API operation runs on a newly constructed application object. "
    "R13g (=R14n) the dispatch lists are never changed while files are processed. R13h no method of a rule or of a rule helper is memoised across files. Not decided: value-level leaks through objects shared by reference that are not fields of these classes."
)
ASSUMPTIONS = [
    "the named exceptions in sa/triage.py were confirmed by reading the code: each field is emptied when its construct "
    "closes, so it is quiescent at the end of any balanced token stream (C04)",
]

TM = "pymarkdown.general.tokenized_markdown.TokenizedMarkdown"
PSC = "pymarkdown.plugin_manager.plugin_scan_context.PluginScanContext"


def r13a(ctx: Context) -> None:
    prog = ctx.prog
    rule = ctx.rule("R13a", "parser statics written at run time are re-initialised per document", 8)
    block_pass = prog.method(TM, "__parse_blocks_pass")
    # the function of the tokenizer that runs the passes (the one that calls the block pass directly)
    runners = sorted({s.caller for s in prog.callers.get(block_pass.qualname, []) if s.caller.cls is not None and s.caller.cls.qualname == TM}, key=lambda f: f.qualname)
    if len(runners) != 1:
        raise AnalysisError(f"the block pass is called from {len(runners)} functions of the tokenizer")
    transform = runners[0]
    # initialisers called unconditionally (top level of the try body) before the block pass
    uncond: List[FuncInfo] = []
    body = transform.node.body
    stmts: List[ast.stmt] = []
    for stmt in body:
        if isinstance(stmt, ast.Try):
            stmts.extend(stmt.body)
        else:
            stmts.append(stmt)
    reached_pass = False
    for stmt in stmts:
        for call in [c for c in ast.walk(stmt) if isinstance(c, ast.Call)]:
            site = site_for(prog, transform, call)
            if site and block_pass in site.targets:
                reached_pass = True
        if reached_pass:
            break
        if isinstance(stmt, ast.Expr) and isinstance(stmt.value, ast.Call):
            site = site_for(prog, transform, stmt.value)
            if site and site.targets and not site.dynamic:
                uncond.extend(site.targets)
    if not reached_pass:
        raise AnalysisError("__transform no longer calls the block pass")
    # closure of the unconditional initialisers, following only unconditional calls
    init_closure: List[FuncInfo] = []
    work = list(uncond)
    while work:
        func = work.pop()
        if func in init_closure:
            continue
        init_closure.append(func)
        for stmt in func.node.body:
            if isinstance(stmt, ast.Expr) and isinstance(stmt.value, ast.Call):
                site = site_for(prog, func, stmt.value)
                if site and site.targets and not site.dynamic:
                    work.extend(site.targets)
    killed: Set[Tuple[str, str]] = set()
    for func in init_closure:
        for stmt in func.node.body:  # unconditional statements only
            if isinstance(stmt, (ast.Assign, ast.AnnAssign)):
                targets = stmt.targets if isinstance(stmt, ast.Assign) else [stmt.target]
                for target in targets:
                    if isinstance(target, ast.Attribute):
                        owner = prog.infer(func, target.value)
                        if owner and owner[0] == "type":
                            killed.add((owner[1].qualname, target.attr))
    writes = static_writes(prog)
    by_attr: Dict[Tuple[str, str], List] = {}
    for write in writes:
        if write.cls.module.rel.startswith(("pymarkdown/plugins/", "pymarkdown/extensions/")):
            continue
        by_attr.setdefault((write.cls.qualname, write.attr), []).append(write)
    for (cls_qual, attr), items in sorted(by_attr.items()):
        cls_name = cls_qual.split(".")[-1]
        key = f"{cls_name}.{attr}"
        writers = sorted({w.func.short for w in items})
        if key in C13_STATICS:
            rule.ok(key, f"named process-wide state: {C13_STATICS[key]}")
            continue
        if (cls_qual, attr) in killed:
            rule.ok(key, f"re-assigned per document by an initialiser __transform calls unconditionally (writers: {writers})")
        else:
            first = items[0]
            rule.fail(key, where(first.func, first.node), f"static '{key}' is written at run time by {writers} but no initialiser that __transform calls unconditionally before the block pass re-assigns it: what one document leaves there is visible to the next")
    rule.note(f"initialisers: {[f.short for f in init_closure]}")


def _helper_class(prog: Program, typ) -> Optional[ClassInfo]:
    if typ and typ[0] == "cls" and typ[1].module.rel.startswith("pymarkdown/plugins/"):
        base = prog.cls(RULE_PLUGIN)
        if base not in typ[1].mro:
            return typ[1]
    return None


def definite_effects(prog: Program, cls: ClassInfo, method: FuncInfo, object_fields: Set[str], stop: Optional[ClassInfo], seen: Set[str]) -> Set[str]:
    """Fields assigned / cleared, and helper calls made, on every normal path through ``method``
    (forward must-analysis over its CFG; ``self.m()`` contributes m's definite effects)."""
    if method.qualname in seen or not method.params or method.kind not in ("instance",):
        return set()
    seen = seen | {method.qualname}
    me = method.params[0]
    cfg = CFG(method.node, raising=lambda n: False)
    gen: Dict[int, Set[str]] = {}
    for node in cfg.nodes:
        facts: Set[str] = set()
        stmt = node.ast_node
        if stmt is not None and node.kind in ("stmt", "with"):
            holder = ast.FunctionDef(name=method.name, args=method.node.args, body=[stmt] if isinstance(stmt, ast.stmt) else [ast.Expr(value=stmt)], decorator_list=[], lineno=getattr(stmt, "lineno", 1), col_offset=0)
            pseudo = FuncInfo(name=method.name, qualname=method.qualname + "#stmt", node=holder, module=method.module, cls=method.cls, kind="instance", params=list(method.params))
            if isinstance(stmt, (ast.If, ast.For, ast.While, ast.Try, ast.With)):
                eff = None
            else:
                eff = self_effects(pseudo, object_fields)
            if eff is not None:
                facts |= set(eff.kills)
                for name, called, _ in eff.calls:
                    facts.add(f"call:{name}:{called}")
                for sub in ast.walk(stmt):
                    if isinstance(sub, ast.Call) and isinstance(sub.func, ast.Attribute) and isinstance(sub.func.value, ast.Name) and sub.func.value.id == me:
                        callee = cls.find_method(sub.func.attr)
                        if callee is not None and callee.cls is not None and callee.cls != stop:
                            facts |= definite_effects(prog, cls, callee, object_fields, stop, seen)
        gen[node.nid] = facts
    reachable = set(cfg.reachable_from([cfg.entry], labels={"next", "true", "false"}).keys())
    universe: Set[str] = set()
    for facts in gen.values():
        universe |= facts
    out: Dict[int, Set[str]] = {nid: set(universe) for nid in reachable}
    out[cfg.entry] = set()
    changed = True
    while changed:
        changed = False
        for nid in sorted(reachable):
            if nid == cfg.entry:
                continue
            preds = [p for p, label in cfg.pred[nid] if p in reachable and label != "exc"]
            incoming = set(universe)
            for pred in preds:
                incoming &= out[pred]
            if not preds:
                incoming = set()
            new = incoming | gen.get(nid, set())
            if new != out[nid]:
                out[nid] = new
                changed = True
    return out.get(cfg.exit, set())


def unreset_fields(prog: Program, cls: ClassInfo, run_roots: List[str], kill_roots: List[str], stop: Optional[ClassInfo],
                   depth: int = 0, seen: Optional[Set[str]] = None) -> List[Tuple[ClassInfo, str, FuncInfo, ast.AST]]:
    seen = seen or set()
    mark = f"{cls.qualname}|{sorted(run_roots)}|{sorted(kill_roots)}"
    if mark in seen or depth > 3:
        return []
    seen = seen | {mark}
    run = method_closure(prog, cls, run_roots, stop_at=stop)
    kill = method_closure(prog, cls, kill_roots, stop_at=stop)
    object_fields = {name for klass in cls.mro for name, typ in klass.fields.items() if _helper_class(prog, typ) is not None}
    written: Dict[str, Tuple[FuncInfo, ast.AST]] = {}
    run_calls: Dict[str, Set[str]] = {}
    for func in run:
        eff = self_effects(func, object_fields)
        for name, nodes in eff.writes.items():
            written.setdefault(name, (func, nodes[0]))
        for name, method, _ in eff.calls:
            run_calls.setdefault(name, set()).add(method)
    killed: Set[str] = set()
    kill_calls: Dict[str, Set[str]] = {}
    # only what happens on EVERY path through the reset entry counts as a reset
    for root in kill_roots:
        method = cls.find_method(root)
        if method is None or method.cls is None or method.cls == stop:
            continue
        for fact in definite_effects(prog, cls, method, object_fields, stop, set()):
            if fact.startswith("call:"):
                _, name, called = fact.split(":", 2)
                kill_calls.setdefault(name, set()).add(called)
            else:
                killed.add(fact)
    out: List[Tuple[ClassInfo, str, FuncInfo, ast.AST]] = []
    for name, (func, node) in sorted(written.items()):
        if name not in killed:
            out.append((func.cls or cls, name, func, node))
    for name, methods in sorted(run_calls.items()):
        found, typ = cls.find_field(name)
        helper = _helper_class(prog, typ) if found else None
        if helper is None or name in killed:
            continue
        out.extend(unreset_fields(prog, helper, sorted(methods), sorted(kill_calls.get(name, set())), None, depth + 1, seen))
    return out


IN_PLACE_METHODS = {"append", "extend", "insert", "pop", "remove", "clear", "sort", "reverse", "update", "setdefault", "popitem", "add", "discard"}


def _aliasing_resets(prog: Program, cls: ClassInfo, stop: ClassInfo):
    """(field, source field, node, func) for ``self.F = self.G`` in the closure of starting_new_file"""
    for func in method_closure(prog, cls, ["starting_new_file"], stop_at=stop):
        if not func.params:
            continue
        me = func.params[0]
        for node in walk_local(func.node):
            if not isinstance(node, (ast.Assign, ast.AnnAssign)) or getattr(node, "value", None) is None:
                continue
            value = node.value
            if not (isinstance(value, ast.Attribute) and isinstance(value.value, ast.Name) and value.value.id == me):
                continue
            targets = node.targets if isinstance(node, ast.Assign) else [node.target]
            for target in targets:
                if isinstance(target, ast.Attribute) and isinstance(target.value, ast.Name) and target.value.id == me and target.attr != value.attr:
                    typ = prog.infer(func, value)
                    if typ is None or typ[0] in ("list", "dict", "set", "cls"):
                        yield target.attr, value.attr, node, func


def _mutated_in_place(prog: Program, cls: ClassInfo, stop: ClassInfo, field: str):
    for func in method_closure(prog, cls, ["next_token", "next_line", "completed_file"], stop_at=stop):
        if not func.params:
            continue
        me = func.params[0]

        def is_field(expr: ast.AST) -> bool:
            return isinstance(expr, ast.Attribute) and expr.attr == field and isinstance(expr.value, ast.Name) and expr.value.id == me

        for node in walk_local(func.node):
            targets = []
            if isinstance(node, ast.Assign):
                targets = list(node.targets)
            elif isinstance(node, ast.AugAssign):
                targets = [node.target]
            elif isinstance(node, ast.Delete):
                targets = list(node.targets)
            for target in targets:
                base = target
                element = False
                while isinstance(base, ast.Subscript):
                    base, element = base.value, True
                if element and is_field(base):
                    return func, node
            if isinstance(node, ast.Call) and isinstance(node.func, ast.Attribute) and node.func.attr in IN_PLACE_METHODS:
                base = node.func.value
                while isinstance(base, ast.Subscript):
                    base = base.value
                if is_field(base):
                    return func, node
    return None


def r13b(ctx: Context) -> None:
    prog = ctx.prog
    rule = ctx.rule("R13b", "per-file fields of every rule (and its helpers) are reset by starting_new_file", 40)
    base = prog.cls(RULE_PLUGIN)
    rules = [c for c in base.all_subclasses() if c.module.rel.startswith("pymarkdown/plugins/")]
    if len(rules) < 40:
        raise AnalysisError(f"only {len(rules)} rule plugins found")
    for cls in sorted(rules, key=lambda c: c.qualname):
        leftovers = unreset_fields(prog, cls, ["next_token", "next_line", "completed_file"], ["starting_new_file"], base)
        reported = 0
        for owner, name, func, node in leftovers:
            key = f"{owner.name}.{name}"
            if key in C13_FIELDS:
                rule.ok(f"{cls.name}: {key}", f"named exception: {C13_FIELDS[key]}")
                continue
            reported += 1
            via = "" if owner == cls else f" (helper object of {cls.name})"
            rule.fail(
                f"{cls.name}: {key}", where(func, node),
                f"field '{key}'{via} is written while a file is processed ('{norm(node)[:80]}') but starting_new_file neither assigns, clears nor replaces it: "
                "its value after one file is the starting value for the next",
            )
        # a reset that binds the field to another field's container is no reset: what the file adds
        # to it survives in the other field
        for alias_field, source_field, node, func in _aliasing_resets(prog, cls, base):
            key = f"{cls.name}.{alias_field} [alias]"
            mutation = _mutated_in_place(prog, cls, base, alias_field)
            if mutation is None:
                rule.ok(key, f"bound to '{source_field}' but never changed in place")
            else:
                reported += 1
                rule.fail(key, where(func, node), f"starting_new_file resets '{alias_field}' by binding it to the same object as '{source_field}' ('{norm(node)[:80]}'), and {mutation[0].short} changes it in place ('{norm(mutation[1])[:60]}'): what one file adds is still there when the next file starts")
        if not reported:
            rule.ok(f"{cls.name}", "every run-time field is reset at the start of a file")


def r13c(ctx: Context) -> None:
    prog = ctx.prog
    rule = ctx.rule("R13c", "manager and tokenizer rebuild their per-document containers; fresh context per file", 6)
    starting = prog.method(PM, "starting_new_file")
    for name in ("__document_pragmas", "__document_pragma_ranges"):
        assigned = any(isinstance(s, ast.Assign) and any(isinstance(t, ast.Attribute) and t.attr == name for t in s.targets) for s in starting.node.body)
        key = f"{starting.short}: {name}"
        if assigned:
            rule.ok(key, "assigned unconditionally")
        else:
            rule.fail(key, where(starting), f"'{name}' survives from the previous file")
    # every field of the manager that the per-file entry points write is reset by starting_new_file
    per_file_roots = sorted({
        site.node.func.attr
        for func in list(prog.cls(FSH).methods.values()) + list(prog.cls(PSC).methods.values())
        for site in prog.sites_in(func)
        if isinstance(site.node.func, ast.Attribute) and any(t.cls is not None and t.cls.qualname == PM for t in site.targets)
        and site.node.func.attr not in ("starting_new_file",)
    })
    if len(per_file_roots) < 4:
        raise AnalysisError(f"only {per_file_roots} found as per-file entry points of the plugin manager")
    manager_leftovers = unreset_fields(prog, prog.cls(PM), per_file_roots, ["starting_new_file"], None)
    for owner, name, func, node in manager_leftovers:
        if owner.qualname != PM:
            continue
        key = f"PluginManager.{name}"
        if key in C13_MANAGER_FIELDS:
            rule.ok(key, "named exception: " + C13_MANAGER_FIELDS[key])
        else:
            rule.fail(key, where(func, node), f"the plugin manager's field '{name}' is written by {func.short} while a file is processed but not re-assigned on every path through starting_new_file: a file that does not reach {func.short} sees the previous file's value")
    rule.note(f"per-file entry points of the manager: {per_file_roots}")
    rets = returns_of(starting)
    fresh = False
    for ret in rets:
        if isinstance(ret, ast.Name):
            for node in walk_local(starting.node):
                if isinstance(node, ast.Assign) and any(isinstance(t, ast.Name) and t.id == ret.id for t in node.targets):
                    typ = prog.infer(starting, node.value)
                    fresh = isinstance(node.value, ast.Call) and bool(typ and typ[0] == "cls" and typ[1].qualname == PSC)
    key = f"{starting.short}: context"
    if fresh:
        rule.ok(key, "a new PluginScanContext is constructed for every file / pass")
    else:
        rule.fail(key, where(starting), "starting_new_file does not return a newly constructed PluginScanContext: reported failures and fix records carry over")
    tm = prog.cls(TM)
    leftovers = unreset_fields(prog, tm, ["transform_from_provider", "transform"], [], None)
    # kills: unconditional assignments at the top of the parse entry chain
    killed: Set[str] = set()
    for name in ("transform_from_provider", "transform", "__transform", "__parse_blocks_pass"):
        func = prog.method(TM, name)
        stmts: List[ast.stmt] = []
        for stmt in func.node.body:
            stmts.extend(stmt.body if isinstance(stmt, ast.Try) else [stmt])
        for stmt in stmts:
            eff_targets = stmt.targets if isinstance(stmt, ast.Assign) else []
            for target in eff_targets:
                if isinstance(target, ast.Attribute) and isinstance(target.value, ast.Name) and target.value.id == func.params[0]:
                    killed.add(target.attr)
                if isinstance(target, ast.Attribute) and isinstance(target.value, ast.Attribute) and target.attr == "pragma_lines":
                    killed.add("pragma_lines")
    seen_fields = set()
    for owner, name, func, node in leftovers:
        if owner != tm or name in seen_fields:
            continue
        seen_fields.add(name)
        key = f"{owner.name}.{name}"
        if name in killed:
            rule.ok(key, "re-assigned at the start of every document")
        else:
            rule.fail(key, where(func, node), f"tokenizer field '{key}' is written while parsing but not re-assigned at the start of a document")
    if "pragma_lines" in killed:
        rule.ok("ParseBlockPassProperties.pragma_lines", "fresh dict per document")
    else:
        rule.fail("ParseBlockPassProperties.pragma_lines", where(prog.method(TM, "__parse_blocks_pass")), "pragma_lines is not re-created per document")
    # per-file contexts in the scan helper come from starting_new_file in the per-file functions
    for name in ("__scan_file", "__process_file_fix_tokens", "__process_file_fix_lines"):
        func = prog.method(FSH, name)
        calls = [s for s in prog.sites_in(func) if starting in s.targets]
        if not calls:  # through a private helper of the scan helper
            helpers = [t for s in prog.sites_in(func) for t in s.targets if t.cls == func.cls]
            calls = [s for helper in helpers for s in prog.sites_in(helper) if starting in s.targets]
        key = f"{func.short}: starts the file"
        if calls:
            rule.ok(key, f"{len(calls)} starting_new_file call(s)")
        else:
            rule.fail(key, where(func), "a per-file pass no longer starts with starting_new_file: rules keep the state of the previous file")


def r13d(ctx: Context) -> None:
    prog = ctx.prog
    rule = ctx.rule("R13d", "every main() starts from reset process-wide state; every API call uses a new application", 5)
    main = prog.method(MAIN, "main")
    init = prog.method(MAIN, "__initialize_subsystems")
    reset = prog.method("pymarkdown.return_code_helper.ReturnCodeHelper", "reset")
    first_call = None
    from sa.rules.c11 import _is_logging

    for stmt in init.node.body:
        calls = [c for c in ast.walk(stmt) if isinstance(c, ast.Call) and not _is_logging(prog, init, c)]
        if calls:
            first_call = site_for(prog, init, calls[0])
            break
    key = f"{init.short}: ReturnCodeHelper.reset"
    if first_call is not None and reset in first_call.targets:
        rule.ok(key, "first non-logging call of subsystem initialisation")
    else:
        rule.fail(key, where(init), "the return-code scheme chosen by a previous main() in this process is not reset before arguments are parsed")
    from sa.rules.common import application_workflow

    holder, delegated_unconditionally = application_workflow(prog, init)
    sites = [s for s in prog.sites_in(holder) if init in s.targets]
    if sites and delegated_unconditionally and not guards_of(holder.node, sites[0].node):
        rule.ok(f"{main.short}: initialises", "unconditional")
    else:
        rule.fail(f"{main.short}: initialises", where(main), "main does not always run subsystem initialisation")
    manager_init = prog.method(PM, "initialize")
    counters = {"number_of_scan_failures", "number_of_pragma_failures"}
    reset_counters: Set[str] = set()
    for stmt in manager_init.node.body:
        if isinstance(stmt, ast.Assign):
            for target in stmt.targets:
                for tgt, value, _ in Program._unpack(target, stmt.value):
                    if isinstance(tgt, ast.Attribute) and tgt.attr in counters and isinstance(value, ast.Constant) and value.value == 0:
                        reset_counters.add(tgt.attr)
    for counter in sorted(counters):
        key = f"{manager_init.short}: {counter}"
        if counter in reset_counters:
            rule.ok(key, "zeroed when the manager is initialised")
        else:
            rule.fail(key, where(manager_init), f"'{counter}' is not zeroed when the plugin manager is initialised: failures of an earlier run decide this run's exit code")
    for name in ("__registered_plugins", "__enabled_plugins", "__all_ids"):
        register = prog.method(PM, "__register_plugins")
        assigned = any(isinstance(s, ast.Assign) and any(isinstance(t, ast.Attribute) and t.attr == name for t in s.targets) for s in register.node.body)
        key = f"{register.short}: {name}"
        if assigned:
            rule.ok(key, "rebuilt on registration")
        else:
            rule.fail(key, where(register), f"'{name}' accumulates across initialisations")
    # API: a new application object per operation
    api_calls = 0

    def origins(func: FuncInfo, expr: Optional[ast.AST], depth: int = 0) -> List[Tuple[FuncInfo, ast.AST, bool]]:
        """where the object that receives main() was made: (function, node, made afresh there)"""
        if not isinstance(expr, ast.Name) or depth > 3:
            return [(func, expr or func.node, False)]
        if expr.id in func.params:
            found: List[Tuple[FuncInfo, ast.AST, bool]] = []
            for caller_site in prog.callers.get(func.qualname, []):
                bound = Program.bind_args(func, caller_site.node, skip_self=func.kind in ("instance", "class"))
                found.extend(origins(caller_site.caller, bound.get(expr.id), depth + 1))
            return found or [(func, expr, False)]
        made = []
        for node in walk_local(func.node):
            if isinstance(node, ast.Assign) and any(isinstance(t, ast.Name) and t.id == expr.id for t in node.targets):
                typ = prog.infer(func, node.value)
                made.append((func, node, isinstance(node.value, ast.Call) and bool(typ and typ[0] == "cls" and typ[1].qualname == MAIN)))
        return made or [(func, expr, False)]

    for func in prog.iter_functions("pymarkdown.api."):
        for site in prog.sites_in(func):
            if main in site.targets:
                recv = site.node.func.value if isinstance(site.node.func, ast.Attribute) else None
                for holder, node, fresh in origins(func, recv):
                    api_calls += 1
                    key = func_key(holder, node)
                    if fresh:
                        rule.ok(key, "new PyMarkdownLint per call")
                    else:
                        rule.fail(key, where(holder, node), "an API operation reuses an application object: plugin and pragma state of an earlier call leaks into this one")
    if api_calls < 4:
        raise AnalysisError(f"only {api_calls} API calls of main found")


def r13e(ctx: Context) -> None:
    """No other object that lives across documents accumulates per-document state."""
    from sa.state import global_writes

    prog = ctx.prog
    rule = ctx.rule("R13e", "extensions, parser properties and module globals hold no per-document state", 8)
    for func, node, name in global_writes(prog):
        rule.fail(f"{func.short}: module global {name}", where(func, node), f"{func.short} writes the module-level name '{name}' at run time: its value survives from one document to the next")
    rule.ok("module globals", "no function of the package writes a module-level name")
    ext_base = prog.cls("pymarkdown.extension_manager.parser_extension.ParserExtension")
    for cls in sorted(ext_base.all_subclasses(), key=lambda c: c.qualname):
        offenders = []
        for method in cls.methods.values():
            if method.name in ("__init__", "apply_configuration"):
                continue
            eff = self_effects(method)
            for name, nodes in eff.writes.items():
                offenders.append((method, name, nodes[0]))
        key = f"{cls.name}: instance state"
        if offenders:
            method, name, node = offenders[0]
            rule.fail(key, where(method, node), f"extension object field '{cls.name}.{name}' is written by {method.short} while documents are parsed; the extension object lives for the whole run, so the value leaks into the next document")
        else:
            rule.ok(key, "written only by __init__ / apply_configuration")
    props = prog.cls("pymarkdown.container_blocks.parse_block_pass_properties.ParseBlockPassProperties")
    for method in props.methods.values():
        if method.name == "__init__":
            continue
        eff = self_effects(method)
        for name, nodes in eff.writes.items():
            rule.fail(f"{props.name}.{name}", where(method, nodes[0]), f"parser property '{name}' is written by {method.short} at run time")
    rule.ok(f"{props.name}: fields", "written only by the constructor (pragma_lines is re-created per document, R13c)")


def r13f(ctx: Context) -> None:
    """The scan helper lives for the whole run and serves every file.  Anything it remembered on
    itself while one file was processed (a cursor, a cache, a level) would be the starting state of
    the next file - and a reset 'after the file' is skipped exactly when the file failed.  Its fields
    are written by the constructor and the per-run entry only."""
    from sa.rules.c15 import per_file_functions

    prog = ctx.prog
    rule = ctx.rule("R13f", "the scan helper keeps no per-file state on itself", 3)
    helper = prog.cls(FSH)
    roots = [f for f in per_file_functions(prog) if f.cls == helper]
    if len(roots) < 2:
        raise AnalysisError("per-file functions of the scan helper not found")
    closure = method_closure(prog, helper, [f.name for f in roots], stop_at=None)
    object_fields = {name for name, typ in helper.fields.items() if _helper_class(prog, typ) is not None}
    for func in sorted(closure, key=lambda f: f.qualname):
        writes = self_effects(func, object_fields).writes
        key = f"{func.short}"
        if writes:
            name, nodes = sorted(writes.items())[0]
            rule.fail(f"{func.short}: {name}", where(func, nodes[0]), f"{func.short} runs once per file and writes the helper's own field '{name}' ('{norm(nodes[0])[:70]}'): what one file leaves there is what the next file starts with (a reset after the file does not run when the file fails)")
        else:
            rule.ok(key, "writes no field of the helper")


def r13h(ctx: Context) -> None:
    """A memoising decorator on a method of a rule (or of a helper object of the rules) is a field nobody resets: the
    cache lives as long as the rule object, that is for the whole run, and is keyed by the arguments only - a method
    that also reads the rule's per-file fields answers for a later file with what it computed for an earlier one."""
    prog = ctx.prog
    rule = ctx.rule("R13h", "no method of a rule or of a rule helper is memoised across files", 40)
    base = prog.cls(RULE_PLUGIN)
    caches = {"lru_cache", "cache", "cached_property", "memoize", "memoized"}
    subjects = [c for c in base.all_subclasses() if c.module.rel.startswith("pymarkdown/plugins/")]
    subjects += [c for c in prog.classes.values() if c.module.rel.startswith("pymarkdown/plugins/utils/")]
    for cls in sorted(set(subjects), key=lambda c: c.qualname):
        hits = []
        for method in cls.methods.values():
            for deco in method.node.decorator_list:  # type: ignore[attr-defined]
                name = (dotted(deco.func) if isinstance(deco, ast.Call) else dotted(deco)) or ""
                if name.split(".")[-1] in caches:
                    hits.append((method, deco))
        key = f"{cls.name}: memoised methods"
        if hits:
            method, deco = hits[0]
            rule.fail(key, where(method, deco), f"{method.short} is decorated with '{norm(deco)}': its answers are kept for the life of the rule object (the whole run) and are not dropped by starting_new_file, so a later file is judged by what was computed for an earlier one")
        else:
            rule.ok(key, "none")


def run(ctx: Context) -> None:
    r13a(ctx)
    r13b(ctx)
    r13c(ctx)
    r13d(ctx)
    r13e(ctx)
    r13f(ctx)
    r13h(ctx)
    from sa.rules import c14

    # which rules receive the events of a file must not depend on the files before it
    c14.dispatch_lists_frozen(ctx, "R13g")
