"""C14 — the rule engine honours the plugin life-cycle for every file."""

from __future__ import annotations

import ast
from typing import Dict, List, Optional, Set, Tuple

from sa.cfg import CFG
from sa.events import EventOrder, Spec
from sa.model import AnalysisError, CallSite, FuncInfo, Program, dotted, norm, walk_local
from sa.raises import RaiseAnalysis
from sa.report import Context
from sa.rules import common
from sa.rules.common import FSH, PM, RULE_PLUGIN
from sa.util import (
    all_paths_pass,
    describe_path,
    enumerate_paths,
    func_key,
    guards_of,
    names_read,
    returns_of,
    site_for,
    where,
)

EXPLANATION = (
    "Decides, from /repo's current source: R14a the per-file scan, with callees inlined, emits life-cycle events "
    "only in the order start, token*, line*, complete, report on every normal path and reports on every exceptional "
    "path after a start (product of the CFGs with the life-cycle automaton, all branches feasible); R14b each fix "
    "pass emits start+, token*, complete (token pass) or start+, token*, line*, complete (line pass); the token loop "
    "iterates the whole parse result (only the trailing pragma token may be trimmed); R14c/R12d for each callback "
    "the 'implemented in plugin' flag, the dispatch list filled under it, the list the dispatcher iterates and the "
    "callback it invokes agree four ways, the callback is invoked exactly once per dispatched plugin, and the lists "
    "are rebuilt from scratch; R14d dispatch lists come from the enabled list (nobody passes use_full_list=True); "
    "R14e the line loop delivers the current line once, then increments the counter once, then fetches the next line "
    "once, on every path; the first line is number 1; R14f no dispatcher rebinds its context parameter (the object "
    "whose output file receives the line after the loop); R14g a provider that was consumed by the tokenizer is "
    "reset before anything reads lines from it; R14i all dispatcher calls of one pass use the same per-plugin context map; R14h the line providers split the document on the newline character only (no str.splitlines / regular expressions). R14n the dispatch lists are written only while the configuration is applied; R14o a dispatcher that reads the fix line after a callback emptied it before the callback on every fix-mode path; R14p every identifier a rule is registered under (id and names) is lower-cased where the rule's details are unpacked, as the -d / -e and configuration look-ups are, so that a disabled rule receives nothing whatever capitals its author used; a scan tokenizes unconditionally and the file provider reads in text mode with universal newlines. Not decided: the exact text of each delivered line (final-newline "
    "arithmetic), which tokens the parser produces."
)
ASSUMPTIONS = [
    "a plugin callback call that raises is contained by the dispatcher (R07a); events are counted when the dispatcher call completes",
    "all CFG branches are treated as feasible (over-approximation: no false 'holds')",
]

EVENT_METHODS = {"starting_new_file": "S", "next_token": "T", "next_line": "L", "completed_file": "C"}
PSC = "pymarkdown.plugin_manager.plugin_scan_context.PluginScanContext"


def event_of_factory(prog: Program):
    manager = prog.cls(PM)
    reporter = prog.method(PSC, "report_on_triggered_rules")

    def event_of(func: FuncInfo, site: CallSite) -> Optional[str]:
        if func.cls is not None and func.cls == manager:
            return None
        for target in site.targets:
            if target.cls == manager and target.name in EVENT_METHODS and not site.wild:
                return EVENT_METHODS[target.name]
            if target == reporter:
                return "R"
        return None

    return event_of


def scan_spec() -> Spec:
    names = {0: "not started", 1: "started/tokens", 2: "lines", 3: "completed", 4: "reported", 5: "reported after a fault"}
    transitions = {
        (0, "S"): 1, (1, "T"): 1, (1, "L"): 2, (2, "L"): 2, (1, "C"): 3, (2, "C"): 3, (3, "R"): 4,
        (1, "R"): 5, (2, "R"): 5, (3, "R"): 4, (4, "R"): 5,
    }
    return Spec(0, transitions, accept_normal={4}, accept_raise={0, 4, 5}, names=names)


def scan_spec_normal_only() -> Spec:
    spec = scan_spec()
    # on the normal path a report before completion is not acceptable: split R by context
    return spec


def token_pass_spec() -> Spec:
    names = {0: "not started", 1: "started", 2: "tokens", 3: "completed"}
    transitions = {(0, "S"): 1, (1, "S"): 1, (1, "T"): 2, (2, "T"): 2, (1, "C"): 3, (2, "C"): 3}
    return Spec(0, transitions, accept_normal={3}, accept_raise={0, 1, 2, 3}, names=names)


def line_pass_spec() -> Spec:
    names = {0: "not started", 1: "started", 2: "tokens", 3: "lines", 4: "completed"}
    transitions = {
        (0, "S"): 1, (1, "S"): 1, (1, "T"): 2, (2, "T"): 2, (1, "L"): 3, (2, "L"): 3, (3, "L"): 3,
        (1, "C"): 4, (2, "C"): 4, (3, "C"): 4,
    }
    return Spec(0, transitions, accept_normal={4}, accept_raise={0, 1, 2, 3, 4}, names=names)


def r14ab(ctx: Context, ra: RaiseAnalysis) -> None:
    prog = ctx.prog
    rule = ctx.rule("R14a", "scan and fix passes emit life-cycle events in the documented order on every path", 3)
    order = EventOrder(prog, event_of_factory(prog), raising=ra.raising_predicate)
    cases = [
        (prog.method(FSH, "__scan_file"), scan_spec(), "start token* line* complete report; a report after any fault"),
        (prog.method(FSH, "__process_file_fix_tokens"), token_pass_spec(), "start+ token* complete"),
        (prog.method(FSH, "__process_file_fix_lines"), line_pass_spec(), "start+ token* line* complete"),
    ]
    for func, spec, text in cases:
        witness = order.check(func, spec)
        key = f"{func.short}: event order"
        if witness is None:
            rule.ok(key, text)
        else:
            rule.fail(key, where(func), f"life-cycle order violated in {func.short} (expected {text}): {witness['message']}", list(witness["steps"]))  # type: ignore[arg-type]
    rule.note(f"product states explored: {order.states_explored}, transitions: {order.transitions_explored}")
    # the normal path of the scan must be exactly S T* L* C R: the reporter call that follows completion
    scan = cases[0][0]
    normal_spec = Spec(
        0,
        {(0, "S"): 1, (1, "T"): 1, (1, "L"): 2, (2, "L"): 2, (1, "C"): 3, (2, "C"): 3, (3, "R"): 4},
        accept_normal={4}, accept_raise={0, 1, 2, 3, 4}, names=scan_spec().names,
    )
    order2 = EventOrder(prog, event_of_factory(prog), raising=lambda f: (lambda n: isinstance(n, ast.Raise)))
    witness = order2.check(scan, normal_spec)
    key = f"{scan.short}: normal path"
    if witness is None:
        rule.ok(key, "start token* line* complete report")
    else:
        rule.fail(key, where(scan), f"the fault-free path of the scan is not start, token*, line*, complete, report: {witness['message']}", list(witness["steps"]))  # type: ignore[arg-type]


def r14_token_loops(ctx: Context) -> None:
    prog = ctx.prog
    rule = ctx.rule("R14t", "token loops deliver the whole parse result (only the trailing pragma token is trimmed)", 3)
    dispatcher = prog.method(PM, "next_token")
    for func in prog.cls(FSH).methods.values():
        for node in walk_local(func.node):
            if not isinstance(node, ast.For):
                continue
            calls = [site_for(prog, func, c) for stmt in node.body for c in ast.walk(stmt) if isinstance(c, ast.Call)]
            if not any(s and dispatcher in s.targets for s in calls):
                continue
            key = func_key(func, node.iter) + " [token loop]"
            if not isinstance(node.iter, ast.Name):
                rule.fail(key, where(func, node), f"tokens are delivered from '{norm(node.iter)}', not from the parse result variable")
                continue
            name = node.iter.id
            # the loop hands the loop variable itself to the dispatcher
            passes_var = any(
                s and dispatcher in s.targets and any(isinstance(a, ast.Name) and isinstance(node.target, ast.Name) and a.id == node.target.id for a in s.node.args)
                for s in calls
            )
            if not passes_var:
                rule.fail(key, where(func, node), "the token handed to the dispatcher is not the loop variable")
                continue
            problems = []
            for sub in walk_local(func.node):
                if isinstance(sub, ast.Assign) and any(isinstance(t, ast.Name) and t.id == name for t in sub.targets) and sub.lineno < node.lineno:
                    value = sub.value
                    if isinstance(value, ast.Subscript) and isinstance(value.slice, ast.Slice):
                        text = norm(value)
                        facts = [norm(t) for t, p in guards_of(func.node, sub) if p]
                        if text == f"{name}[:-1]" and any("is_pragma" in f for f in facts):
                            continue
                        problems.append(f"'{name} = {text}' drops tokens")
                    elif isinstance(value, (ast.ListComp, ast.Call)) and not (isinstance(value, ast.Call) and (dotted(value.func) or "").endswith(("transform_from_provider", "__process_file_fix_rescan", "transform"))):
                        problems.append(f"'{name} = {norm(value)}' filters or replaces the parse result")
            if problems:
                rule.fail(key, where(func, node), "; ".join(problems) + ": some rule never sees part of the token stream")
            else:
                rule.ok(key, f"for {norm(node.target)} in {name}")


def r14_tokenizer_calls(ctx: Context, rule_id: str = "R14k") -> None:
    """'Every pass has this same shape': the scan and each half of a fix pass obtain their token
    stream from the same tokenizer entry with the same options (the end-of-stream token is part of
    the stream the rules are promised).  Sibling call sites of one interface must agree."""
    prog = ctx.prog
    rule = ctx.rule(rule_id, "a scan always tokenizes, and every per-file pass asks the tokenizer for the stream with the same options", 3)
    tokenizer = prog.method("pymarkdown.general.tokenized_markdown.TokenizedMarkdown", "transform_from_provider")
    sites = [site for site in prog.callers.get(tokenizer.qualname, []) if site.caller.cls is not None and site.caller.cls.qualname == FSH]
    if len(sites) < 2:
        raise AnalysisError(f"only {len(sites)} tokenizer call(s) found in the scan helper (3 confirmed)")
    parameters = [a.arg for a in tokenizer.node.args.args[1:]]  # type: ignore[attr-defined]
    defaults = tokenizer.node.args.defaults  # type: ignore[attr-defined]
    default_of = {name: norm(value) for name, value in zip(parameters[len(parameters) - len(defaults):], defaults)}

    def options(site) -> Dict[str, str]:
        given = dict(default_of)
        for name, arg in zip(parameters, site.node.args):
            given[name] = norm(arg)
        for keyword in site.node.keywords:
            if keyword.arg:
                given[keyword.arg] = norm(keyword.value)
        return {name: value for name, value in given.items() if name in default_of}

    # a scan always tokenizes: the pragma table is compiled from the stream and the end of the stream is an event of
    # its own, whatever the enabled rules ask for
    scan_entry = prog.method(FSH, "__scan_specific_file")
    fix_entry = prog.method(FSH, "__fix_specific_file")
    scan_side = prog.reachable([scan_entry], stop={fix_entry.qualname})
    for site in sites:
        if site.caller.qualname not in scan_side:
            continue
        conditions = [("" if polarity else "not ") + norm(test) for test, polarity in guards_of(site.caller.node, site.node, include_asserts=False)]
        key = func_key(site.caller, site.node) + " [always tokenized]"
        if conditions:
            rule.fail(key, site.where, f"a scanned document is tokenized only when {conditions[:2]}: without the token stream no pragma is compiled (a 'disable-next-line' naming a line rule suppresses nothing) and the rules that are left see another sequence of events")
        else:
            rule.ok(key, "unconditional")
    reference = options(sites[0])
    for site in sites:
        key = func_key(site.caller, site.node) + " [tokenizer options]"
        mine = options(site)
        if mine == reference and all(value in ("True", "False", "None") or value.isdigit() for value in mine.values()):
            rule.ok(key, f"{mine}")
        else:
            different = {name: (mine.get(name), reference.get(name)) for name in set(mine) | set(reference) if mine.get(name) != reference.get(name)}
            rule.fail(key, site.where, f"{site.caller.short} asks the tokenizer for a stream with {different or mine} (this call, {sites[0].caller.short}): the passes do not deliver the same stream - for example the end-of-stream token is missing in one of them")


def r14_single_start(ctx: Context) -> None:
    """'... is told that a new file starts ... each exactly once': a pass that starts the file through
    several calls of the manager (one per context: the fixing rules, the collecting rules) must give
    every call its own list of rules, and the manager must honour a list even when it is empty -
    otherwise the same rule is started twice in one pass."""
    prog = ctx.prog
    rule = ctx.rule("R14m", "a pass that starts the file in several calls gives each call its own rule list, and an empty list selects nobody", 3)
    starting = prog.method(PM, "starting_new_file")
    from sa.util import param_by_annotation

    list_param = param_by_annotation(starting, "List[str]")
    if list_param is None:
        raise AnalysisError("PluginManager.starting_new_file no longer takes a list of rules to start")
    position = starting.params.index(list_param) - 1
    by_caller: Dict[str, List[CallSite]] = {}
    for site in prog.callers.get(starting.qualname, []):
        by_caller.setdefault(site.caller.qualname, []).append(site)
    for qual, sites in sorted(by_caller.items()):
        caller = sites[0].caller
        key = f"{caller.short}: starts"
        if len(sites) == 1:
            rule.ok(key, "one start per pass")
            continue
        lists = []
        for site in sites:
            given = next((norm(k.value) for k in site.node.keywords if k.arg == list_param), None)
            if given is None and len(site.node.args) > position:
                given = norm(site.node.args[position])
            lists.append(given)
        if any(g is None or g == "None" for g in lists):
            rule.fail(key, sites[0].where, f"{caller.short} starts the file {len(sites)} times in one pass with the rule lists {lists}: a call without a list starts every enabled rule, so the rules of the other call are started twice")
        elif len(set(lists)) != len(lists):
            rule.fail(key, sites[0].where, f"{caller.short} starts the file {len(sites)} times with the same rule list {lists}")
        else:
            rule.ok(key, f"disjoint starts for {lists}")
    # the manager: a given list is honoured even when it is empty.  The conditions under which the callback runs
    # are evaluated for 'no list given' (every rule must be started) and for 'an empty list given' (none may be).
    callback_calls = [
        c for c in walk_local(starting.node)
        if isinstance(c, ast.Call) and isinstance(c.func, ast.Attribute) and c.func.attr == "starting_new_file" and isinstance(c.func.value, ast.Attribute) and c.func.value.attr == "plugin_instance"
    ]
    if len(callback_calls) != 1:
        raise AnalysisError("PluginManager.starting_new_file: the call of the plugins' starting_new_file was not found")

    def truth(expr: ast.AST, given: str, depth: int = 0) -> Optional[bool]:
        """value of a condition when the rule list is None ('none') or [] ('empty'); None = does not depend on it / unknown"""
        if depth > 4:
            return None
        if isinstance(expr, ast.Name):
            if expr.id == list_param:
                return False  # None and [] are both falsy
            values = [n.value for n in walk_local(starting.node) if isinstance(n, ast.Assign) and any(isinstance(t, ast.Name) and t.id == expr.id for t in n.targets)]
            return truth(values[0], given, depth + 1) if len(values) == 1 else None
        if isinstance(expr, ast.UnaryOp) and isinstance(expr.op, ast.Not):
            inner = truth(expr.operand, given, depth + 1)
            return None if inner is None else not inner
        if isinstance(expr, ast.BoolOp):
            parts = [truth(v, given, depth + 1) for v in expr.values]
            if isinstance(expr.op, ast.And):
                if any(p is False for p in parts):
                    return False
                return True if all(p is True for p in parts) else None
            if any(p is True for p in parts):
                return True
            return False if all(p is False for p in parts) else None
        if isinstance(expr, ast.Compare) and len(expr.ops) == 1:
            left, op, right = expr.left, expr.ops[0], expr.comparators[0]
            if isinstance(left, ast.Name) and left.id == list_param and isinstance(right, ast.Constant) and right.value is None:
                if isinstance(op, ast.Is):
                    return given == "none"
                if isinstance(op, ast.IsNot):
                    return given != "none"
            if isinstance(right, ast.Name) and right.id == list_param and isinstance(op, (ast.In, ast.NotIn)):
                if given == "empty":
                    return isinstance(op, ast.NotIn)
                return None  # membership in None is never evaluated on a correct path
        return None

    start_loops = [n for n in walk_local(starting.node) if isinstance(n, ast.For) and any(sub is callback_calls[0] for sub in ast.walk(n))]
    if len(start_loops) != 1:
        raise AnalysisError("PluginManager.starting_new_file: the loop over the plugins was not found")
    start_body = ast.FunctionDef(name="<body>", args=ast.arguments(posonlyargs=[], args=[], kwonlyargs=[], kw_defaults=[], defaults=[]), body=start_loops[0].body, decorator_list=[], lineno=start_loops[0].lineno, col_offset=0)
    start_cfg = CFG(start_body, raising=lambda n: False)

    def runs(given: str) -> Optional[bool]:
        """True: every feasible path through the loop body starts the rule; False: none does; None: some do"""
        reached: Set[bool] = set()
        is_continue = lambda nid: isinstance(start_cfg.nodes[nid].ast_node, ast.Continue)  # noqa: E731
        for path in enumerate_paths(start_cfg, loop_bound=1, stop=is_continue):
            if path[-1][0] != start_cfg.exit and not is_continue(path[-1][0]):
                continue
            feasible = True
            calls = False
            for nid, label in path:
                node = start_cfg.nodes[nid]
                if node.kind == "cond" and node.ast_node is not None:
                    value = truth(node.ast_node, given)
                    if value is not None and value != (label == "true"):
                        feasible = False
                        break
                elif node.ast_node is not None and any(sub is callback_calls[0] for sub in ast.walk(node.ast_node)):
                    calls = True
            if feasible:
                reached.add(calls)
        if reached == {True}:
            return True
        if reached == {False}:
            return False
        return None

    key = f"{starting.short}: empty list"
    if runs("none") is not True:
        rule.fail(key, where(starting, callback_calls[0]), "without a list of rules the manager does not start every enabled rule")
    elif runs("empty") is not False:
        rule.fail(key, where(starting, callback_calls[0]), "the manager skips a rule only when the list of rules to start is non-empty: with an empty list (no collecting rules at the highest fix level) every enabled rule is started - a second time in that pass")
    else:
        rule.ok(key, "a list that is given is a constraint, also when empty")


def _pass_filter_only(prog: Program, func: FuncInfo, expr: ast.AST, plugin_var: str, depth: int, trusted: Optional[Set[str]] = None) -> bool:
    """Does ``expr`` depend on nothing but the parameters of the dispatcher (the context, the context map, the
    list of rules of the pass) and the id of the plugin at hand?  Locals are followed to what they were
    assigned from, helper methods of the same class to what they return."""
    if depth > 4:
        return False
    trusted = trusted if trusted is not None else set(func.params[1:] if func.kind == "instance" else func.params)
    if isinstance(expr, ast.Constant):
        return True
    if isinstance(expr, ast.Name):
        if expr.id in trusted or expr.id == plugin_var:
            return True
        values = [n.value for n in walk_local(func.node) if isinstance(n, ast.Assign) and any(isinstance(t, ast.Name) and t.id == expr.id for t in n.targets)]
        return bool(values) and all(_pass_filter_only(prog, func, v, plugin_var, depth + 1, trusted) for v in values)
    if isinstance(expr, ast.Attribute):
        if isinstance(expr.value, ast.Name) and (expr.value.id == plugin_var or expr.value.id in trusted) and expr.attr in ("plugin_id", "plugin_identifiers"):
            return True
        return False
    if isinstance(expr, ast.Call):
        site = site_for(prog, func, expr)
        arguments = list(expr.args) + [k.value for k in expr.keywords]
        if not all(_pass_filter_only(prog, func, a, plugin_var, depth + 1, trusted) for a in arguments):
            return False
        if site is not None and site.targets and all(t.cls is not None and t.cls == func.cls for t in site.targets):
            for target in site.targets:
                inner_trusted = set(target.params[1:] if target.kind == "instance" else target.params)
                returned = returns_of(target)
                if not returned or not all(_pass_filter_only(prog, target, r, "", depth + 1, inner_trusted) for r in returned):
                    return False
            return True
        if isinstance(expr.func, ast.Attribute) and expr.func.attr in ("get", "keys", "values", "items") :
            return _pass_filter_only(prog, func, expr.func.value, plugin_var, depth + 1, trusted)
        return False
    if isinstance(expr, (ast.BoolOp,)):
        return all(_pass_filter_only(prog, func, v, plugin_var, depth + 1, trusted) for v in expr.values)
    if isinstance(expr, ast.UnaryOp):
        return _pass_filter_only(prog, func, expr.operand, plugin_var, depth + 1, trusted)
    if isinstance(expr, ast.Compare):
        return all(_pass_filter_only(prog, func, v, plugin_var, depth + 1, trusted) for v in [expr.left] + list(expr.comparators))
    if isinstance(expr, ast.Subscript):
        return _pass_filter_only(prog, func, expr.value, plugin_var, depth + 1, trusted) and _pass_filter_only(prog, func, expr.slice, plugin_var, depth + 1, trusted)
    if isinstance(expr, ast.IfExp):
        return all(_pass_filter_only(prog, func, v, plugin_var, depth + 1, trusted) for v in (expr.test, expr.body, expr.orelse))
    return False


def _loop_paths(prog: Program, func: FuncInfo, loop: ast.For, loop_var: str, events, foreign) -> Tuple[Set[int], Set[str], int, List[ast.AST]]:
    """Paths through one iteration of ``loop``: the numbers of events on the paths that have any, the foreign
    events seen, the number of paths without an event (the plugin is passed over) and the decisions on such
    paths that are not pass filters."""
    body_fn = ast.FunctionDef(name="<body>", args=ast.arguments(posonlyargs=[], args=[], kwonlyargs=[], kw_defaults=[], defaults=[]), body=loop.body, decorator_list=[], lineno=loop.lineno, col_offset=0)
    cfg = CFG(body_fn, raising=lambda n: False)
    counts: Set[int] = set()
    wrong: Set[str] = set()
    skipped_paths = 0
    bad_filters: List[ast.AST] = []
    leaves_iteration = lambda nid: isinstance(cfg.nodes[nid].ast_node, ast.Continue)  # noqa: E731
    for path in enumerate_paths(cfg, loop_bound=1, stop=leaves_iteration):
        count = 0
        conditions: List[ast.AST] = []
        for nid, _label in path:
            node = cfg.nodes[nid]
            if node.kind == "cond" and node.ast_node is not None:
                conditions.append(node.ast_node)
            if node.kind == "stmt" and node.ast_node is not None:
                count += events(node.ast_node)
                wrong |= foreign(node.ast_node)
        if path[-1][0] == cfg.raise_exit:
            continue
        if count == 0:
            # the plugin is passed over on this path: every decision that led here must be a pass filter
            # (the context map / rule list of the pass and the plugin's id), whatever form the skip takes
            skipped_paths += 1
            for test in conditions:
                if not _pass_filter_only(prog, func, test, loop_var, 0) and all(test is not known for known in bad_filters):
                    bad_filters.append(test)
            continue
        counts.add(count)
    return counts, wrong, skipped_paths, bad_filters


def r14c(ctx: Context, rule_id: str = "R14c") -> None:
    """Four-way agreement of the dispatch tables (also R12d)."""
    prog = ctx.prog
    rule = ctx.rule(rule_id, "callback flag, dispatch list, dispatcher loop and invoked callback agree four ways", 16)
    base = prog.cls(RULE_PLUGIN)
    manager = prog.cls(PM)
    setter = prog.method(RULE_PLUGIN, "set_configuration_map")
    apply_one = prog.method(PM, "__apply_configuration")
    apply_all = prog.method(PM, "apply_configuration")
    # (i) field <- "C" in self.__class__.__dict__
    field_of: Dict[str, str] = {}
    for node in walk_local(setter.node):
        if isinstance(node, ast.Assign) and isinstance(node.value, ast.Compare) and len(node.value.ops) == 1 and isinstance(node.value.ops[0], ast.In):
            left = node.value.left
            right = norm(node.value.comparators[0])
            if isinstance(left, ast.Constant) and isinstance(left.value, str) and right.endswith("__class__.__dict__"):
                for target in node.targets:
                    if isinstance(target, ast.Attribute):
                        field_of[left.value] = target.attr
    # (ii) property -> field
    prop_of_field: Dict[str, str] = {}
    for name, method in base.methods.items():
        if method.kind == "property":
            for node in walk_local(method.node):
                if isinstance(node, ast.Return) and isinstance(node.value, ast.Attribute):
                    prop_of_field[node.value.attr] = name
    # (iii) list <- property in __apply_configuration
    list_of_prop: Dict[str, str] = {}
    fillers = [apply_one] + [prog.functions[q] for q in sorted(prog.reachable([apply_all])) if prog.functions[q].cls == apply_one.cls and prog.functions[q] != apply_one]
    for filler in fillers:  # the function that configures one plugin, or a helper of the manager that the rebuild reaches
        for call in walk_local(filler.node):
            if isinstance(call, ast.Call) and isinstance(call.func, ast.Attribute) and call.func.attr == "append" and isinstance(call.func.value, ast.Attribute):
                # the innermost property test that holds when the append runs (if-block or early-return form)
                tests = [t for t, pol in guards_of(filler.node, call) if pol and isinstance(t, ast.Attribute)]
                if tests:
                    list_of_prop[tests[-1].attr] = call.func.value.attr
    # lists reset in apply_configuration
    reset: Set[str] = set()
    for node in walk_local(apply_all.node):
        if isinstance(node, ast.Assign):
            for target in node.targets:
                for tgt, value, _ in Program._unpack(target, node.value):
                    if isinstance(tgt, ast.Attribute) and isinstance(value, ast.List) and not value.elts:
                        reset.add(tgt.attr)
    for callback in ("starting_new_file", "next_token", "next_line", "completed_file"):
        field = field_of.get(callback)
        key = f"dispatch[{callback}]"
        if field is None:
            rule.fail(key + ": flag", where(setter), f"set_configuration_map no longer derives the '{callback}' flag from '\"{callback}\" in self.__class__.__dict__'")
            continue
        if callback not in field:
            rule.fail(key + ": flag", where(setter), f"the test for '{callback}' is stored in '{field}', the flag of a different callback")
            continue
        rule.ok(key + ": flag", f"{field} <- '{callback}' in class dict")
        prop = prop_of_field.get(field)
        if prop is None or callback not in prop:
            rule.fail(key + ": property", where(base.methods.get(prop, setter) if prop else setter), f"no property named for '{callback}' returns '{field}' (found {prop})")
            continue
        rule.ok(key + ": property", f"{prop} -> {field}")
        dispatch_list = list_of_prop.get(prop)
        if dispatch_list is None or callback not in dispatch_list:
            rule.fail(key + ": list", where(apply_one), f"plugins implementing '{callback}' are appended to '{dispatch_list}', not to the list for '{callback}'")
            continue
        rule.ok(key + ": list", f"{dispatch_list} filled under {prop}")
        if dispatch_list not in reset:
            rule.fail(key + ": rebuilt", where(apply_all), f"'{dispatch_list}' is not emptied when configuration is applied: a second apply dispatches every callback twice")
        else:
            rule.ok(key + ": rebuilt", "emptied before it is filled")
        dispatcher = manager.methods.get(callback)
        if dispatcher is None:
            rule.fail(key + ": dispatcher", where(apply_one), f"PluginManager.{callback} is missing")
            continue
        loops = [n for n in walk_local(dispatcher.node) if isinstance(n, ast.For) and isinstance(n.iter, ast.Attribute)]
        loops = [(loop, loop.iter.attr, loop.target.id if isinstance(loop.target, ast.Name) else "") for loop in loops if "enabled_plugins" in loop.iter.attr]
        stage_filters: List[Tuple[FuncInfo, ast.AST]] = []
        stage_skips = 0
        if not loops:
            # the dispatch list may be handed to a generator of the manager that pairs / filters the plugins
            for candidate in [n for n in walk_local(dispatcher.node) if isinstance(n, ast.For) and isinstance(n.iter, ast.Call)]:
                listed = [(i, a) for i, a in enumerate(candidate.iter.args) if isinstance(a, ast.Attribute) and "enabled_plugins" in a.attr]
                site = site_for(prog, dispatcher, candidate.iter)
                if len(listed) != 1 or site is None or len(site.targets) != 1 or site.targets[0].cls != dispatcher.cls:
                    continue
                stage = site.targets[0]
                bound_names = {v: k for k, v in ((k, v) for k, v in Program.bind_args(stage, candidate.iter, skip_self=stage.kind == "instance").items())}
                listed_param = next((name for name, value in Program.bind_args(stage, candidate.iter, skip_self=stage.kind == "instance").items() if value is listed[0][1]), None)
                inner = [n for n in walk_local(stage.node) if isinstance(n, ast.For) and isinstance(n.iter, ast.Name) and n.iter.id == listed_param and isinstance(n.target, ast.Name)]
                yields = [n for n in walk_local(stage.node) if isinstance(n, (ast.Yield, ast.YieldFrom))]
                if len(inner) != 1 or not yields or any(not any(sub is y for sub in ast.walk(inner[0])) for y in yields):
                    continue
                inner_var = inner[0].target.id

                def passes_on(stmt: ast.AST) -> int:
                    """1 when the statement yields the plugin at hand (alone or first of a tuple)"""
                    found = 0
                    for sub in ast.walk(stmt):
                        if isinstance(sub, ast.Yield) and sub.value is not None:
                            first = sub.value.elts[0] if isinstance(sub.value, ast.Tuple) and sub.value.elts else sub.value
                            found += 1 if isinstance(first, ast.Name) and first.id == inner_var else 2
                        elif isinstance(sub, ast.YieldFrom):
                            found += 2
                    return found

                stage_counts, _, stage_skips, bad = _loop_paths(prog, stage, inner[0], inner_var, passes_on, lambda stmt: set())
                if stage_counts - {1}:
                    rule.fail(key + ": dispatcher", where(stage, inner[0]), f"{stage.short} hands a plugin on {sorted(stage_counts)} times on some path (must be exactly once)")
                    continue
                stage_filters = [(stage, test) for test in bad]
                target = candidate.target
                first = target.elts[0] if isinstance(target, ast.Tuple) and target.elts else target
                loops.append((candidate, listed[0][1].attr, first.id if isinstance(first, ast.Name) else ""))
        if len(loops) != 1:
            rule.fail(key + ": dispatcher", where(dispatcher), f"PluginManager.{callback} has {len(loops)} dispatch loops")
            continue
        loop, iterated, loop_var = loops[0]
        if iterated != dispatch_list:
            rule.fail(key + ": dispatcher", where(dispatcher, loop), f"PluginManager.{callback} iterates '{iterated}' but plugins implementing '{callback}' are kept in '{dispatch_list}'")
            continue

        # exactly one invocation of the same-named callback on every path through the loop body that is not skipped
        def invocations(stmt: ast.AST) -> int:
            return sum(1 for call in ast.walk(stmt) if isinstance(call, ast.Call) and isinstance(call.func, ast.Attribute) and isinstance(call.func.value, ast.Attribute) and call.func.value.attr == "plugin_instance" and call.func.attr == callback)

        def others(stmt: ast.AST) -> Set[str]:
            return {call.func.attr for call in ast.walk(stmt) if isinstance(call, ast.Call) and isinstance(call.func, ast.Attribute) and isinstance(call.func.value, ast.Attribute) and call.func.value.attr == "plugin_instance" and call.func.attr != callback and call.func.attr in EVENT_METHODS}

        counts, wrong, skipped_paths, bad_tests = _loop_paths(prog, dispatcher, loop, loop_var, invocations, others)
        skipped_paths += stage_skips
        bad_filters = [(dispatcher, test) for test in bad_tests] + stage_filters
        if wrong:
            rule.fail(key + ": dispatcher", where(dispatcher, loop), f"PluginManager.{callback} invokes {sorted(wrong)} on the plugins")
        elif counts != {1}:
            rule.fail(key + ": dispatcher", where(dispatcher, loop), f"PluginManager.{callback} invokes the callback {sorted(counts)} times on some path through the dispatch loop (must be exactly once per dispatched plugin)")
        else:
            rule.ok(key + ": dispatcher", f"iterates {dispatch_list}, one call per plugin; {skipped_paths} filtered path(s)")
        for holder, test in bad_filters:
            text = norm(test)
            rule.fail(f"{key}: filter '{text}'", where(holder, test), f"PluginManager.{callback} skips plugins on '{text}', which is not a pass filter: an enabled rule misses events")
        if skipped_paths and not bad_filters:
            rule.ok(f"{key}: filters", "plugins are passed over only by the pass's context map / rule list and the plugin's id")


def dispatch_lists_frozen(ctx: Context, rule_id: str = "R14n") -> None:
    """The dispatch lists say which rules get which events.  They are rebuilt when the configuration is applied and
    must stay as they are from then on: a list that is changed while files are processed (a rule dropped after it
    failed once, a rule added on demand) makes the events a rule receives for one file depend on what happened in the
    files before it."""
    prog = ctx.prog
    rule = ctx.rule(rule_id, "the dispatch lists are written only while the configuration is applied", 4)
    manager = prog.cls(PM)
    apply_all = prog.method(PM, "apply_configuration")
    builders = {q for q in prog.reachable([apply_all]) if prog.functions[q].cls == manager} | {apply_all.qualname}
    init = manager.methods.get("__init__")
    if init is not None:
        builders.add(init.qualname)
    lists = sorted({n.attr for m in manager.methods.values() for n in walk_local(m.node) if isinstance(n, ast.Attribute) and isinstance(n.ctx, ast.Store) and "enabled_plugins_for" in n.attr})
    if len(lists) < 4:
        raise AnalysisError(f"only {lists} found as dispatch lists of the plugin manager (4 confirmed)")
    mutators = {"append", "extend", "insert", "remove", "pop", "clear", "sort", "reverse"}
    for name in lists:
        offenders = []
        for func in prog.iter_functions():
            if func.qualname in builders:
                continue
            # locals that stand for the list: bound to it directly, or looping over a display that contains it
            aliases: Set[str] = set()
            for node in walk_local(func.node):
                if isinstance(node, ast.Assign) and isinstance(node.value, ast.Attribute) and node.value.attr == name:
                    aliases |= {t.id for t in node.targets if isinstance(t, ast.Name)}
                elif isinstance(node, (ast.For, ast.comprehension)) and isinstance(node.target, ast.Name) and isinstance(node.iter, (ast.Tuple, ast.List)) \
                        and any(isinstance(e, ast.Attribute) and e.attr == name for e in node.iter.elts):
                    aliases.add(node.target.id)
            for node in walk_local(func.node):
                hit = None
                if isinstance(node, ast.Call) and isinstance(node.func, ast.Attribute) and node.func.attr in mutators and (
                    isinstance(node.func.value, ast.Attribute) and node.func.value.attr == name or isinstance(node.func.value, ast.Name) and node.func.value.id in aliases
                ):
                    hit = node
                elif isinstance(node, (ast.Assign, ast.AugAssign, ast.Delete)):
                    targets = node.targets if isinstance(node, (ast.Assign, ast.Delete)) else [node.target]
                    for target in targets:
                        base = target.value if isinstance(target, ast.Subscript) else target
                        if isinstance(base, ast.Attribute) and base.attr == name:
                            hit = node
                if hit is not None:
                    offenders.append((func, hit))
        key = f"{manager.name}.{name}"
        if offenders:
            func, node = offenders[0]
            rule.fail(key, where(func, node), f"{func.short} changes the dispatch list '{name}' ('{norm(node)[:70]}') outside the application of the configuration: from then on the rules of that list receive other events than the configuration says, for the rest of the run")
        else:
            rule.ok(key, "written only by apply_configuration and what it calls")


def r14o(ctx: Context) -> None:
    """In fix mode a line rule answers through the context: it leaves the rewritten line in ``current_fix_line``.  The
    dispatcher reads that field after the callback - so it must have emptied it before the callback, on the same
    context, on every fix-mode path of the loop.  Otherwise the answer one rule left behind (for the previous line, or
    from the line pass when the file is completed) is taken for the answer of the next one: a line is rewritten that
    no rule asked to rewrite."""
    prog = ctx.prog
    rule = ctx.rule("R14o", "a dispatcher that reads the fix line after a callback has emptied it before the callback", 2)
    manager = prog.cls(PM)

    def empties(func: FuncInfo, stmt: ast.AST) -> bool:
        for call in [c for c in ast.walk(stmt) if isinstance(c, ast.Call)]:
            if isinstance(call.func, ast.Attribute) and call.func.attr == "set_current_fix_line" and call.args and isinstance(call.args[0], ast.Constant) and call.args[0].value is None:
                return True
            site = site_for(prog, func, call)
            if site is not None and len(site.targets) == 1 and site.targets[0].cls == manager:
                helper = site.targets[0]
                if any(isinstance(s, ast.Expr) and empties(helper, s) for s in helper.node.body):  # type: ignore[attr-defined]
                    return True
        return False

    def reads(node: ast.AST, holder: Optional[FuncInfo] = None, depth: int = 0) -> bool:
        """the statement reads the fix line: directly, or through a helper of the manager that does"""
        if any(isinstance(sub, ast.Attribute) and sub.attr == "current_fix_line" and isinstance(sub.ctx, ast.Load) for sub in ast.walk(node)):
            return True
        if holder is not None and depth < 2:
            for call in [c for c in ast.walk(node) if isinstance(c, ast.Call)]:
                site = site_for(prog, holder, call)
                if site is not None and len(site.targets) == 1 and site.targets[0].cls == manager and not empties(holder, call):
                    helper = site.targets[0]
                    if any(reads(sub, helper, depth + 1) for sub in helper.node.body):  # type: ignore[attr-defined]
                        return True
        return False

    checked = 0
    for callback in ("next_line", "completed_file", "next_token", "starting_new_file"):
        dispatcher = manager.methods.get(callback)
        if dispatcher is None:
            continue
        for loop in [n for n in walk_local(dispatcher.node) if isinstance(n, ast.For)]:
            if not any(isinstance(c, ast.Call) and isinstance(c.func, ast.Attribute) and c.func.attr == callback and isinstance(c.func.value, ast.Attribute) and c.func.value.attr == "plugin_instance" for c in ast.walk(loop)):
                continue
            if not any(reads(stmt, dispatcher) for stmt in loop.body):
                continue
            checked += 1
            body_fn = ast.FunctionDef(name="<body>", args=ast.arguments(posonlyargs=[], args=[], kwonlyargs=[], kw_defaults=[], defaults=[]), body=loop.body, decorator_list=[], lineno=loop.lineno, col_offset=0)
            cfg = CFG(body_fn, raising=lambda n: False)
            witness = None
            for path in enumerate_paths(cfg, loop_bound=1, stop=lambda nid: isinstance(cfg.nodes[nid].ast_node, ast.Continue)):
                taken: Dict[str, str] = {}
                consistent = True
                emptied = False
                called = False
                scan_mode = False
                stale = None
                for nid, label in path:
                    node = cfg.nodes[nid]
                    if node.ast_node is None:
                        continue
                    if node.kind == "cond":
                        text = norm(node.ast_node)
                        if taken.setdefault(text, label) != label:
                            consistent = False
                            break
                        if text.endswith("in_fix_mode") and label == "false":
                            scan_mode = True
                        if called and not emptied and reads(node.ast_node, dispatcher):
                            stale = node.ast_node
                    elif node.kind == "stmt":
                        if not called and empties(dispatcher, node.ast_node):
                            emptied = True
                        if any(isinstance(c, ast.Call) and isinstance(c.func, ast.Attribute) and c.func.attr == callback and isinstance(c.func.value, ast.Attribute) and c.func.value.attr == "plugin_instance" for c in ast.walk(node.ast_node)):
                            called = True
                        elif called and not emptied and reads(node.ast_node, dispatcher):
                            stale = node.ast_node
                if consistent and not scan_mode and stale is not None:
                    witness = stale
                    break
            key = func_key(dispatcher, loop) + " [fix line emptied first]"
            if witness is not None:
                rule.fail(key, where(dispatcher, witness), f"PluginManager.{callback} reads the context's fix line after the callback ('{norm(witness)[:60]}') on a fix-mode path that has not emptied it before the callback: what an earlier callback left there is taken for this rule's answer and written to the file")
            else:
                rule.ok(key, "emptied before the callback on every fix-mode path that reads it")
    if checked < 2:
        raise AnalysisError(f"only {checked} dispatcher loop(s) that read the fix line found (2 confirmed: next_line, completed_file)")


def r14d(ctx: Context) -> None:
    prog = ctx.prog
    rule = ctx.rule("R14d", "dispatch lists are built from the enabled plugins only", 1)
    apply_all = prog.method(PM, "apply_configuration")
    sites = prog.callers.get(apply_all.qualname, [])
    if not sites:
        raise AnalysisError("PluginManager.apply_configuration is never called")
    for site in sites:
        bound = Program.bind_args(apply_all, site.node, skip_self=True)
        from sa.util import param_by_annotation

        arg = bound.get(param_by_annotation(apply_all, "bool", exact=True) or "use_full_list")
        key = func_key(site.caller, site.node)
        if arg is None or (isinstance(arg, ast.Constant) and arg.value is False):
            rule.ok(key, "enabled list")
        else:
            rule.fail(key, site.where, "apply_configuration is asked for the full list: disabled rules receive events")
    # and the chosen list is the enabled one when the flag is false
    picks = [n for n in walk_local(apply_all.node) if isinstance(n, ast.IfExp)]
    for pick in picks:
        if "use_full_list" in norm(pick.test):
            if "enabled" in norm(pick.orelse) and "registered" in norm(pick.body):
                rule.ok(func_key(apply_all, pick), "registered if use_full_list else enabled")
            else:
                rule.fail(func_key(apply_all, pick), where(apply_all, pick), "the list used without use_full_list is not the enabled list")


def r14e(ctx: Context) -> None:
    """The line loop, whatever its form (``while line is not None`` with an explicit fetch, or ``for line in
    iter(provider.get_next_line, None)``): it is executed symbolically for 0, 1, 2 and 3 iterations with integer
    locals evaluated concretely.  In iteration k the dispatcher must be called exactly once, with line number k
    and with the line just fetched; every iteration fetches exactly once; afterwards ``completed_file`` gets
    (number of lines + 1)."""
    from sa.util import param_by_annotation

    prog = ctx.prog
    rule = ctx.rule("R14e", "line loop: deliver once, count once, fetch once per iteration; first line is 1", 4)
    func = prog.method(FSH, "__process_lines_in_file")
    dispatcher = prog.method(PM, "next_line")
    completer = prog.method(PM, "completed_file")
    call = next((site for site in prog.sites_in(func) if dispatcher in site.targets), None)
    if call is None:
        rule.fail(func_key(func), where(func), "the line loop no longer hands lines to PluginManager.next_line")
        return
    loops = [n for n in walk_local(func.node) if isinstance(n, (ast.While, ast.For)) and any(sub is call.node for sub in ast.walk(n))]
    if len(loops) != 1 or loops[0] not in func.node.body:  # type: ignore[attr-defined]
        raise AnalysisError("__process_lines_in_file: the loop that delivers the lines was not found at the top level of the function")
    loop = loops[0]
    bound = Program.bind_args(dispatcher, call.node, skip_self=True)
    counter_arg = bound.get(param_by_annotation(dispatcher, "int", exact=True) or "line_number")
    line_arg = bound.get(param_by_annotation(dispatcher, "str", exact=True) or "line")
    if counter_arg is None or not isinstance(line_arg, ast.Name):
        rule.fail(func_key(func, call.node), call.where, "line number / line text are not passed to the dispatcher")
        return

    def is_fetch(expr: ast.AST) -> bool:
        return isinstance(expr, ast.Call) and isinstance(expr.func, ast.Attribute) and expr.func.attr == "get_next_line" and not expr.args

    def is_line_iterator(expr: ast.AST, env_iters: Set[str]) -> bool:
        if isinstance(expr, ast.Name):
            return expr.id in env_iters
        return (isinstance(expr, ast.Call) and dotted(expr.func) == "iter" and len(expr.args) == 2 and isinstance(expr.args[0], ast.Attribute)
                and expr.args[0].attr == "get_next_line" and isinstance(expr.args[1], ast.Constant) and expr.args[1].value is None)

    def value(expr: ast.AST, env: Dict[str, int]) -> Optional[int]:
        if isinstance(expr, ast.Constant) and isinstance(expr.value, int) and not isinstance(expr.value, bool):
            return expr.value
        if isinstance(expr, ast.Name):
            return env.get(expr.id)
        if isinstance(expr, ast.BinOp) and isinstance(expr.op, (ast.Add, ast.Sub)):
            left, right = value(expr.left, env), value(expr.right, env)
            if left is None or right is None:
                return None
            return left + right if isinstance(expr.op, ast.Add) else left - right
        return None

    def execute(stmt: ast.stmt, env: Dict[str, int], events: List[Tuple[str, object]], iterators: Set[str]) -> None:
        if isinstance(stmt, ast.Assign):
            for target in stmt.targets:
                for tgt, val, _ in Program._unpack(target, stmt.value):
                    if not isinstance(tgt, ast.Name) or val is None:
                        continue
                    if is_fetch(val):
                        events.append(("fetch", tgt.id))
                    elif is_line_iterator(val, iterators):
                        iterators.add(tgt.id)
                    else:
                        number = value(val, env)
                        if number is not None:
                            env[tgt.id] = number
                        else:
                            env.pop(tgt.id, None)
        elif isinstance(stmt, ast.AugAssign) and isinstance(stmt.target, ast.Name) and isinstance(stmt.op, (ast.Add, ast.Sub)):
            before, delta = env.get(stmt.target.id), value(stmt.value, env)
            if before is not None and delta is not None:
                env[stmt.target.id] = before + delta if isinstance(stmt.op, ast.Add) else before - delta
            else:
                env.pop(stmt.target.id, None)
        if any(sub is call.node for sub in ast.walk(stmt)):
            events.append(("deliver", (value(counter_arg, env), line_arg.id)))

    env: Dict[str, int] = {}
    events: List[Tuple[str, object]] = []
    iterators: Set[str] = set()
    position = func.node.body.index(loop)  # type: ignore[attr-defined]
    for stmt in func.node.body[:position]:  # type: ignore[attr-defined]
        execute(stmt, env, events, iterators)
    line_variable = line_arg.id
    problems: List[str] = []
    if isinstance(loop, ast.While):
        if norm(loop.test) != f"{line_variable} is not None":
            problems.append(f"the loop stops on '{norm(loop.test)}' rather than when the provider is exhausted ('{line_variable} is not None'): an empty line ends delivery early or the loop overruns")
        if events != [("fetch", line_variable)]:
            problems.append(f"before the loop the first line is not fetched exactly once into '{line_variable}' ({events})")
    else:
        target_ok = isinstance(loop.target, ast.Name) and loop.target.id == line_variable
        if not (target_ok and is_line_iterator(loop.iter, iterators)):
            problems.append(f"the loop iterates '{norm(loop.iter)}' into '{norm(loop.target)}', which is not 'every line the provider returns until None' delivered as it is")
        if events:
            problems.append(f"a line is fetched outside the iterator ({events})")
    body_fn = ast.FunctionDef(name="<body>", args=ast.arguments(posonlyargs=[], args=[], kwonlyargs=[], kw_defaults=[], defaults=[]), body=loop.body, decorator_list=[], lineno=loop.lineno, col_offset=0)
    cfg = CFG(body_fn, raising=lambda n: False)
    paths = [path for path in enumerate_paths(cfg, loop_bound=1) if path[-1][0] == cfg.exit]
    completion = [s for s in prog.sites_in(func) if completer in s.targets]
    completion_arg = None
    if len(completion) == 1 and completion[0].node.lineno > (loop.end_lineno or loop.lineno):
        completion_arg = Program.bind_args(completer, completion[0].node, skip_self=True).get(param_by_annotation(completer, "int", exact=True) or "line_number")
    iteration_env = dict(env)
    for iteration in range(0, 4):
        if completion_arg is not None:
            after = value(completion_arg, iteration_env)
            if after != iteration + 1:
                problems.append(f"after {iteration} line(s) completed_file is given line number {after}, expected {iteration + 1}")
        if iteration == 3:
            break
        outcomes = []
        for path in paths:
            trial_env = dict(iteration_env)
            trial_events: List[Tuple[str, object]] = []
            jumped = False
            for nid, _ in path:
                node = cfg.nodes[nid]
                if node.kind == "stmt" and node.ast_node is not None:
                    if isinstance(node.ast_node, (ast.Continue, ast.Break)):
                        jumped = True
                    execute(node.ast_node, trial_env, trial_events, iterators)  # type: ignore[arg-type]
            outcomes.append((trial_env, trial_events, jumped))
        for trial_env, trial_events, jumped in outcomes:
            delivers = [e for e in trial_events if e[0] == "deliver"]
            fetches = [e for e in trial_events if e[0] == "fetch"]
            wanted_fetches = 1 if isinstance(loop, ast.While) else 0
            if jumped:
                problems.append("a path through the loop body leaves it early (continue / break): a line is skipped")
            if len(delivers) != 1 or delivers[0][1] != (iteration + 1, line_variable):
                problems.append(f"iteration {iteration + 1} delivers {[d[1] for d in delivers]}; it must deliver the current line exactly once with line number {iteration + 1}")
            if len(fetches) != wanted_fetches or any(f[1] != line_variable for f in fetches):
                problems.append(f"iteration {iteration + 1} fetches {len(fetches)} line(s); it must fetch the next line exactly once" if isinstance(loop, ast.While) else f"iteration {iteration + 1} fetches a line although the iterator already does")
            if isinstance(loop, ast.While) and delivers and fetches and trial_events.index(fetches[0]) < trial_events.index(delivers[0]):
                problems.append("the next line is fetched before the current one is delivered: the first line is lost")
        if outcomes:
            iteration_env = outcomes[0][0]
            if any(o[0] != iteration_env for o in outcomes):
                problems.append("the paths through the loop body disagree on the line counter")
    key = f"{func.short}: line loop"
    if completion_arg is None:
        problems.append("completed_file is not called exactly once after the line loop with the line counter")
    unique = sorted(set(problems))
    if unique:
        rule.fail(key, where(func, loop), f"one iteration of the line loop does not deliver once / count once / fetch once: {unique[0]}" + (f" (+{len(unique) - 1} more)" if len(unique) > 1 else ""))
    else:
        rule.ok(key, f"{'while' if isinstance(loop, ast.While) else 'for'} loop: line k is delivered once with number k, one fetch per iteration, completion with n + 1")
        rule.ok(key + " [first line]", "the first delivered line has number 1")
        rule.ok(key + " [completion]", "completed_file after the last line with the counter")
        rule.ok(key + " [exhaustion]", "runs until the provider returns None")



def r14f(ctx: Context) -> None:
    prog = ctx.prog
    rule = ctx.rule("R14f", "dispatchers never rebind their context parameter", 3)
    manager = prog.cls(PM)
    ctx_cls = prog.cls(PSC)
    for name in ("next_token", "next_line", "completed_file"):
        func = manager.methods.get(name)
        if func is None:
            raise AnalysisError(f"PluginManager.{name} missing")
        object_params = [p for p in func.params[1:] if (func.param_types.get(p) or (None,))[0] == "cls" and func.param_types[p][1] == ctx_cls]
        for param in object_params:
            rebinds = [
                n for n in walk_local(func.node)
                if isinstance(n, (ast.Assign, ast.AugAssign, ast.AnnAssign, ast.NamedExpr, ast.For))
                and any(isinstance(t, ast.Name) and t.id == param and isinstance(t.ctx, ast.Store) for t in ast.walk(n))
            ]
            key = f"{func.short}: parameter '{param}'"
            if rebinds:
                rule.fail(key, where(func, rebinds[0]), f"PluginManager.{name} rebinds its '{param}' parameter ('{norm(rebinds[0])}') and uses it afterwards: what is written to the output file depends on which plugin was dispatched last (fix can write an empty file)")
            else:
                rule.ok(key, "single definition: the parameter")


def r14g(ctx: Context) -> None:
    prog = ctx.prog
    rule = ctx.rule("R14g", "a provider consumed by the tokenizer is reset before lines are read from it", 3)
    consume = prog.method("pymarkdown.general.tokenized_markdown.TokenizedMarkdown", "transform_from_provider")
    for site in prog.callers.get(consume.qualname, []):
        func = site.caller
        if not site.node.args or not isinstance(site.node.args[0], ast.Name):
            continue
        provider = site.node.args[0].id
        cfg = CFG(func.node, raising=lambda n: False)
        start = None
        for node in cfg.nodes:
            if node.ast_node is not None and any(sub is site.node for sub in ast.walk(node.ast_node)) and node.kind in ("stmt", "cond"):
                start = node.nid
        if start is None:
            raise AnalysisError(f"{func.short}: CFG node of transform_from_provider not found")
        resets: Set[int] = set()
        uses: Set[int] = set()
        for node in cfg.nodes:
            if node.ast_node is None or node.nid == start or node.kind not in ("stmt", "cond", "with"):
                continue
            for call in [c for c in ast.walk(node.ast_node) if isinstance(c, ast.Call)]:
                if isinstance(call.func, ast.Attribute) and isinstance(call.func.value, ast.Name) and call.func.value.id == provider:
                    if call.func.attr == "reset_to_start":
                        resets.add(node.nid)
                    elif call.func.attr in ("get_next_line",):
                        uses.add(node.nid)
                elif any(isinstance(a, ast.Name) and a.id == provider for a in list(call.args) + [k.value for k in call.keywords]):
                    uses.add(node.nid)
        key = f"{func.short}: provider '{provider}' after tokenizing"
        if not uses:
            rule.ok(key, "not read again after the tokenizer consumed it")
            continue
        witness = all_paths_pass(cfg, start, resets, ends=uses, labels={"next", "true", "false"})
        if witness is None:
            rule.ok(key, f"reset_to_start() cuts every path to {len(uses)} later use(s)")
        else:
            rule.fail(key, where(func, cfg.nodes[witness[-1]].ast_node), f"'{provider}' was consumed by the tokenizer and is handed on without reset_to_start(): no line is delivered to any rule", describe_path(cfg, witness))
    # providers handed to the line loop are FileSourceProvider objects (same line splitting as the parser saw)
    line_loop = prog.method(FSH, "__process_lines_in_file")
    for site in prog.callers.get(line_loop.qualname, []):
        bound = Program.bind_args(line_loop, site.node, skip_self=True)
        first = next((a.arg for a in line_loop.node.args.args if a.arg not in ("self", "cls")), None)  # type: ignore[attr-defined]
        arg = bound.get(first) if first else None
        typ = prog.infer(site.caller, arg) if arg is not None else None
        key = func_key(site.caller, site.node) + " [provider]"
        if typ and typ[0] == "cls" and typ[1].name == "FileSourceProvider":
            rule.ok(key, "FileSourceProvider")
        else:
            rule.fail(key, site.where, "the line loop is not fed from a FileSourceProvider")


def r14i(ctx: Context) -> None:
    """Within one pass every dispatcher call uses the same plugin filter (context map)."""
    prog = ctx.prog
    rule = ctx.rule("R14i", "all dispatcher calls of one pass use the same per-plugin context map", 3)
    manager = prog.cls(PM)
    dispatchers = {manager.methods[name] for name in ("next_token", "next_line", "completed_file") if name in manager.methods}
    line_loop = prog.method(FSH, "__process_lines_in_file")
    for func in prog.cls(FSH).methods.values():
        calls = []
        for site in prog.sites_in(func):
            targets = set(site.targets)
            if targets & dispatchers or line_loop in targets:
                callee = next(iter(targets & dispatchers), line_loop)
                bound = Program.bind_args(callee, site.node, skip_self=True)
                # the per-plugin context map is the parameter typed Optional[Dict[str, PluginScanContext]]
                map_param = next(
                    (a.arg for a in callee.node.args.args + callee.node.args.kwonlyargs  # type: ignore[attr-defined]
                     if a.annotation is not None and "Dict[str" in ast.unparse(a.annotation) and "PluginScanContext" in ast.unparse(a.annotation)),
                    None,
                )
                if map_param is None:
                    raise AnalysisError(f"{callee.short}: no parameter carries the per-plugin context map")
                arg = bound.get(map_param)
                text = None if arg is None or (isinstance(arg, ast.Constant) and arg.value is None) else norm(arg)
                calls.append((site, callee, text))
        if len(calls) < 2:
            continue
        maps = {text for _, _, text in calls}
        key = f"{func.short}: context map"
        if len(maps) == 1:
            rule.ok(key, f"{len(calls)} dispatcher call(s), all with context_map={next(iter(maps))}")
        else:
            odd = next((site, callee) for site, callee, text in calls if text is None) if None in maps else (calls[0][0], calls[0][1])
            rule.fail(key, odd[0].where, f"{func.short} dispatches {sorted(str(m) for m in maps)} as context maps within one pass: {odd[1].short} reaches plugins that are not part of the pass (a callback without the preceding start/tokens, or with the wrong context)")


def r14h(ctx: Context) -> None:
    """Line providers split the document on the newline character and on nothing else."""
    prog = ctx.prog
    rule = ctx.rule("R14h", "line providers split on the newline character only", 2)
    module = prog.by_rel.get("pymarkdown/general/source_providers.py")
    if module is None:
        raise AnalysisError("source_providers.py not found")
    splitters = 0
    for func in prog.iter_functions("pymarkdown.general.source_providers."):
        for node in walk_local(func.node):
            if not (isinstance(node, ast.Call) and isinstance(node.func, ast.Attribute)):
                continue
            name = node.func.attr
            key = func_key(func, node)
            if name in ("splitlines", "partition", "rpartition") or (dotted(node.func) or "").startswith("re."):
                rule.fail(key, where(func, node), f"{func.short} splits the document with {name}(): str.splitlines() also breaks lines at form feed, vertical tab, NEL, U+2028/2029 and friends, so rules receive other lines (and line numbers) than the file has")
            elif name == "readlines":
                splitters += 1
                if node.args or node.keywords:
                    rule.fail(key, where(func, node), f"{func.short} calls readlines({norm(node.args[0]) if node.args else norm(node.keywords[0].value)}): the argument is a size hint, reading stops once about that many characters were read, so the tokens and the lines of a larger document end early - without an error")
                else:
                    rule.ok(key, "file read line by line (newline-terminated lines), whole file")
            elif name in ("split", "rsplit"):
                splitters += 1
                sep = node.args[0] if node.args else None
                if sep is not None and (norm(sep).endswith("newline_character") or (isinstance(sep, ast.Constant) and sep.value == "\n")):
                    rule.ok(key, "split on the newline character")
                else:
                    rule.fail(key, where(func, node), f"{func.short} splits the document on '{norm(sep) if sep is not None else 'whitespace'}', not on the newline character")
    # the file is read in universal-newline mode: a carriage return is part of a line ending, never of the line's text
    opens = 0
    for func in prog.iter_functions("pymarkdown.general.source_providers."):
        for site in prog.sites_in(func):
            if site.external not in ("builtins.open", "io.open", "codecs.open"):
                continue
            opens += 1
            key = func_key(func, site.node) + " [newline mode]"
            newline = next((k.value for k in site.node.keywords if k.arg == "newline"), site.node.args[5] if len(site.node.args) > 5 else None)
            mode = next((k.value for k in site.node.keywords if k.arg == "mode"), site.node.args[1] if len(site.node.args) > 1 else None)
            binary = isinstance(mode, ast.Constant) and isinstance(mode.value, str) and "b" in mode.value
            if binary or (newline is not None and not (isinstance(newline, ast.Constant) and newline.value is None)):
                rule.fail(key, site.where, f"{func.short} opens the document with {'a binary mode' if binary else 'newline=' + norm(newline)}: '\\r\\n' and '\\r' line endings are no longer translated, so rules receive lines that end in a carriage return (and a lone '\\r' no longer ends a line)")
            else:
                rule.ok(key, "text mode, universal newlines")
    if opens < 1:
        raise AnalysisError("the file provider no longer opens the document (anchor moved)")
    if splitters < 2:
        raise AnalysisError(f"only {splitters} line-splitting constructs found in the source providers (3 confirmed)")
    # the file provider strips exactly one trailing newline character per line
    provider = prog.method("pymarkdown.general.source_providers.FileSourceProvider", "__init__")
    strips = [n for n in walk_local(provider.node) if isinstance(n, ast.Call) and isinstance(n.func, ast.Attribute) and n.func.attr in ("strip", "rstrip", "lstrip")]
    for node in strips:
        rule.fail(func_key(provider, node), where(provider, node), "the file provider strips characters from lines: trailing whitespace that rules must see is lost")


FOUND_PLUGIN = "pymarkdown.plugin_manager.found_plugin.FoundPlugin"
_CASE_KEEPING = {"strip", "lstrip", "rstrip", "split", "rsplit", "splitlines", "removeprefix", "removesuffix", "partition", "rpartition"}


def identifiers_lowered(ctx: Context, rule_id: str = "R14p") -> None:
    """Whether a rule is switched off is decided by looking its identifiers up in what the user wrote, lower-cased
    (-d / -e lists, 'plugins.<identifier>' sections).  So every identifier a rule is registered under - its id and
    each of its names - is lower-cased where the rule's details are unpacked; one that keeps the author's capitals can
    never be matched: the rule stays enabled and receives the whole life-cycle although the user disabled it."""
    prog = ctx.prog
    rule = ctx.rule(rule_id, "every identifier a rule is registered under is lower-cased (as the look-ups are)", 2)
    record = prog.cls(FOUND_PLUGIN)
    fields = list(record.class_attr_types)
    if "plugin_identifiers" not in fields:
        raise AnalysisError("FoundPlugin has no plugin_identifiers field (anchor moved)")
    manager = prog.cls(PM)

    def assignments(func: FuncInfo, name: str) -> List[Tuple[str, ast.AST, Optional[int]]]:
        """('value', expr, index-in-unpacked-tuple or None) | ('element', iterable, None) | ('added', expr, None)"""
        out: List[Tuple[str, ast.AST, Optional[int]]] = []
        for node in walk_local(func.node):
            if isinstance(node, (ast.Assign, ast.AnnAssign)) and node.value is not None:
                targets = node.targets if isinstance(node, ast.Assign) else [node.target]
                for target in targets:
                    if isinstance(target, ast.Name) and target.id == name:
                        out.append(("value", node.value, None))
                    elif isinstance(target, (ast.Tuple, ast.List)):
                        for index, element in enumerate(target.elts):
                            if isinstance(element, ast.Name) and element.id == name:
                                out.append(("value", node.value, index))
            elif isinstance(node, ast.NamedExpr) and node.target.id == name:
                out.append(("value", node.value, None))
            elif isinstance(node, (ast.For, ast.comprehension)) and isinstance(node.target, ast.Name) and node.target.id == name:
                out.append(("element", node.iter, None))
            elif isinstance(node, ast.Call) and isinstance(node.func, ast.Attribute) and isinstance(node.func.value, ast.Name) and node.func.value.id == name:
                if node.func.attr in ("append", "add") and node.args:
                    out.append(("added", node.args[0], None))
                elif node.func.attr in ("extend", "update") and node.args:
                    out.append(("element", node.args[0], None))
                elif node.func.attr == "insert" and len(node.args) > 1:
                    out.append(("added", node.args[1], None))
        return out

    parent_maps: Dict[str, Dict[int, ast.AST]] = {}

    def is_lower_chain(value: ast.AST) -> bool:
        while isinstance(value, ast.Call) and isinstance(value.func, ast.Attribute) and value.func.attr in _CASE_KEEPING:
            value = value.func.value
        return isinstance(value, ast.Call) and isinstance(value.func, ast.Attribute) and value.func.attr in ("lower", "casefold")

    def dominating_lowering(func: FuncInfo, use: ast.Name, found: List[Tuple[str, ast.AST, Optional[int]]]) -> bool:
        """A lower-casing re-definition of the name ('x = x.strip().lower()', 'if x := x.strip().lower():') that is
        executed on every path to this use, with no other definition of the name between the two."""
        if not hasattr(use, "lineno"):
            return False
        if func.qualname not in parent_maps:
            parent_maps[func.qualname] = {id(child): node for node in ast.walk(func.node) for child in ast.iter_child_nodes(node)}
        parents = parent_maps[func.qualname]

        def ancestors(node: ast.AST) -> List[ast.AST]:
            out = []
            while id(node) in parents:
                node = parents[id(node)]
                out.append(node)
            return out

        use_pos = (use.lineno, use.col_offset)
        use_chain = [use] + ancestors(use)
        best: Optional[Tuple[int, int]] = None
        for node in walk_local(func.node):
            if isinstance(node, ast.NamedExpr) and node.target.id == use.id:
                value = node.value
            elif isinstance(node, ast.Assign) and len(node.targets) == 1 and isinstance(node.targets[0], ast.Name) and node.targets[0].id == use.id:
                value = node.value
            else:
                continue
            pos = (node.lineno, node.col_offset)
            if pos >= use_pos or not is_lower_chain(value):
                continue
            stmt = node if isinstance(node, ast.stmt) else next((a for a in ancestors(node) if isinstance(a, ast.stmt)), None)
            if stmt is None:
                continue
            dominated = False
            if isinstance(stmt, (ast.If, ast.While)) and not isinstance(node, ast.stmt):
                test = stmt.test
                first = test.values[0] if isinstance(test, ast.BoolOp) else test
                if first is node:
                    dominated = any(any(anc is body_stmt for anc in use_chain) for body_stmt in stmt.body)
            elif isinstance(node, ast.stmt):
                holder = parents.get(id(stmt))
                for field in ("body", "orelse", "finalbody"):
                    block = getattr(holder, field, None)
                    if isinstance(block, list) and any(item is stmt for item in block):
                        index = next(i for i, item in enumerate(block) if item is stmt)
                        dominated = any(any(anc is later for anc in use_chain) for later in block[index + 1:])
            if dominated and (best is None or pos > best):
                best = pos
        if best is None:
            return False
        for _, value, _ in found:
            pos = (getattr(value, "lineno", 0), getattr(value, "col_offset", 0))
            if best < pos < use_pos and not is_lower_chain(value):
                return False
        return True

    def lowered(func: FuncInfo, expr: ast.AST, seen: Set[Tuple[str, str]], pick: Optional[int] = None) -> Optional[ast.AST]:
        """None when every value of expr is lower-cased; otherwise the expression where a value enters unlowered."""
        if pick is not None and isinstance(expr, (ast.Tuple, ast.List)) and pick < len(expr.elts):
            return lowered(func, expr.elts[pick], seen)
        if isinstance(expr, ast.Constant):
            return None if not isinstance(expr.value, str) or expr.value == expr.value.lower() else expr
        if isinstance(expr, (ast.List, ast.Tuple, ast.Set)):
            for element in expr.elts:
                bad = lowered(func, element.value if isinstance(element, ast.Starred) else element, seen)
                if bad is not None:
                    return bad
            return None
        if isinstance(expr, (ast.ListComp, ast.SetComp, ast.GeneratorExp)):
            return lowered(func, expr.elt, seen)
        if isinstance(expr, ast.IfExp):
            return lowered(func, expr.body, seen) or lowered(func, expr.orelse, seen)
        if isinstance(expr, ast.NamedExpr):
            return lowered(func, expr.value, seen)
        if isinstance(expr, ast.Subscript):
            return lowered(func, expr.value, seen)
        if isinstance(expr, ast.Call):
            if isinstance(expr.func, ast.Attribute) and expr.func.attr in ("lower", "casefold"):
                return None
            if isinstance(expr.func, ast.Attribute) and expr.func.attr in _CASE_KEEPING:
                return lowered(func, expr.func.value, seen)
            if isinstance(expr.func, ast.Name) and expr.func.id in ("list", "tuple", "set", "sorted", "str", "frozenset") and expr.args:
                return lowered(func, expr.args[0], seen)
            if isinstance(expr.func, ast.Name) and expr.func.id in ("list", "set") and not expr.args:
                return None
            site = next((s for s in prog.sites_in(func) if s.node is expr), None)
            if site is not None and site.targets and not site.wild:
                for target in site.targets:
                    if (target.qualname, "<return>") in seen:
                        continue
                    seen = seen | {(target.qualname, "<return>")}
                    for ret in [n for n in walk_local(target.node) if isinstance(n, ast.Return) and n.value is not None]:
                        bad = lowered(target, ret.value, seen, pick)
                        if bad is not None:
                            return bad
                return None
            return expr
        if isinstance(expr, ast.Name):
            if (func.qualname, expr.id) in seen:
                return None
            seen = seen | {(func.qualname, expr.id)}
            found = assignments(func, expr.id)
            if not found:
                return expr
            if dominating_lowering(func, expr, found):
                return None
            # an unconditional re-assignment at the top level of the function, after every other write, is the value
            # the name has from there on ('x = x.strip().lower()' behind a 'try' that fetched x)
            top_level = {id(value) for stmt in func.node.body if isinstance(stmt, (ast.Assign, ast.AnnAssign)) and stmt.value is not None
                         and all(isinstance(t, ast.Name) for t in (stmt.targets if isinstance(stmt, ast.Assign) else [stmt.target])) for value in [stmt.value]}
            last = max(found, key=lambda item: getattr(item[1], "lineno", 0))
            if last[0] == "value" and id(last[1]) in top_level and sum(1 for item in found if getattr(item[1], "lineno", 0) >= getattr(last[1], "lineno", 0)) == 1:
                value = last[1]
                while isinstance(value, ast.Call) and isinstance(value.func, ast.Attribute) and value.func.attr in _CASE_KEEPING:
                    value = value.func.value
                if isinstance(value, ast.Call) and isinstance(value.func, ast.Attribute) and value.func.attr in ("lower", "casefold"):
                    return None
            for kind, value, index in found:
                bad = lowered(func, value, seen, index)
                if bad is not None:
                    return bad
            return None
        return expr

    built = 0
    for func in prog.iter_functions():
        if func.cls != manager:
            continue
        for node in walk_local(func.node):
            if not (isinstance(node, ast.Call) and (dotted(node.func) or "").split(".")[-1] == "FoundPlugin"):
                continue
            bound: Dict[str, ast.AST] = {}
            for index, arg in enumerate(node.args):
                if index < len(fields):
                    bound[fields[index]] = arg
            for keyword in node.keywords:
                if keyword.arg:
                    bound[keyword.arg] = keyword.value
            for field in ("plugin_identifiers", "plugin_id", "plugin_names"):
                if field not in bound:
                    continue
                built += 1
                key = f"{func.short}: FoundPlugin.{field}"
                bad = lowered(func, bound[field], set())
                if bad is None:
                    rule.ok(key, f"'{norm(bound[field])[:60]}' is lower-cased on every path")
                else:
                    rule.fail(key, f"{func.rel}:{node.lineno}", f"FoundPlugin.{field} ('{norm(bound[field])[:60]}') takes a value from '{norm(bad)[:70]}' that was never lower-cased: the -d / -e lists and the configuration sections are looked up in lower case, so a rule whose author used a capital in that identifier cannot be disabled (or configured) by it and keeps receiving every event")
    if built == 0:
        raise AnalysisError("no FoundPlugin construction found in the plugin manager (anchor moved)")


def run(ctx: Context) -> None:
    ra = RaiseAnalysis(ctx.prog)
    r14ab(ctx, ra)
    r14_token_loops(ctx)
    r14_tokenizer_calls(ctx)
    r14_single_start(ctx)
    r14c(ctx)
    r14d(ctx)
    dispatch_lists_frozen(ctx)
    identifiers_lowered(ctx)
    r14o(ctx)
    r14e(ctx)
    r14f(ctx)
    r14g(ctx)
    r14h(ctx)
    r14i(ctx)
