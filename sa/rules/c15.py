"""C15 — failures are contained: errors are reported, never success, nothing is damaged."""

from __future__ import annotations

import ast
from typing import Dict, List, Optional, Set, Tuple

from sa.cfg import CFG
from sa.model import AnalysisError, FuncInfo, Program, dotted, norm, walk_local
from sa.raises import RaiseAnalysis
from sa.report import Context, Rule
from sa.rules import common
from sa.rules.common import FSH, MAIN
from sa.util import (
    all_paths_pass,
    catching_handler,
    describe_path,
    enclosing_tries,
    enum_member,
    func_key,
    handler_always_raises,
    is_catch_all,
    reaching_values,
    returns_of,
    site_for,
    where,
)

EXPLANATION = (
    "Decides, from /repo's current source: R15a every parse entry point reaches the three passes only inside "
    "try/except Exception -> raise BadTokenizationError; R15b every call into plugin code is inside "
    "try/except Exception -> raise BadPluginError; R15c (may-raise analysis over the call graph) no plugin error, "
    "parser error or read/decoding error of the document escapes a per-file function past the handlers that know "
    "the file name; R15d the per-file success status is never dropped; R15e every exception handler of the "
    "application object ends in the system-error exit on every path; R15f every temporary file of a fix pass is "
    "removed or handed to the caller on every normal and exceptional path (CFG pairing with exception edges from "
    "the may-raise analysis); R15g the user's file is replaced atomically, never written in place and never removed; R15h the "
    "'file was changed' flag survives a later fault; R15i/R15j (=R13b/R13c) per-file state of rules, manager and tokenizer is reset when a file starts, on every path, so a failing file cannot leak into the next one; R15k (=R18c) a failed file always outranks fixed/triggered in the final result; R15l a per-file function that reported an error returns the failure status on that path. R15o every exception handler of the run driver reports the error through the per-file reporter or re-raises, on every path; R15p (=R14n) no failure changes a dispatch list. R15q (=R16i) a document that cannot be decoded raises (and is reported) instead of being scanned as replaced text; R15g also: the staging name is made by tempfile, not spelled from the user's path. Not decided: that an error message is helpful; behaviour under "
    "SIGKILL between two system calls other than the write-back itself; implicit IndexError/KeyError are internal "
    "errors routed through the catch-all handlers (C01/C07), not modelled as failure sources."
)
ASSUMPTIONS = [
    "exceptions modelled: explicit raise statements, sys.exit, open/read*/write/os.remove/shutil/tempfile (see sa/raises.py); "
    "a call with no modelled exception has no exceptional edge",
    "os.replace within one directory is atomic (POSIX rename)",
]

FAILURE_CLASSES = {"BadPluginError", "BadPluginFixError", "BadTokenizationError"}
DOCUMENT_READ_SOURCES = {"open", "read", "readlines", "readline"}
TM = "pymarkdown.general.tokenized_markdown.TokenizedMarkdown"


def r15a(ctx: Context) -> None:
    prog = ctx.prog
    rule = ctx.rule("R15a", "parse passes run only inside try/except Exception -> BadTokenizationError", 4)
    tm = prog.cls(TM)
    passes = {
        prog.method(TM, "__parse_blocks_pass").qualname,
        prog.method("pymarkdown.coalesce.coalesce_processor.CoalesceProcessor", "coalesce_text_blocks").qualname,
        prog.method("pymarkdown.inline.inline_processor.InlineProcessor", "parse_inline").qualname,
    }
    def contained(func: FuncInfo, node: ast.AST, depth: int = 0) -> Tuple[bool, str]:
        """inside try/except Exception -> BadTokenizationError here, or in every caller (of the tokenizer) up the chain"""
        handler = catching_handler(func.node, node, is_catch_all)
        if handler is not None:
            ok, why = handler_always_raises(handler, {"BadTokenizationError"})
            return (True, "converted to BadTokenizationError") if ok else (False, f"the handler around the parser pass does not always raise BadTokenizationError: {why}")
        callers = [s for s in prog.callers.get(func.qualname, []) if s.caller.cls == tm]
        if not callers or depth > 3 or not func.name.startswith("_"):
            return False, "a parser pass is invoked outside try/except Exception: an internal parser error escapes unconverted"
        for caller_site in callers:
            ok, why = contained(caller_site.caller, caller_site.node, depth + 1)
            if not ok:
                return False, why
        return True, f"converted to BadTokenizationError by the caller(s) of {func.short}"

    for func in tm.methods.values():
        for site in prog.sites_in(func):
            if not any(t.qualname in passes for t in site.targets):
                continue
            key = func_key(func, site.node)
            ok, why = contained(func, site.node)
            if ok:
                rule.ok(key, why)
            else:
                rule.fail(key, site.where, why)
    # every public entry reaches the passes through such a function only
    for name in ("transform", "transform_from_provider"):
        entry = prog.method(TM, name)
        reach = prog.reachable([entry])
        if not any(q in reach for q in passes):
            rule.fail(func_key(entry), where(entry), "parse entry point no longer reaches the parser passes")
        else:
            rule.ok(func_key(entry), "reaches the passes")


def per_file_functions(prog: Program) -> List[FuncInfo]:
    """Functions of the run driver with an except handler that calls the per-file error reporter."""
    reporter = prog.method(FSH, "__handle_scan_error")
    out = []
    for func in prog.cls(FSH).methods.values():
        for node in walk_local(func.node):
            if isinstance(node, ast.ExceptHandler):
                for call in [c for stmt in node.body for c in ast.walk(stmt) if isinstance(c, ast.Call)]:
                    site = site_for(prog, func, call)
                    if site and reporter in site.targets and func not in out:
                        out.append(func)
    if len(out) < 2:
        raise AnalysisError("per-file functions (handlers calling __handle_scan_error) not found")
    return out


def r15c(ctx: Context, ra: RaiseAnalysis) -> None:
    prog = ctx.prog
    rule = ctx.rule("R15c", "no plugin/parser/document-read error escapes the per-file handlers that know the file name", 6)
    funcs = per_file_functions(prog)
    quals = {f.qualname for f in funcs}
    for func in funcs:
        escapes = ra.escapes.get(func.qualname, set())
        relevant = set()
        for cls in escapes:
            base, _, source = cls.partition("@")
            if base in FAILURE_CLASSES or (source in DOCUMENT_READ_SOURCES and base in ("OSError", "UnicodeDecodeError")):
                relevant.add(cls)
        considered = sorted(FAILURE_CLASSES | {"OSError@open", "UnicodeDecodeError@readlines"})
        for cls in considered:
            if cls not in relevant:
                rule.ok(f"{func.short}: {cls}", "does not escape")
        for cls in sorted(relevant):
            origin = ra.origin.get((func.qualname, cls))
            if origin and origin[2] == "call" and origin[0] in quals:
                continue  # reported at the inner per-file function
            key = f"{func.short}: escapes {cls.split('@')[0]}"
            if cls.split("@")[0] != cls and f"{func.short}: escapes {cls.split('@')[0]}" in {f.key for f in rule.findings}:
                continue
            rule.fail(
                key, where(func),
                f"{cls} can leave {func.short} without passing a handler that names the file: it reaches main's catch-all, which "
                "reports it without the file name",
                ra.trace(func, cls),
            )


def r15e(ctx: Context) -> None:
    prog = ctx.prog
    rule = ctx.rule("R15e", "handlers of the application object end in the system-error exit on every path", 8)
    app = prog.cls(MAIN)
    error_fn = prog.method(MAIN, "__handle_error")
    # __handle_error: exits with SYSTEM_ERROR whenever exit_on_error holds
    exit_calls = [s for s in prog.sites_in(error_fn) if any(t.name == "exit_application" for t in s.targets)]
    if not exit_calls:
        rule.fail(func_key(error_fn), where(error_fn), "__handle_error no longer exits the application")
    main_fn = prog.method(MAIN, "main")
    found_catch_all = False
    for func in app.methods.values():
        for node in walk_local(func.node):
            if not isinstance(node, ast.ExceptHandler):
                continue
            key = f"{func.short}: except {norm(node.type) if node.type else ''}"
            if func == main_fn and is_catch_all(node):
                found_catch_all = True
            from sa.util import block_cfg

            cfg = block_cfg(node.body)
            blocked: Set[int] = set()
            for cnode in cfg.nodes:
                if cnode.ast_node is None or cnode.kind != "stmt":
                    continue
                if isinstance(cnode.ast_node, ast.Raise):
                    blocked.add(cnode.nid)
                for call in [c for c in ast.walk(cnode.ast_node) if isinstance(c, ast.Call)]:
                    name = dotted(call.func) or ""
                    if name.endswith("__handle_error"):
                        # 'do not exit': a literal False for the bool parameter of the error handler
                        soft = any(isinstance(k.value, ast.Constant) and k.value.value is False for k in call.keywords)
                        soft = soft or any(isinstance(a, ast.Constant) and a.value is False for a in call.args)
                        if not soft:
                            blocked.add(cnode.nid)
                    if name.endswith("exit_application") and call.args and enum_member(call.args[0], "ApplicationResult") == "SYSTEM_ERROR":
                        blocked.add(cnode.nid)
            reach = cfg.reachable_from([cfg.entry], blocked=blocked)
            if cfg.exit in reach:
                rule.fail(key, where(func, node), "a path through this handler neither exits with the system-error result nor re-raises: the run continues and can end as success")
            else:
                rule.ok(key, "every path exits with SYSTEM_ERROR or re-raises")
    if not found_catch_all:
        rule.fail(func_key(main_fn) + ": catch-all", where(main_fn), "main has no 'except Exception' handler around the run")
    # the driver call is inside main's try body
    chain = None
    driver = prog.method(MAIN, "__scan_files_if_no_errors")
    for site in prog.sites_in(main_fn):
        # the driver itself, or the method of the application object that main hands the run to
        if any(t == driver or (t.cls == main_fn.cls and driver.qualname in prog.reachable([t])) for t in site.targets):
            chain = chain or site
    if chain is None:
        raise AnalysisError("main no longer calls the run driver")
    if catching_handler(main_fn.node, chain.node, is_catch_all) is None:
        rule.fail(func_key(main_fn, chain.node), chain.where, "the run driver is invoked outside main's catch-all")
    else:
        rule.ok(func_key(main_fn, chain.node), "inside the catch-all")


# --------------------------------------------------------------------------------------
# R15f temp files
# --------------------------------------------------------------------------------------


class TempCheck:
    def __init__(self, ctx: Context, rule: Rule, ra: RaiseAnalysis):
        self.ctx = ctx
        self.prog = ctx.prog
        self.rule = rule
        self.ra = ra
        self.cfgs: Dict[str, CFG] = {}
        self.done: Set[Tuple[str, int, str]] = set()

    def cfg(self, func: FuncInfo) -> CFG:
        if func.qualname not in self.cfgs:
            self.cfgs[func.qualname] = CFG(func.node, raising=self.ra.raising_predicate(func))
        return self.cfgs[func.qualname]

    def creation_sites(self) -> List[Tuple[FuncInfo, ast.AST, str, str]]:
        """(function, acquire statement, variable holding the path, description)."""
        out = []
        for func in self.prog.iter_functions("pymarkdown."):
            temp_objs: Dict[str, bool] = {}  # name of the object -> delete=False ?
            with_of: Dict[str, ast.AST] = {}
            for node in walk_local(func.node):
                if isinstance(node, (ast.With, ast.AsyncWith)):
                    for item in node.items:
                        call = item.context_expr
                        if isinstance(call, ast.Call) and (dotted(call.func) or "").endswith("NamedTemporaryFile") and isinstance(item.optional_vars, ast.Name):
                            keep = any(k.arg == "delete" and isinstance(k.value, ast.Constant) and k.value.value is False for k in call.keywords)
                            temp_objs[item.optional_vars.id] = keep
                            with_of[item.optional_vars.id] = node
                elif isinstance(node, ast.Assign) and isinstance(node.value, ast.Call) and (dotted(node.value.func) or "").endswith(("NamedTemporaryFile", "mkstemp")):
                    for target in node.targets:
                        if isinstance(target, ast.Name):
                            temp_objs[target.id] = True
            if not temp_objs:
                continue
            path_vars: Dict[str, bool] = {}
            for node in walk_local(func.node):
                if isinstance(node, ast.Assign) and isinstance(node.value, ast.Attribute) and node.value.attr == "name" and isinstance(node.value.value, ast.Name) and node.value.value.id in temp_objs:
                    for target in node.targets:
                        if isinstance(target, ast.Name):
                            path_vars[target.id] = temp_objs[node.value.value.id]
                            if temp_objs[node.value.value.id]:
                                creator = with_of.get(node.value.value.id, node)
                                out.append((func, creator, target.id, "NamedTemporaryFile(delete=False)"))
            for node in walk_local(func.node):
                if isinstance(node, (ast.With, ast.AsyncWith)):
                    for item in node.items:
                        call = item.context_expr
                        if isinstance(call, ast.Call) and dotted(call.func) == "open" and call.args and isinstance(call.args[0], ast.Name) and call.args[0].id in path_vars and not path_vars[call.args[0].id]:
                            mode = call.args[1] if len(call.args) > 1 else next((k.value for k in call.keywords if k.arg == "mode"), None)
                            if isinstance(mode, ast.Constant) and any(ch in str(mode.value) for ch in "wax"):
                                out.append((func, node, call.args[0].id, "open(<temp name>, 'w')"))
        return out

    def check(self, func: FuncInfo, acquire: ast.AST, var: str, what: str, chain: List[str]) -> None:
        cfg = self.cfg(func)
        start = cfg.stmt_node.get(id(acquire))
        if start is None:
            raise AnalysisError(f"{func.short}: CFG node for temp acquisition not found")
        mark = (func.qualname, start, var)
        if mark in self.done:
            return
        self.done.add(mark)
        releases: Set[int] = set()
        transfers: Dict[int, int] = {}  # return node -> tuple index (or -1)
        vacuous_false: Set[int] = set()
        names = {var}
        for node in walk_local(func.node):  # aliases: X = var
            if isinstance(node, ast.Assign) and isinstance(node.value, ast.Name) and node.value.id == var:
                names.update(t.id for t in node.targets if isinstance(t, ast.Name))
        for node in cfg.nodes:
            if node.ast_node is None:
                continue
            if node.kind in ("stmt", "with"):
                exprs = [node.ast_node] if node.kind == "stmt" else [i.context_expr for i in node.ast_node.items]  # type: ignore[attr-defined]
                for expr in exprs:
                    for call in [c for c in ast.walk(expr) if isinstance(c, ast.Call)]:
                        if (dotted(call.func) or "") in ("os.remove", "os.unlink", "os.replace", "os.rename") and call.args and isinstance(call.args[0], ast.Name) and call.args[0].id in names:
                            releases.add(node.nid)
                if isinstance(node.ast_node, ast.Return) and node.ast_node.value is not None:
                    value = node.ast_node.value
                    if isinstance(value, ast.Name) and value.id in names:
                        transfers[node.nid] = -1
                    elif isinstance(value, ast.Tuple):
                        for index, elt in enumerate(value.elts):
                            if isinstance(elt, ast.Name) and elt.id in names:
                                transfers[node.nid] = index
            if node.kind == "cond":
                text = norm(node.ast_node)
                for name in names:
                    if text == name or text == f"os.path.exists({name})" or text.startswith(f"{name} != ") or text.endswith(f" != {name}"):
                        vacuous_false.add(node.nid)
        # search for a path from the acquisition to EXIT/RAISE that avoids releases and transfers; the
        # state carries whether the path has already recorded the file's name in ``var`` (until then a
        # test of ``var`` in a cleanup block is false and the cleanup is skipped)
        name_nodes: Set[int] = set()
        for node in cfg.nodes:
            if node.kind == "stmt" and isinstance(node.ast_node, ast.Assign) and any(isinstance(t, ast.Name) and t.id in names for t in node.ast_node.targets):
                name_nodes.add(node.nid)
        starts_named = start in name_nodes or not isinstance(acquire, (ast.With, ast.AsyncWith)) or what.startswith(("open(", "handed over"))
        parent: Dict[Tuple[int, bool], Optional[Tuple[int, bool]]] = {(start, starts_named): None}
        queue = [(start, starts_named)]
        leak_end: Optional[Tuple[int, bool]] = None
        while queue and leak_end is None:
            cur, named = queue.pop(0)
            for dst, label in cfg.succ[cur]:
                if cur == start and label == "exc":
                    continue  # the creating statement itself failing creates nothing
                if cur in vacuous_false and label == "false" and named:
                    continue
                if dst in releases and named:
                    continue
                if dst in transfers and named:
                    continue
                state = (dst, named or dst in name_nodes)
                if state in parent:
                    continue
                parent[state] = (cur, named)
                if dst in (cfg.exit, cfg.raise_exit):
                    leak_end = state
                    break
                queue.append(state)
        key = f"{func.short}: temp file '{var}' ({what})"
        if leak_end is not None:
            path = []
            cursor: Optional[Tuple[int, bool]] = leak_end
            while cursor is not None:
                path.append(cursor[0])
                cursor = parent.get(cursor)
            path.reverse()
            kind = "exceptional" if leak_end[0] == cfg.raise_exit else "normal"
            self.rule.fail(
                key, where(func, acquire),
                f"temporary file held in '{var}' is neither removed nor handed to the caller on a(n) {kind} exit of {func.short}: "
                "a fault here leaves the file behind",
                chain + describe_path(cfg, path),
            )
        else:
            self.rule.ok(key, f"released on all exits ({len(releases)} release node(s), {len(transfers)} transfer(s))")
        # follow ownership transfers into the callers
        for ret_node, index in transfers.items():
            for site in self.prog.callers.get(func.qualname, []):
                caller = site.caller
                stmt = None
                for node in walk_local(caller.node):
                    if isinstance(node, ast.Assign) and node.value is site.node:
                        stmt = node
                if stmt is None:
                    self.rule.fail(f"{caller.short}: drops temp from {func.short}", site.where, f"{caller.short} calls {func.short}, which hands back a temporary file, without binding the result")
                    continue
                target = stmt.targets[0]
                name: Optional[str] = None
                if index == -1 and isinstance(target, ast.Name):
                    name = target.id
                elif isinstance(target, ast.Tuple) and 0 <= index < len(target.elts) and isinstance(target.elts[index], ast.Name):
                    name = target.elts[index].id  # type: ignore[attr-defined]
                if name is None and isinstance(target, ast.Name) and index >= 0:
                    # the whole result is kept in a local and the file name is picked out of it on the next statement
                    for holder in ast.walk(caller.node):
                        for field in ("body", "orelse", "finalbody"):
                            block = getattr(holder, field, None)
                            if isinstance(block, list) and stmt in block:
                                position = block.index(stmt)
                                following = block[position + 1] if position + 1 < len(block) else None
                                if (
                                    isinstance(following, ast.Assign) and isinstance(following.targets[0], ast.Name)
                                    and isinstance(following.value, ast.Subscript) and isinstance(following.value.value, ast.Name)
                                    and following.value.value.id == target.id and isinstance(following.value.slice, ast.Constant)
                                    and following.value.slice.value == index
                                ):
                                    name, stmt = following.targets[0].id, following
                if name is None:
                    self.rule.fail(f"{caller.short}: drops temp from {func.short}", site.where, "returned temporary file is not bound to a name")
                    continue
                self.check(caller, stmt, name, f"handed over by {func.short}", chain + [f"{func.short} returns '{var}' to {caller.short}"])


def r15f(ctx: Context, ra: RaiseAnalysis) -> None:
    rule = ctx.rule("R15f", "temporary files are removed or handed over on every normal and exceptional exit", 4)
    checker = TempCheck(ctx, rule, ra)
    sites = checker.creation_sites()
    if len(sites) < 3:
        raise AnalysisError(f"only {len(sites)} temporary-file creation sites found (3 confirmed on the pinned tree)")
    for func, node, var, what in sites:
        checker.check(func, node, var, what, [])


# --------------------------------------------------------------------------------------
# R15g atomic write-back
# --------------------------------------------------------------------------------------

WRITE_SINKS = {"shutil.copyfile", "shutil.copy", "shutil.copy2", "shutil.move", "os.replace", "os.rename"}


def user_file_params(prog: Program) -> Dict[str, Set[str]]:
    """function -> parameter names that carry the user's file path in the fix path.
    Seeds: the loop variable of the per-run driver passed to the fix function; propagated through calls."""
    driver = prog.method(FSH, "process_files_to_scan")
    tainted: Dict[str, Set[str]] = {}
    work: List[Tuple[FuncInfo, str]] = []
    for node in walk_local(driver.node):
        if isinstance(node, ast.For) and isinstance(node.target, ast.Name):
            tainted.setdefault(driver.qualname, set()).add(node.target.id)
            work.append((driver, node.target.id))
    while work:
        func, var = work.pop()
        # path-preserving local derivations: x = os.path.realpath(var) / abspath / normpath / str(var) / var
        for node in walk_local(func.node):
            if isinstance(node, ast.Assign) and len(node.targets) == 1 and isinstance(node.targets[0], ast.Name):
                value = node.value
                derived = isinstance(value, ast.Name) and value.id == var
                if isinstance(value, ast.Call) and (dotted(value.func) or "") in (
                    "os.path.realpath", "os.path.abspath", "os.path.normpath", "os.path.expanduser", "str", "os.fspath"
                ) and value.args and isinstance(value.args[0], ast.Name) and value.args[0].id == var:
                    derived = True
                if derived and node.targets[0].id not in tainted.setdefault(func.qualname, set()):
                    tainted[func.qualname].add(node.targets[0].id)
                    work.append((func, node.targets[0].id))
        for site in prog.sites_in(func):
            if site.wild or not site.targets:
                continue
            for target in site.targets:
                bound = Program.bind_args(target, site.node, skip_self=target.kind in ("instance", "class"))
                for param, arg in bound.items():
                    if isinstance(arg, ast.Name) and arg.id == var:
                        if param not in tainted.setdefault(target.qualname, set()):
                            tainted[target.qualname].add(param)
                            work.append((target, param))
    return tainted


def r15g(ctx: Context) -> None:
    prog = ctx.prog
    rule = ctx.rule("R15g", "the user's file is replaced atomically, never written in place", 1)
    tainted = user_file_params(prog)
    sinks = 0
    for qual, params in sorted(tainted.items()):
        func = prog.functions[qual]
        for site in prog.sites_in(func):
            ext = site.external or ""
            node = site.node
            if ext in WRITE_SINKS and len(node.args) >= 2 and isinstance(node.args[1], ast.Name) and node.args[1].id in params:
                sinks += 1
                key = func_key(func, node)
                if ext in ("os.replace", "os.rename"):
                    rule.ok(key, "atomic rename onto the user's file")
                    # the file that takes the user's place was created here as a temporary (mode 0600): it must be
                    # given the user's file's mode before it is renamed over it, on every path
                    staged = node.args[0]
                    # the staging name is unique (made by tempfile): a name spelled from the user's path ('<file>.tmp')
                    # may be a file the user already has next to the document - it is overwritten and renamed away
                    if isinstance(staged, ast.Name):
                        for assign in [n for n in walk_local(func.node) if isinstance(n, ast.Assign) and any(isinstance(t, ast.Name) and t.id == staged.id for t in n.targets)]:
                            reads_user_path = any(isinstance(n, ast.Name) and n.id in params for n in ast.walk(assign.value))
                            from_tempfile = any(isinstance(c, ast.Call) and (dotted(c.func) or "").split(".")[-1] in ("NamedTemporaryFile", "mkstemp", "mkdtemp", "TemporaryDirectory", "TemporaryFile") for c in ast.walk(assign.value))
                            if reads_user_path and not from_tempfile:
                                rule.fail(key + " [unique staging name]", where(func, assign), f"the staged copy is written under '{norm(assign.value)[:80]}', a name spelled from the user's path rather than made by tempfile: a file of that name next to the document is overwritten and then renamed away (and removed by the clean-up when the copy fails)")
                    fresh = isinstance(staged, ast.Name) and any(
                        isinstance(c, ast.Call) and (dotted(c.func) or "").endswith(("NamedTemporaryFile", "mkstemp")) for c in walk_local(func.node)
                    )
                    # the rename happens after the staging file's handle is closed: what is still in the handle's buffer
                    # reaches the disk at close, so a rename inside the 'with' puts a short file in the user's place
                    for with_stmt in [w for w in walk_local(func.node) if isinstance(w, (ast.With, ast.AsyncWith))]:
                        handles = [item.optional_vars.id for item in with_stmt.items if isinstance(item.optional_vars, ast.Name)
                                   and isinstance(item.context_expr, ast.Call) and (dotted(item.context_expr.func) or "").endswith(("NamedTemporaryFile", "open"))]
                        inside = any(sub is node for stmt in with_stmt.body for sub in ast.walk(stmt))
                        names_staged = isinstance(staged, ast.Name) and any(
                            isinstance(n, ast.Assign) and any(isinstance(t, ast.Name) and t.id == staged.id for t in n.targets)
                            and isinstance(n.value, ast.Attribute) and n.value.attr == "name" and isinstance(n.value.value, ast.Name) and n.value.value.id in handles
                            for n in walk_local(func.node)
                        )
                        if inside and handles and names_staged:
                            rule.fail(key + " [handle closed]", site.where, f"'{norm(staged)}' is renamed over the user's file while its own handle ('{handles[0]}') is still open: the buffered tail of the copy is written at close, after the rename - a run cut short in between leaves the document empty or truncated")
                    if fresh:
                        mkey = key + " [mode kept]"
                        cfg = CFG(func.node, raising=lambda n: False)
                        keepers = set()
                        sink_node = None
                        for cnode in cfg.nodes:
                            if cnode.ast_node is None or cnode.kind != "stmt":
                                continue
                            for call in [c for c in ast.walk(cnode.ast_node) if isinstance(c, ast.Call)]:
                                name = dotted(call.func) or ""
                                if name in ("shutil.copymode", "shutil.copystat") and len(call.args) >= 2 and norm(call.args[1]) == norm(staged):
                                    keepers.add(cnode.nid)
                                if name == "os.chmod" and call.args and norm(call.args[0]) == norm(staged):
                                    keepers.add(cnode.nid)
                                if call is node:
                                    sink_node = cnode.nid
                        if sink_node is None:
                            raise AnalysisError(f"{func.short}: the rename onto the user's file was not found in the flow graph")
                        if all_paths_pass(cfg, cfg.entry, keepers, ends={sink_node}) is None:
                            rule.ok(mkey, "the staged copy takes the mode of the user's file before the rename")
                        else:
                            rule.fail(mkey, site.where, f"'{norm(staged)}' is a freshly created temporary file (mode 0600) and is renamed over the user's file without having been given that file's mode on every path: after 'fix' the document has lost its permission bits (it is no longer readable by group / others, no longer executable)")
                else:
                    rule.fail(key, site.where, f"{ext} writes the user's file '{node.args[1].id}' in place: a run cut short during the copy leaves it truncated or half-written")
            if ext in ("os.remove", "os.unlink", "os.truncate", "os.rmdir", "shutil.rmtree") and node.args and isinstance(node.args[0], ast.Name) and node.args[0].id in params:
                sinks += 1
                rule.fail(func_key(func, node), site.where, f"{ext} removes the user's file '{node.args[0].id}': until the replacement is in place (and for good, if that step fails or the run is cut short) the document does not exist")
            if ext == "builtins.open" and node.args and isinstance(node.args[0], ast.Name) and node.args[0].id in params:
                mode = node.args[1] if len(node.args) > 1 else next((k.value for k in node.keywords if k.arg == "mode"), None)
                if isinstance(mode, ast.Constant) and any(ch in str(mode.value) for ch in "wax+"):
                    sinks += 1
                    rule.fail(func_key(func, node), site.where, f"open(..., '{mode.value}') truncates the user's file '{node.args[0].id}' in place")
    if sinks == 0:
        raise AnalysisError("no write-back of the user's file found in the fix path (anchor moved)")


def refused_write_back_is_an_error(ctx: Context, rule_id: str = "R15n") -> None:
    """'Fixed:' and the fixed result mean that the bytes changed.  If the operating system refuses the
    write-back (copy / rename raises), nothing on the way back to the per-file function may swallow the
    exception: every handler that can catch it between the sink and the per-file function ends in a raise."""
    prog = ctx.prog
    rule = ctx.rule(rule_id, "an exception of the write-back is never swallowed on the way to the per-file function", 1)
    tainted = user_file_params(prog)
    sink_funcs: List[FuncInfo] = []
    for qual, params in sorted(tainted.items()):
        func = prog.functions[qual]
        for site in prog.sites_in(func):
            if (site.external or "") in WRITE_SINKS and len(site.node.args) >= 2 and isinstance(site.node.args[1], ast.Name) and site.node.args[1].id in params:
                if func not in sink_funcs:
                    sink_funcs.append(func)
    if not sink_funcs:
        raise AnalysisError("no write-back of the user's file found in the fix path (anchor moved)")
    per_file = set(per_file_functions(prog))
    catches = {"Exception", "BaseException", "OSError", "IOError", "PermissionError", "EnvironmentError"}

    def enclosing_handlers(func: FuncInfo, node: ast.AST) -> List[ast.ExceptHandler]:
        found: List[ast.ExceptHandler] = []
        for candidate in walk_local(func.node):
            if isinstance(candidate, ast.Try) and any(sub is node for stmt in candidate.body for sub in ast.walk(stmt)):
                for handler in candidate.handlers:
                    names = set()
                    if handler.type is None:
                        names.add("BaseException")
                    else:
                        for sub in ast.walk(handler.type):
                            if isinstance(sub, (ast.Name, ast.Attribute)):
                                names.add((dotted(sub) or "").split(".")[-1])
                    if names & catches:
                        found.append(handler)
        return found

    checked: Set[str] = set()
    work: List[Tuple[FuncInfo, ast.AST]] = []
    for func in sink_funcs:
        for site in prog.sites_in(func):
            if (site.external or "") in WRITE_SINKS or (site.external or "").startswith("shutil."):
                work.append((func, site.node))
    seen_funcs: Set[str] = set()
    while work:
        func, node = work.pop()
        for handler in enclosing_handlers(func, node):
            key = func_key(func, handler) + " [write-back exception]"
            if key in checked:
                continue
            checked.add(key)
            if func in per_file:
                rule.ok(key, "the per-file function reports the error and returns the failure status (R15l)")
                continue
            always, why = handler_always_raises(handler, {"*reraise", "Exception", "OSError", "BadPluginError", "BadTokenizationError", "BadPluginFixError"})
            if always:
                rule.ok(key, "cleans up and re-raises")
            else:
                rule.fail(key, where(func, handler), f"{func.short} catches an exception of the write-back and {why}: the file is unchanged on disk, yet the run goes on to announce it as fixed")
        if func.qualname in seen_funcs or func in per_file:
            continue
        seen_funcs.add(func.qualname)
        for site in prog.callers.get(func.qualname, []):
            work.append((site.caller, site.node))
    if not checked:
        rule.ok(f"{sink_funcs[0].short}: no handler", "nothing between the sink and the per-file function catches its exceptions")


def reported_means_failed(ctx: Context, rule_id: str = "R15l") -> None:
    """A per-file function that reports an error for the file returns the failure status on that path."""
    from sa.util import enumerate_paths, PathBudgetExceeded

    prog = ctx.prog
    rule = ctx.rule(rule_id, "a per-file function that reported an error returns 'failed' on that path", 2)
    reporter = prog.method(FSH, "__handle_scan_error")
    status_funcs = [f for f in common.status_functions(prog) if f in per_file_functions(prog)]
    if len(status_funcs) < 2:
        raise AnalysisError("per-file status functions not found")
    for func in status_funcs:
        cfg = CFG(func.node)  # calls, raise and assert may raise; a plain assignment cannot
        success_index = None
        rets = returns_of(func)
        if rets and isinstance(rets[0], ast.Tuple):
            success_index = len(rets[0].elts) - 1  # (did_fix, did_succeed)
        reported_paths = 0
        bad = None
        unknown = None
        try:
            for path in enumerate_paths(cfg, loop_bound=1, budget=8000):
                if path[-1][0] != cfg.exit:
                    continue
                values: Dict[str, object] = {}
                reported = False
                returned: object = None
                for nid, label in path:
                    node = cfg.nodes[nid]
                    stmt = node.ast_node
                    if stmt is None or node.kind != "stmt":
                        continue
                    for call in [c for c in ast.walk(stmt) if isinstance(c, ast.Call)]:
                        site = site_for(prog, func, call)
                        if site and reporter in site.targets:
                            reported = True
                    if isinstance(stmt, ast.Assign):
                        for target in stmt.targets:
                            for tgt, value, _ in Program._unpack(target, stmt.value):
                                if isinstance(tgt, ast.Name):
                                    values[tgt.id] = value.value if isinstance(value, ast.Constant) and isinstance(value.value, bool) else "?"
                    if isinstance(stmt, ast.Return) and stmt.value is not None:
                        expr = stmt.value
                        if isinstance(expr, ast.Tuple) and success_index is not None and success_index < len(expr.elts):
                            expr = expr.elts[success_index]
                        if isinstance(expr, ast.Constant) and isinstance(expr.value, bool):
                            returned = expr.value
                        elif isinstance(expr, ast.Name):
                            returned = values.get(expr.id, "?")
                        else:
                            returned = "?"
                if not reported:
                    continue
                reported_paths += 1
                if returned is True:
                    bad = path
                    break
                if returned is not False and unknown is None:
                    unknown = path
        except PathBudgetExceeded:
            raise AnalysisError(f"{func.short}: too many paths")
        key = f"{func.short}: status after a reported error"
        if bad is not None:
            steps = [cfg.describe(nid) for nid, _ in bad if cfg.nodes[nid].kind in ("handler", "stmt")][-8:]
            rule.fail(key, where(func), f"a path through {func.short} reports an error for the file and then returns the success status: the failure cannot reach the exit code", steps)
        elif unknown is not None:
            steps = [cfg.describe(nid) for nid, _ in unknown if cfg.nodes[nid].kind in ("handler", "stmt")][-8:]
            rule.fail(key, where(func), f"a path through {func.short} reports an error for the file and then returns a status that is not the constant 'failed' (the answer of a call, a value computed from options): whether the failure reaches the exit code depends on something other than the failure", steps)
        elif reported_paths:
            rule.ok(key, f"{reported_paths} error-reporting path(s), all return the failure status")
        else:
            rule.fail(key, where(func), f"{func.short} no longer reports per-file errors")


def _relabel(ctx: Context, rule_id: str) -> None:
    ctx.rules[-1].rule_id = rule_id
    for finding in ctx.rules[-1].findings:
        finding.rule = rule_id


def _reported_later(prog: Program, func: FuncInfo, handler: ast.ExceptHandler, reporter: FuncInfo) -> bool:
    """the handler keeps the exception in a local, and every way from there to the end of the function on which that
    local is still set (its truth tests taken as true) reports or raises"""
    if not handler.name:
        return False
    keeps = [stmt for stmt in handler.body if isinstance(stmt, ast.Assign) and isinstance(stmt.value, ast.Name) and stmt.value.id == handler.name
             and len(stmt.targets) == 1 and isinstance(stmt.targets[0], ast.Name)]
    if not keeps:
        return False
    local = keeps[0].targets[0].id  # type: ignore[attr-defined]
    cfg = CFG(func.node, raising=lambda n: False)
    start = cfg.stmt_node.get(id(keeps[0]))
    if start is None:
        return False
    done: Set[int] = set()
    seen: Set[int] = set()
    for cnode in cfg.nodes:
        if cnode.ast_node is None or cnode.kind != "stmt":
            continue
        if isinstance(cnode.ast_node, ast.Raise):
            done.add(cnode.nid)
        for call in [c for c in ast.walk(cnode.ast_node) if isinstance(c, ast.Call)]:
            site = site_for(prog, func, call)
            if site is not None and any(t == reporter or reporter.qualname in prog.reachable([t]) for t in site.targets):
                done.add(cnode.nid)
    work = [start]
    while work:
        current = work.pop()
        if current in seen or current in done:
            continue
        seen.add(current)
        if current == cfg.exit:
            return False
        cnode = cfg.nodes[current]
        for dst, label in cfg.succ[current]:
            if label not in ("next", "true", "false"):
                continue
            if cnode.kind == "cond" and isinstance(cnode.ast_node, ast.Name) and cnode.ast_node.id == local and label == "false":
                continue  # the local holds the exception on this way
            work.append(dst)
    return True


def r15o(ctx: Context) -> None:
    """'The run reports the error naming the file': in the functions that process one file, a handler for a
    plugin / parser / read failure either hands the exception to the per-file error reporter or lets it travel on
    (raise) - on every path through the handler.  A handler that falls out of its end has swallowed the failure:
    the run ends with the error result and says nothing about why or where."""
    from sa.util import block_cfg

    prog = ctx.prog
    rule = ctx.rule("R15o", "every exception handler of the run driver reports the error (naming the file) or re-raises, on every path", 9)
    reporter = prog.method(FSH, "__handle_scan_error")
    for func in sorted(prog.cls(FSH).methods.values(), key=lambda f: f.qualname):  # every handler of the run driver
        for node in walk_local(func.node):
            if not isinstance(node, ast.ExceptHandler):
                continue
            key = f"{func.short}: except {norm(node.type) if node.type else ''} [reported]"
            cfg = block_cfg(node.body)
            blocked: Set[int] = set()
            for cnode in cfg.nodes:
                if cnode.ast_node is None or cnode.kind != "stmt":
                    continue
                if isinstance(cnode.ast_node, ast.Raise):
                    blocked.add(cnode.nid)
                for call in [c for c in ast.walk(cnode.ast_node) if isinstance(c, ast.Call)]:
                    site = site_for(prog, func, call)
                    if site is not None and any(t == reporter or reporter.qualname in prog.reachable([t]) for t in site.targets):
                        blocked.add(cnode.nid)
            if cfg.exit in cfg.reachable_from([cfg.entry], blocked=blocked) and not _reported_later(prog, func, node, reporter):
                rule.fail(key, where(func, node), f"a path through this handler of {func.short} neither reports the exception through the per-file error reporter nor re-raises it: the file's failure is swallowed (the run ends as an error without a message naming the file)")
            else:
                rule.ok(key, "reported or re-raised on every path")


def run(ctx: Context) -> None:
    ra = RaiseAnalysis(ctx.prog)
    r15a(ctx)
    common.callbacks_contained(ctx, "R15b")
    r15c(ctx, ra)
    common.status_not_dropped(ctx, "R15d")
    r15e(ctx)
    r15f(ctx, ra)
    r15g(ctx)
    common.fixed_flag_survives_faults(ctx, "R15h", ra)
    from sa.rules import c13

    # "every other file is processed as if the failing file were absent": state is reset when a file
    # starts (not when the previous one ended well), so a failure cannot leak into the next file
    c13.r13b(ctx)
    _relabel(ctx, "R15i")
    c13.r13c(ctx)
    _relabel(ctx, "R15j")
    from sa.rules import c18

    # "ends with the system-error result, never with a clean or 'fixed' result"
    c18.r18c(ctx)
    _relabel(ctx, "R15k")
    reported_means_failed(ctx)
    refused_write_back_is_an_error(ctx)
    r15o(ctx)
    from sa.rules import c10

    # the per-run 'a file failed' flag accumulates: a later clean file cannot clear it
    c10.r10c(ctx)
    _relabel(ctx, "R15m")
    from sa.rules import c14

    # 'every other file is processed exactly as if the failing file were absent': a failure changes no dispatch list
    c14.dispatch_lists_frozen(ctx, "R15p")
    from sa.rules import c16

    # an undecodable document is an error that is reported, never a success on replaced text
    c16.strict_decoding(ctx, "R15q")
    if ctx.tier == "thorough":
        from sa.rules import driver_exploration

        driver_exploration.c15_predicates(ctx)
