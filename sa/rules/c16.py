"""C16 — all entry points agree: file scan, stdin scan and the Python API."""

from __future__ import annotations

import ast
import os
import re
from typing import Dict, List, Optional, Set, Tuple

from sa.model import AnalysisError, ClassInfo, FuncInfo, Program, dotted, norm, walk_local
from sa.report import Context
from sa.rules.common import FSH, MAIN
from sa.util import func_key, guards_of, names_read, site_for, where

EXPLANATION = (
    "Decides, from /repo's current source: R16a every API operation constructs a PyMarkdownLint and reaches file "
    "processing only through its main(); every option string and sub-command name the API can put on that command "
    "line is registered by an add_argument/add_parser call of the repo or of the application_properties library "
    "(its source is parsed, not imported); R16b stdin text and API strings are scanned by the same per-file function "
    "as files; R16c every text-mode open of document content — the reader, both fix-pass writers, the debug reader, "
    "the stdin spool and the API's fix_string spool — pins encoding='utf-8', so writer and reader agree whatever the "
    "locale; R16d the API's presentation object overrides every MainPresentation method that prints, and copies a "
    "scan failure field for field; R16g API result objects are built from what the presentation captured, never from the exit code; R16e (i) at each of the ~1 980 ParserLogger call sites a constant format has as "
    "many '$' as arguments, a format that embeds run-time text has no arguments, and the logger logs an argument-free "
    "format verbatim; (ii) code that is control-dependent on a log-level test only logs or saves/restores the log "
    "level; (iii) the stack-trace flag only selects message detail. "
    "R16h every API method that runs main() catches the exit, keeps its code and hands it to what builds its answer. R16i every text-mode open of document content decodes strictly (no errors= handler). R16j the API's repeatable options are lists that only grow (no remove / pop / clear / re-assignment outside the constructor) and one option method records one option, so that the command line main() sees is the one the caller spelled out. Not decided: CR-LF and final-newline equality of the two line splitters; the locale decoding of sys.stdin itself."
)
ASSUMPTIONS = [
    "argparse rejects options that no add_argument registered (so an unknown API option cannot be silently ignored)",
    "logging calls have no effect on results (handlers are the standard library's)",
]

API = "pymarkdown.api.PyMarkdownApi"
API_PRES = "pymarkdown.api._ApiPresentation"
PRES = "pymarkdown.general.main_presentation.MainPresentation"
PLOG = "pymarkdown.general.parser_logger.ParserLogger"
PSF = "pymarkdown.plugin_manager.plugin_scan_failure.PluginScanFailure"


def registered_options(prog: Program) -> Tuple[Set[str], Set[str]]:
    """(option strings, sub-command names) registered anywhere in the repo + the properties library."""
    options: Set[str] = set()
    commands: Set[str] = set()
    for func in prog.iter_functions():
        consts: Dict[str, str] = {}
        if func.cls is not None:
            for klass in func.cls.mro:
                for name, value in klass.class_attrs.items():
                    if isinstance(value, ast.Constant) and isinstance(value.value, str):
                        consts.setdefault(name, value.value)
        for node in walk_local(func.node):
            if isinstance(node, ast.Call) and isinstance(node.func, ast.Attribute):
                if node.func.attr == "add_argument":
                    for arg in node.args:
                        if isinstance(arg, ast.Constant) and isinstance(arg.value, str) and arg.value.startswith("-"):
                            options.add(arg.value)
                if node.func.attr == "add_parser" and node.args:
                    for value in _string_values(prog, func, node.args[0], consts):
                        commands.add(value)
    # the properties library contributes --config / --set / --strict-config
    import importlib.util

    try:
        spec = importlib.util.find_spec("application_properties")
    except (ImportError, ValueError):
        spec = None
    lib_dir = os.path.dirname(spec.origin) if spec and spec.origin else None
    if lib_dir is None:  # analysed under an interpreter other than the repository's own
        import glob

        found = sorted(glob.glob("/venv/lib/python*/site-packages/application_properties"))
        lib_dir = found[0] if found else None
    if lib_dir:
        path = os.path.join(lib_dir, "application_properties_utilities.py")
        if os.path.exists(path):
            tree = ast.parse(open(path, encoding="utf-8").read())
            for node in ast.walk(tree):
                if isinstance(node, ast.Call) and isinstance(node.func, ast.Attribute) and node.func.attr == "add_argument":
                    for arg in node.args:
                        if isinstance(arg, ast.Constant) and isinstance(arg.value, str) and arg.value.startswith("-"):
                            options.add(arg.value)
    return options, commands


def _string_values(prog: Program, func: FuncInfo, expr: ast.AST, consts: Dict[str, str]) -> List[str]:
    if isinstance(expr, ast.Constant) and isinstance(expr.value, str):
        return [expr.value]
    if isinstance(expr, ast.IfExp):
        return _string_values(prog, func, expr.body, consts) + _string_values(prog, func, expr.orelse, consts)
    if isinstance(expr, ast.Attribute):
        name = expr.attr
        for candidate in (name, "__" + name.split("__")[-1]):
            if candidate in consts:
                return [consts[candidate]]
    if isinstance(expr, ast.Name):
        out: List[str] = []
        for node in walk_local(func.node):
            if isinstance(node, ast.Assign) and any(isinstance(t, ast.Name) and t.id == expr.id for t in node.targets):
                out.extend(_string_values(prog, func, node.value, consts))
        return out
    if isinstance(expr, ast.Call):
        site = site_for(prog, func, expr)
        if site and len(site.targets) == 1:
            from sa.util import returns_of

            out = []
            for ret in returns_of(site.targets[0]):
                out.extend(_string_values(prog, site.targets[0], ret, consts))
            return out
    return []


def r16a(ctx: Context) -> None:
    prog = ctx.prog
    rule = ctx.rule("R16a", "the API drives the same main() with registered options only", 12)
    api = prog.cls(API)
    main = prog.method(MAIN, "main")
    options, commands = registered_options(prog)
    if len(options) < 15 or len(commands) < 5:
        raise AnalysisError(f"only {len(options)} options / {len(commands)} sub-commands recognised")
    # option strings the API emits
    emitted = 0
    for func in api.methods.values():
        docstrings = {id(s.value) for s in ast.walk(func.node) if isinstance(s, ast.Expr) and isinstance(s.value, ast.Constant)}
        for element in walk_local(func.node):
            # any option-looking string literal of the API class (appended directly, or kept in a table that is appended later)
            if isinstance(element, ast.Constant) and isinstance(element.value, str) and re.fullmatch(r"--?[a-z][a-z-]*", element.value) and id(element) not in docstrings:
                emitted += 1
                key = f"{func.short}: option {element.value}"
                if element.value in options:
                    rule.ok(key, "registered")
                else:
                    rule.fail(key, where(func, element), f"the API puts '{element.value}' on the command line but no add_argument registers it: the API call fails (or means something else) where the command line works")
    if emitted < 8:
        raise AnalysisError(f"only {emitted} option strings found in the API")
    # each option is emitted under a condition on its own setting: one setting must not switch another off
    for func in api.methods.values():
        for node in walk_local(func.node):
            if not (isinstance(node, ast.Call) and isinstance(node.func, ast.Attribute) and node.func.attr in ("append", "extend")):
                continue
            options = [e.value for a in node.args for e in (a.elts if isinstance(a, (ast.Tuple, ast.List)) else [a]) if isinstance(e, ast.Constant) and isinstance(e.value, str) and e.value.startswith("-")]
            if not options:
                continue
            for test, polarity in guards_of(func.node, node):
                text = norm(test)
                if not polarity and "inherit_logging" not in text:
                    rule.fail(f"{func.short}: option {options[0]} suppressed", where(func, node), f"the API leaves out '{options[0]}' whenever '{text}' holds: one setting silently switches another off, so the API run differs from the command line given the same settings")
            rule.ok(f"{func.short}: option {options[0]} guard", "emitted under its own setting")
    builder = api.methods.get("__build_common_arguments")
    if builder is None:
        raise AnalysisError("PyMarkdownApi.__build_common_arguments missing")
    for site in prog.callers.get(builder.qualname, []):
        if site.node.args and isinstance(site.node.args[0], ast.Constant):
            action = site.node.args[0].value
            key = f"{site.caller.short}: sub-command {action}"
            if action in commands:
                rule.ok(key, "registered sub-command")
            else:
                rule.fail(key, site.where, f"the API asks for sub-command '{action}', which no add_parser registers")
    # what api.py calls in the rest of the package
    allowed_prefixes = (
        "pymarkdown.main.PyMarkdownLint.__init__", "pymarkdown.main.PyMarkdownLint.main", "pymarkdown.main.PyMarkdownLint.application_version",
        "pymarkdown.application_file_scanner.ApplicationFileScanner.is_valid_comma_separated_extension_list",
        "pymarkdown.application_logging.ApplicationLogging.", "pymarkdown.general.main_presentation.MainPresentation.",
        "pymarkdown.api.",
    )
    for func in prog.iter_functions("pymarkdown.api."):
        for site in prog.sites_in(func):
            for target in site.targets:
                if site.wild or target.qualname.startswith(allowed_prefixes):
                    continue
                rule.fail(func_key(func, site.node), site.where, f"the API calls {target.short} directly instead of going through PyMarkdownLint.main: this entry point can behave differently from the command line")
    mains = [s for f in prog.iter_functions("pymarkdown.api.") for s in prog.sites_in(f) if main in s.targets]
    for site in mains:
        rule.ok(func_key(site.caller, site.node), "through PyMarkdownLint.main")


def r16b(ctx: Context) -> None:
    prog = ctx.prog
    rule = ctx.rule("R16b", "stdin / string input is scanned by the same per-file function as files", 2)
    per_file = prog.method(FSH, "__scan_specific_file")
    for name in ("process_files_to_scan", "__scan_from_stdin"):
        key = f"FileScanHelper.{name}: uses __scan_specific_file"
        entry = prog.method(FSH, name)
        # directly, or through private helpers of the scan helper (at most three calls deep)
        reach = prog.reachable([entry], stop={per_file.qualname})
        hops = 0
        cursor = per_file.qualname
        while cursor in reach and reach[cursor] is not None and hops < 6:
            cursor = reach[cursor][0].qualname  # type: ignore[index]
            hops += 1
        if per_file.qualname in reach and hops <= 3:
            rule.ok(key, "shared per-file scan" + ("" if hops <= 1 else f" (through {hops - 1} helper(s))"))
        else:
            rule.fail(key, where(prog.method(FSH, name)), f"{name} no longer scans through __scan_specific_file: file and stdin/string input take different code paths")
    stdin = prog.method(FSH, "__scan_from_stdin")
    writes = [n for n in walk_local(stdin.node) if isinstance(n, ast.Call) and isinstance(n.func, ast.Attribute) and n.func.attr == "write"]
    texts = {norm(w.args[0]) for w in writes if w.args}
    stdin_loop_vars = {n.target.id for n in walk_local(stdin.node) if isinstance(n, ast.For) and isinstance(n.target, ast.Name) and norm(n.iter) == "sys.stdin"}
    plain = all(isinstance(w.args[0], ast.Name) and (w.args[0].id in stdin.params or w.args[0].id in stdin_loop_vars) for w in writes if w.args)
    if plain and len(writes) >= 2 and stdin_loop_vars:
        rule.ok(func_key(stdin) + ": spooled verbatim", "string and stdin lines are written unchanged")
    else:
        rule.fail(func_key(stdin) + ": spooled verbatim", where(stdin), f"the spool file is written from {sorted(texts)}: the text is altered before it is scanned")


def _mode_of(call: ast.Call, position: int) -> Optional[str]:
    mode = call.args[position] if len(call.args) > position else next((k.value for k in call.keywords if k.arg == "mode"), None)
    if mode is None:
        return None
    if isinstance(mode, ast.Constant) and isinstance(mode.value, str):
        return mode.value
    return "?"


def r16c(ctx: Context) -> None:
    prog = ctx.prog
    rule = ctx.rule("R16c", "every text-mode open of document content pins encoding='utf-8'", 6)
    scope = ("pymarkdown/file_scan_helper.py", "pymarkdown/general/source_providers.py", "pymarkdown/api.py")
    for func in prog.iter_functions():
        if func.rel not in scope:
            continue
        for site in prog.sites_in(func):
            ext = site.external or ""
            node = site.node
            if ext == "builtins.open":
                mode = _mode_of(node, 1) or "r"
            elif ext == "tempfile.NamedTemporaryFile":
                mode = _mode_of(node, 0) or "w+b"
            else:
                continue
            if "b" in mode:
                continue
            encoding = next((k.value for k in node.keywords if k.arg == "encoding"), None)
            key = func_key(func, node)
            if isinstance(encoding, ast.Constant) and str(encoding.value).lower().replace("_", "-") in ("utf-8", "utf8"):
                rule.ok(key, f"mode {mode!r}, utf-8")
            else:
                rule.fail(key, site.where, f"document text is opened in text mode {mode!r} without encoding='utf-8': it is written or read in the locale's encoding while the other side uses UTF-8, so non-ASCII documents differ between entry points")


def strict_decoding(ctx: Context, rule_id: str = "R16i") -> None:
    """A document that is not valid UTF-8 is a system error (exit 1 in both schemes) on every entry point:
    every text-mode open of document content decodes strictly - no errors= handler that replaces, ignores or
    escapes what cannot be decoded (the scan would succeed on a text that is not the file's)."""
    prog = ctx.prog
    rule = ctx.rule(rule_id, "every text-mode open of document content decodes strictly (no errors= handler)", 6)
    scope = ("pymarkdown/file_scan_helper.py", "pymarkdown/general/source_providers.py", "pymarkdown/api.py")
    for func in prog.iter_functions():
        if func.rel not in scope:
            continue
        for site in prog.sites_in(func):
            ext = site.external or ""
            node = site.node
            if ext == "builtins.open":
                mode = _mode_of(node, 1) or "r"
                positional = node.args[4] if len(node.args) > 4 else None
            elif ext == "tempfile.NamedTemporaryFile":
                mode = _mode_of(node, 0) or "w+b"
                positional = node.args[5] if len(node.args) > 5 else None
            else:
                continue
            if "b" in mode:
                continue
            errors = positional or next((k.value for k in node.keywords if k.arg == "errors"), None)
            key = func_key(func, node)
            if errors is None or (isinstance(errors, ast.Constant) and errors.value in (None, "strict")):
                rule.ok(key, f"mode {mode!r}, strict")
            else:
                rule.fail(key, site.where, f"document text is opened with errors={norm(errors)}: bytes that are not UTF-8 are replaced or dropped instead of raising, so an undecodable file is scanned (or rewritten) as some other text and the run ends in success / triggered / fixed where the documented result is a system error")


def r16d(ctx: Context) -> None:
    prog = ctx.prog
    rule = ctx.rule("R16d", "the API presentation overrides every printing method and copies failures field for field", 5)
    base = prog.cls(PRES)
    api_pres = prog.cls(API_PRES)
    if base not in api_pres.mro:
        rule.fail("_ApiPresentation: base", where(api_pres.methods["__init__"]), "_ApiPresentation no longer derives from MainPresentation")
    for name, method in sorted(base.methods.items()):
        prints = any(isinstance(n, ast.Call) and dotted(n.func) == "print" for n in walk_local(method.node))
        calls_printing = any(
            isinstance(n, ast.Call) and isinstance(n.func, ast.Attribute) and isinstance(n.func.value, ast.Name) and n.func.value.id == method.params[0] and n.func.attr.startswith("print_")
            for n in walk_local(method.node)
        )
        key = f"MainPresentation.{name}"
        if prints:
            if name in api_pres.methods:
                rule.ok(key, "overridden by the API presentation")
            else:
                rule.fail(key, where(method), f"MainPresentation.{name} prints to the console and _ApiPresentation does not override it: API callers lose that output (and it goes to the host's stdout)")
        elif calls_printing and name not in api_pres.methods:
            rule.ok(key, "delegates to overridden methods")
    copier = api_pres.methods.get("print_scan_failure")
    failure = prog.cls(PSF)
    fields = [name for name in failure.class_attr_types]
    if copier is None:
        rule.fail("_ApiPresentation.print_scan_failure", where(api_pres.methods["__init__"]), "missing")
        return
    ctor = [n for n in walk_local(copier.node) if isinstance(n, ast.Call) and (dotted(n.func) or "").endswith("PyMarkdownScanFailure")]
    if not ctor:
        rule.fail(func_key(copier), where(copier), "scan failures are no longer copied into PyMarkdownScanFailure")
        return
    param = copier.params[1]
    copied: Dict[str, str] = {}
    for keyword in ctor[0].keywords:
        if isinstance(keyword.value, ast.Attribute) and isinstance(keyword.value.value, ast.Name) and keyword.value.value.id == param:
            copied[keyword.arg or ""] = keyword.value.attr
        else:
            copied[keyword.arg or ""] = "<" + norm(keyword.value) + ">"
    for name in fields:
        key = f"_ApiPresentation.print_scan_failure: {name}"
        if copied.get(name) == name:
            rule.ok(key, "copied")
        else:
            rule.fail(key, where(copier, ctor[0]), f"field '{name}' of the failure reaches the API as {copied.get(name, 'nothing')}: the API reports something other than the command line prints")


def api_results_from_presentation(ctx: Context, rule_id: str = "R16g") -> None:
    """Every result object the API returns is built from what the presentation captured, on every path."""
    prog = ctx.prog
    rule = ctx.rule(rule_id, "API results are built from what the run printed, never from the exit code", 3)
    api = prog.cls(API)
    presentation = prog.cls(API_PRES)

    def captured_by(printer: str) -> List[str]:
        """fields of the API presentation that the given printing method appends to"""
        method = presentation.methods.get(printer)
        if method is None or not method.params:
            rule.fail(f"{presentation.name}.{printer}", where(presentation.methods.get("__init__") or next(iter(presentation.methods.values()))), f"the API presentation no longer overrides {printer}: what the run reports there is printed instead of being returned to the API caller")
            return ["<not captured>"]
        me = method.params[0]
        fields = [
            n.func.value.attr for n in walk_local(method.node)
            if isinstance(n, ast.Call) and isinstance(n.func, ast.Attribute) and n.func.attr in ("append", "extend") and isinstance(n.func.value, ast.Attribute)
            and isinstance(n.func.value.value, ast.Name) and n.func.value.value.id == me
        ]
        if not fields:
            raise AnalysisError(f"{method.short} no longer records what it is asked to print")
        return fields

    wanted = {
        "PyMarkdownScanPathResult": captured_by("print_scan_failure") + captured_by("print_pragma_failure"),
        "PyMarkdownFixResult": captured_by("print_fix_message"),
        "PyMarkdownListPathResult": captured_by("print_system_output"),
    }
    seen = 0
    for func in list(api.methods.values()) + list(presentation.methods.values()):
        for node in walk_local(func.node):
            if not isinstance(node, ast.Call):
                continue
            name = (dotted(node.func) or "").split(".")[-1]
            if name not in wanted:
                continue
            seen += 1
            key = func_key(func, node)
            exprs = list(node.args) + [k.value for k in node.keywords]
            texts = [norm(a) for a in exprs]
            captured = set()
            work = list(exprs)
            followed: Set[str] = set()
            while work:
                expr = work.pop()
                for sub in ast.walk(expr):
                    if isinstance(sub, ast.Attribute):
                        owner = prog.infer(func, sub.value)
                        if owner and owner[0] == "cls" and owner[1].qualname == API_PRES:
                            captured.add(sub.attr)
                    elif isinstance(sub, ast.Name) and sub.id not in followed and sub.id not in func.params:
                        # an explaining local: what it was bound to
                        followed.add(sub.id)
                        work.extend(n.value for n in walk_local(func.node) if isinstance(n, (ast.Assign, ast.AnnAssign)) and getattr(n, "value", None) is not None
                                    and any(isinstance(t, ast.Name) and t.id == sub.id for t in (n.targets if isinstance(n, ast.Assign) else [n.target])))
            missing = [field for field in wanted[name] if field not in captured]
            if missing or len(texts) != len(wanted[name]):
                rule.fail(key, where(func, node), f"{func.short} builds a {name} from {texts}: the result no longer reflects what the run reported ({wanted[name]} of the presentation), so the API disagrees with the command line (for example under the minimal return-code scheme)")
            else:
                rule.ok(key, f"built from presentation.{'/'.join(wanted[name])}")
    if seen < 3:
        raise AnalysisError(f"only {seen} API result constructions found")


def _literal_only(expr: ast.AST) -> Optional[str]:
    if isinstance(expr, ast.Constant) and isinstance(expr.value, str):
        return expr.value
    if isinstance(expr, ast.BinOp) and isinstance(expr.op, ast.Add):
        left, right = _literal_only(expr.left), _literal_only(expr.right)
        return left + right if left is not None and right is not None else None
    if isinstance(expr, ast.JoinedStr) and all(isinstance(v, ast.Constant) for v in expr.values):
        return "".join(str(v.value) for v in expr.values)  # type: ignore[attr-defined]
    return None


def _is_level_test(test: ast.AST, level_tests) -> bool:
    """Is some atom of the condition itself a log-level predicate (not merely an argument)?"""
    if isinstance(test, ast.BoolOp):
        return any(_is_level_test(v, level_tests) for v in test.values)
    if isinstance(test, ast.UnaryOp):
        return _is_level_test(test.operand, level_tests)
    if isinstance(test, ast.Call):
        name = dotted(test.func) or norm(test.func)
        return name.split(".")[-1] in level_tests
    if isinstance(test, (ast.Name, ast.Attribute)):
        name = dotted(test) or ""
        return name.split(".")[-1].lstrip("_") in level_tests
    return False


def r16e(ctx: Context) -> None:
    prog = ctx.prog
    rule = ctx.rule("R16e", "log level and stack-trace flag cannot change results", 1500)
    logger = prog.cls(PLOG)
    methods = {"info", "debug", "debug_with_visible_whitespace"}
    sites = 0
    for func in prog.iter_functions():
        for site in prog.sites_in(func):
            if not any(t.cls == logger and t.name in methods for t in site.targets):
                continue
            sites += 1
            node = site.node
            if not node.args:
                rule.fail(func_key(func, node), site.where, "ParserLogger call without a format")
                continue
            rest = node.args[1:]
            if any(isinstance(a, ast.Starred) for a in rest):
                rule.ok(f"{func.short}: log call with *args", "arity decided at run time by the caller")
                continue
            literal = _literal_only(node.args[0])
            if literal is not None:
                wanted = literal.count("$")
                if rest and wanted != len(rest):
                    rule.fail(func_key(func, node), site.where, f"the format has {wanted} '$' placeholder(s) but {len(rest)} argument(s): the logger raises, but only when this log level is enabled — turning on logging changes the result")
                else:
                    rule.ok(f"{func.rel}:{func.short}:{literal[:50]}", f"{wanted} placeholder(s)")
            else:
                if rest:
                    rule.fail(func_key(func, node), site.where, "the log format embeds run-time text and also takes arguments: a '$' in the text shifts the placeholders and the logger raises when this level is enabled")
                else:
                    rule.ok(f"{func.rel}:{func.short}:{norm(node.args[0])[:50]}", "ready-made message without arguments (logged verbatim)")
    if sites < 1500:
        raise AnalysisError(f"only {sites} ParserLogger call sites resolved (1 979 confirmed)")
    munge = prog.method(PLOG, "__munge")
    # the '$' of a format is a placeholder only when arguments were given: every split of the format on '$'
    # (in the formatter or a helper of it) is control-dependent on the argument list being non-empty
    formatters = [munge] + [t for site in prog.sites_in(munge) for t in site.targets if t.cls == munge.cls]
    splits = []
    for formatter in formatters:
        list_params = {a.arg for a in formatter.node.args.args if a.annotation is not None and ast.unparse(a.annotation).startswith(("List[", "Tuple[", "Sequence["))}  # type: ignore[attr-defined]
        if formatter.node.args.vararg:  # type: ignore[attr-defined]
            list_params.add(formatter.node.args.vararg.arg)  # type: ignore[attr-defined]
        for node in walk_local(formatter.node):
            if isinstance(node, ast.Call) and isinstance(node.func, ast.Attribute) and node.func.attr == "split" and node.args and isinstance(node.args[0], ast.Constant) and node.args[0].value == "$":
                guarded = any(
                    polarity and ((isinstance(test, ast.Name) and test.id in list_params) or (isinstance(test, ast.Call) and dotted(test.func) == "len" and test.args and isinstance(test.args[0], ast.Name) and test.args[0].id in list_params)
                                  or (isinstance(test, ast.Compare) and any(isinstance(sub, ast.Name) and sub.id in list_params for sub in ast.walk(test))))
                    for test, polarity in guards_of(formatter.node, node)
                )
                splits.append(guarded)
    verbatim = bool(splits) and all(splits)
    if verbatim:
        rule.ok(func_key(munge) + ": argument-free formats", "logged verbatim")
    else:
        rule.fail(func_key(munge) + ": argument-free formats", where(munge), "a format without arguments is still split on '$': document text containing '$' makes the logger raise when the level is enabled")
    # (ii) code under a log-level test
    level_tests = ("is_enabled_for", "isEnabledFor", "is_debug_enabled", "is_info_enabled", "getEffectiveLevel")
    for func in prog.iter_functions():
        if func.cls is not None and func.cls.name in ("ParserLogger", "ApplicationLogging"):
            continue
        for node in walk_local(func.node):
            if not isinstance(node, ast.If) or not _is_level_test(node.test, level_tests):
                continue
            chain: List[ast.stmt] = list(node.body)
            for stmt in list(node.orelse):
                chain.append(stmt)
            saved_names: Set[str] = set()
            bad: Optional[ast.stmt] = None
            for stmt in [s for top in chain for s in ast.walk(top) if isinstance(s, ast.stmt)]:
                if isinstance(stmt, ast.If):
                    continue
                if isinstance(stmt, ast.Expr) and isinstance(stmt.value, ast.Call):
                    name = dotted(stmt.value.func) or ""
                    if name.split(".")[0] in ("POGGER", "LOGGER", "logging") or ".getLogger" in name:
                        continue
                if isinstance(stmt, ast.Assign) and all(isinstance(t, ast.Name) for t in stmt.targets) and (dotted(stmt.value) or "").startswith("logging."):
                    saved_names.update(t.id for t in stmt.targets)  # type: ignore[attr-defined]
                    continue
                bad = stmt
                break
            key = func_key(func, node.test)
            if bad is not None:
                rule.fail(key, where(func, bad), f"'{norm(bad)[:80]}' runs only when a log level is enabled: a diagnostic option changes what the program does")
                continue
            # saved level names may only feed logging calls
            misuse = None
            for name in saved_names:
                for use in walk_local(func.node):
                    if isinstance(use, ast.Name) and use.id == name and isinstance(use.ctx, ast.Load):
                        holder = next((c for c in walk_local(func.node) if isinstance(c, ast.Call) and any(sub is use for sub in ast.walk(c))), None)
                        text = norm(holder.func) if holder is not None else ""
                        if not text or not ("logging" in text or "getLevelName" in text or "setLevel" in text or text.split(".")[0] in ("POGGER", "LOGGER")):
                            misuse = use
            if misuse is not None:
                rule.fail(key, where(func, misuse), f"a value chosen by the log level ('{misuse.id}') is used outside logging")
            else:
                rule.ok(key, "only logging (or saving the level for logging) depends on the log level")
    # (iii) the stack-trace flag: whatever is computed from it may select message text, never control flow
    flag_fields = {"__show_stack_trace"}
    tainted: Dict[str, Set[str]] = {}

    def carries(func: FuncInfo, expr: ast.AST) -> bool:
        names = tainted.get(func.qualname, set())
        for sub in ast.walk(expr):
            if isinstance(sub, ast.Name) and sub.id in names:
                return True
            if isinstance(sub, ast.Attribute) and sub.attr in flag_fields and isinstance(sub.ctx, ast.Load):
                return True
        return False

    changed = True
    rounds = 0
    while changed and rounds < 12:
        changed = False
        rounds += 1
        for func in prog.iter_functions():
            names = tainted.setdefault(func.qualname, set())
            for node in walk_local(func.node):
                if isinstance(node, (ast.Assign, ast.AnnAssign)) and getattr(node, "value", None) is not None and carries(func, node.value):
                    targets = node.targets if isinstance(node, ast.Assign) else [node.target]
                    for target in targets:
                        for sub in ast.walk(target):
                            if isinstance(sub, ast.Name) and sub.id not in names:
                                names.add(sub.id)
                                changed = True
                # implicit flow: what is assigned under a test that carries the flag carries it too
                if isinstance(node, (ast.If, ast.While)) and carries(func, node.test):
                    for stmt in node.body + node.orelse:
                        for sub in ast.walk(stmt):
                            if isinstance(sub, ast.Name) and isinstance(sub.ctx, ast.Store) and sub.id not in names:
                                names.add(sub.id)
                                changed = True
            for site in prog.sites_in(func):
                if site.wild:
                    continue
                for target in site.targets:
                    params = list(target.params)
                    offset = 1 if target.kind in ("instance", "class", "property") or target.name == "__init__" else 0
                    callee_names = tainted.setdefault(target.qualname, set())
                    for index, arg in enumerate(site.node.args):
                        if carries(func, arg) and index + offset < len(params) and params[index + offset] not in callee_names:
                            callee_names.add(params[index + offset])
                            changed = True
                    for keyword in site.node.keywords:
                        if keyword.arg and keyword.arg in params and carries(func, keyword.value) and keyword.arg not in callee_names:
                            callee_names.add(keyword.arg)
                            changed = True
    checked = 0
    for func in prog.iter_functions():
        if func.rel.startswith("pymarkdown/api.py"):
            continue  # the API only forwards the option to main (R16a)
        for node in walk_local(func.node):
            test = node.test if isinstance(node, (ast.If, ast.While)) else None
            if test is None or not carries(func, test) or "fix_debug" in norm(test):
                continue
            checked += 1
            blocks = (node.body + node.orelse) if isinstance(node, ast.If) else node.body
            body = [s for top in blocks for s in ast.walk(top) if isinstance(s, ast.stmt)]
            offending = [s for s in body if isinstance(s, (ast.Return, ast.Raise, ast.Break, ast.Continue)) or (isinstance(s, ast.Expr) and isinstance(s.value, ast.Call) and "exit_application" in norm(s.value))]
            key = func_key(func, test)
            if isinstance(node, ast.While):
                # a loop that only assembles text under the flag is message detail; one that can leave the function is not
                offending = [s for s in offending if not isinstance(s, (ast.Break, ast.Continue))]
            if offending:
                rule.fail(key, where(func, offending[0]), f"control flow ('{norm(offending[0])[:60]}') depends on '{norm(test)[:60]}', which is computed from --stack-trace: the option changes what the run does, not only what its messages say")
            else:
                rule.ok(key, "selects message detail only")
    if checked < 2:
        raise AnalysisError(f"only {checked} test(s) on the stack-trace flag found (2 confirmed)")

def r16h(ctx: Context) -> None:
    """The command line ends a run with a process exit; the API runs the same main() and has to turn that exit into
    its own answer: an exception when the run ended in an error, results otherwise.  Every API method that runs main()
    does this the same way - catch the exit, keep its code, hand the code to what builds the answer.  A sibling that
    drops one of the three steps answers 'no failures' for a run that the command line ends with an error."""
    prog = ctx.prog
    rule = ctx.rule("R16h", "every API method that runs main() catches the exit, keeps its code and hands it to what builds the answer", 1)
    api = prog.cls(API)
    main = prog.method(MAIN, "main")
    for method in sorted(api.methods.values(), key=lambda f: f.qualname):
        for site in prog.sites_in(method):
            if main not in site.targets:
                continue
            key = func_key(method, site.node) + " [exit code kept]"
            def code_names(h: ast.ExceptHandler) -> Set[str]:
                """locals of the handler that hold the exit code (or what was computed from it)"""
                names: Set[str] = set()
                grew = True
                while grew:
                    grew = False
                    for stmt in h.body:
                        for n in ast.walk(stmt):
                            if isinstance(n, (ast.Assign, ast.AnnAssign)) and getattr(n, "value", None) is not None and carries_code(h, n.value, names):
                                for t in (n.targets if isinstance(n, ast.Assign) else [n.target]):
                                    if isinstance(t, ast.Name) and t.id not in names:
                                        names.add(t.id)
                                        grew = True
                return names

            def carries_code(h: ast.ExceptHandler, expr: ast.AST, names: Set[str]) -> bool:
                return any((isinstance(sub, ast.Attribute) and sub.attr == "code" and isinstance(sub.value, ast.Name) and sub.value.id == h.name) or (isinstance(sub, ast.Name) and sub.id in names) for sub in ast.walk(expr))

            returned = [h for t in walk_local(method.node) if isinstance(t, ast.Try) and any(sub is site.node for stmt in t.body for sub in ast.walk(stmt)) for h in t.handlers
                        if h.name and any(isinstance(r, ast.Return) and r.value is not None and carries_code(h, r.value, code_names(h)) for stmt in h.body for r in ast.walk(stmt))]
            if returned:
                # a helper that runs main() and answers with the exit code: every caller must take the answer
                callers = [s for s in prog.callers.get(method.qualname, [])]
                dropped = [s for s in callers if any(isinstance(stmt, ast.Expr) and stmt.value is s.node for stmt in walk_local(s.caller.node))]
                if not callers:
                    rule.fail(key, where(method), f"{method.short} answers with the exit code of the run, but nobody calls it")
                for caller_site in callers:
                    ckey = func_key(caller_site.caller, caller_site.node) + " [exit code kept]"
                    if caller_site in dropped:
                        rule.fail(ckey, caller_site.where, f"{method.short} answers with the exit code of the run, but {caller_site.caller.short} does not take the answer: its result is built as if the run had ended well")
                    else:
                        rule.ok(ckey, f"takes the exit code that {method.short} returns")
                continue
            handlers = [(t, h) for t in walk_local(method.node) if isinstance(t, ast.Try) and any(sub is site.node for stmt in t.body for sub in ast.walk(stmt))
                        for h in t.handlers if h.type is None or any((dotted(sub) or "").split(".")[-1] in ("SystemExit", "BaseException") for sub in ast.walk(h.type))]
            if not handlers:
                rule.fail(key, site.where, f"{method.short} runs main() outside a handler for SystemExit: the run's exit ends the caller's process")
                continue
            try_stmt, handler = handlers[0]
            kept = sorted(code_names(handler)) if handler.name else []
            if not kept:
                rule.fail(key, where(method, handler), f"{method.short} catches the exit of main() but does not keep its code: the answer is built as if the run had ended well (its sibling methods keep 'this_exception.code' and hand it on)")
                continue
            # the statements after the try read it
            used = False
            later: List[ast.stmt] = []
            holder_stmt: ast.AST = try_stmt
            while True:
                block = next((b for h in ast.walk(method.node) for b in (getattr(h, "body", None), getattr(h, "orelse", None), getattr(h, "finalbody", None)) if isinstance(b, list) and any(s is holder_stmt for s in b)), None)
                if block is None:
                    break
                index = next(i for i, s in enumerate(block) if s is holder_stmt)
                later.extend(block[index + 1:])
                parent = next((h for h in ast.walk(method.node) if isinstance(h, ast.stmt) and h is not method.node and any(block is getattr(h, f, None) for f in ("body", "orelse", "finalbody"))), None)
                if parent is None:
                    break
                holder_stmt = parent
            for stmt in later:
                if any(isinstance(sub, ast.Name) and sub.id in kept and isinstance(sub.ctx, ast.Load) for sub in ast.walk(stmt)):
                    used = True
            if used:
                rule.ok(key, f"'{kept[0]}' kept and handed on")
            else:
                rule.fail(key, where(method, handler), f"{method.short} keeps the exit code in '{kept[0]}' but nothing after the call reads it")


def api_options_only_accumulate(ctx: Context, rule_id: str = "R16j") -> None:
    """The API hands main() the command line its caller spelled out, call by call: a repeatable option (rules to
    enable, rules to disable, --set values, plugin paths) is kept in a list that only grows.  An option method that
    takes entries out of a list - its own or a sibling's ('the later call wins') - makes the API decide what the
    application decides (for -d X -e X the application says 'disabled' in either order), so the same selection gives
    different reports through the API and on the command line.  And one option method records one option."""
    prog = ctx.prog
    rule = ctx.rule(rule_id, "repeatable API options are lists that only grow; an option method records one option", 4)
    api = prog.cls(API)
    init = api.methods.get("__init__")
    if init is None:
        raise AnalysisError("PyMarkdownApi.__init__ not found (anchor moved)")
    this = init.params[0]

    def field_of(node: ast.AST, me: str) -> Optional[str]:
        if isinstance(node, ast.Attribute) and isinstance(node.value, ast.Name) and node.value.id == me:
            return node.attr
        return None

    list_fields: Set[str] = set()
    all_fields: Set[str] = set()
    for node in walk_local(init.node):
        if isinstance(node, (ast.Assign, ast.AnnAssign)) and node.value is not None:
            for target in node.targets if isinstance(node, ast.Assign) else [node.target]:
                name = field_of(target, this)
                if name:
                    all_fields.add(name)
                    if isinstance(node.value, ast.List) or (isinstance(node.value, ast.Call) and dotted(node.value.func) == "list"):
                        list_fields.add(name)
    for name, method in sorted(api.methods.items()):
        if method is init or not method.params:
            continue
        me = method.params[0]
        written: Set[str] = set()
        shrinking: List[Tuple[ast.AST, str, str]] = []
        for node in walk_local(method.node):
            if isinstance(node, ast.Call) and isinstance(node.func, ast.Attribute):
                field = field_of(node.func.value, me)
                if field in list_fields:
                    if node.func.attr in ("remove", "pop", "clear", "__delitem__"):
                        shrinking.append((node, field, f".{node.func.attr}()"))
                    if node.func.attr in ("append", "extend", "insert", "remove", "pop", "clear", "sort", "reverse"):
                        written.add(field)
            elif isinstance(node, (ast.Assign, ast.AugAssign, ast.AnnAssign)):
                for target in node.targets if isinstance(node, ast.Assign) else [node.target]:
                    field = field_of(target, me)
                    if field:
                        written.add(field)
                        if field in list_fields and not isinstance(node, ast.AugAssign):
                            shrinking.append((node, field, "is re-assigned"))
                    if isinstance(target, ast.Subscript) and field_of(target.value, me) in list_fields:
                        written.add(field_of(target.value, me) or "")
            elif isinstance(node, ast.Delete):
                for target in node.targets:
                    base = target.value if isinstance(target, ast.Subscript) else target
                    field = field_of(base, me)
                    if field in list_fields:
                        shrinking.append((node, field, "del"))
        for node, field, how in shrinking:
            rule.fail(f"PyMarkdownApi.{name}: {field} only grows", where(method, node), f"'{field}' {how} in {method.short}: what an earlier API call asked for is taken back before the command line is built, so the application never sees it (with -d X -e X it answers 'disabled' whatever the order; the API now answers by call order) - the API and the command line disagree on the same selection")
        option_writes = written & all_fields
        fluent = any(isinstance(n, ast.Return) and isinstance(n.value, ast.Name) and n.value.id == me for n in walk_local(method.node))
        if fluent and not name.startswith("_"):
            key = f"PyMarkdownApi.{name}: one option"
            if len(option_writes) <= 1:
                rule.ok(key, f"records {sorted(option_writes) or 'through a sibling'}")
            else:
                rule.fail(key, where(method), f"{method.short} writes {sorted(option_writes)}: one API call changes another option as well, which no single command-line option does")
    for field in sorted(list_fields):
        rule.ok(f"PyMarkdownApi.{field}", "list-valued option")


def run(ctx: Context) -> None:
    r16a(ctx)
    r16b(ctx)
    r16c(ctx)
    strict_decoding(ctx)
    r16d(ctx)
    r16e(ctx)
    api_results_from_presentation(ctx)
    r16h(ctx)
    api_options_only_accumulate(ctx)
