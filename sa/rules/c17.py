"""C17 — rule selection and settings follow the documented precedence of layers."""

from __future__ import annotations

import ast
import os
import re
from typing import Any, Dict, List, Optional, Set, Tuple

from sa.events import EventOrder, Spec
from sa.model import AnalysisError, CallSite, ClassInfo, FuncInfo, Program, dotted, norm, walk_local
from sa.report import Context
from sa.rules.common import MAIN, PM, RULE_PLUGIN
from sa.state import method_closure
from sa.triage import C17_RAISE_EXCEPTIONS
from sa.util import func_key, guards_of, md_tables, returns_of, site_for, strip_code, where

EXPLANATION = (
    "Decides, from /repo's current source: R17a on every path of the layer loader the configuration sources are "
    "applied in the order project file (pyproject.toml), default file(s), --config file, --set, every file loader is "
    "asked not to clear what earlier layers set, and strict mode is switched on after all layers are loaded; "
    "R17b the enabled decision is command-line disable, then command-line enable, then the configuration section "
    "found through the rule's identifiers (id first, then names), then the rule's default, and the extension manager "
    "follows the same chain (command line aside); all lookups iterate the same identifier list; "
    "R17c in the closure of every rule's initialize_from_config (and every extension's apply_configuration) values "
    "are read only through the typed getters, and an exception is raised only inside a function handed to the "
    "getter as valid_value_fn (so that lenient mode can fall back to the default); R17d for every rule the "
    "documentation page agrees with the code on aliases, enabled-by-default, configuration prefixes and, "
    "per configuration item, name, type and literal default; R17e nothing reads the properties before every layer is applied; R17f (contradiction rule) every integer validator rejects exactly the integers outside the range its own error message states - the rejection condition (if-block or early-return form) is a closed predicate over one integer and is evaluated over a window of integers; the section a rule is configured from is the result of the lookup over all its identifiers and over nothing else. R17g the error reporter of the application object ends the process under exactly one flag and no call from inside an exception handler passes anything but True for it (a strict-mode configuration error always stops the run). R17h every documented name of the default configuration file is loaded through the loader its extension calls for; R17i validators look the value as written up in the allowed values. Not decided: the value-level behaviour of the "
    "application_properties library (layer override, type coercion, strict-mode errors)."
)
ASSUMPTIONS = [
    "application_properties: a later load/set overrides an earlier one for the same key; typed getters return default_value "
    "on a missing or (lenient mode) invalid value and raise ValueError in strict mode; valid_value_fn failures count as invalid",
]

ACH = "pymarkdown.application_configuration_helper.ApplicationConfigurationHelper"
EM = "pymarkdown.extension_manager.extension_manager.ExtensionManager"


def r17a(ctx: Context) -> None:
    prog = ctx.prog
    rule = ctx.rule("R17a", "layers load in the order project file, default file, --config, --set; nothing is cleared", 6)
    entry = prog.method(ACH, "apply_configuration_layers")
    default_loader = prog.method(ACH, "__process_default_configuration_files")

    def event_of(func: FuncInfo, site: CallSite) -> Optional[str]:
        ext = site.external or ""
        if ext.endswith("process_standard_python_configuration_files"):
            return "P"
        if ext.endswith(".load_and_set"):
            return "D" if func == default_loader else "C"
        if ext.endswith("set_manual_property"):
            return "S"
        if ext.endswith("enable_strict_mode"):
            return "X"
        return None

    spec = Spec(
        0,
        {(0, "P"): 1, (1, "D"): 1, (1, "C"): 2, (1, "S"): 3, (2, "S"): 3, (1, "X"): 4, (2, "X"): 4, (3, "X"): 4},
        accept_normal={1, 2, 3, 4}, accept_raise={0, 1, 2, 3, 4},
        names={0: "nothing loaded", 1: "project + default files", 2: "--config file", 3: "--set", 4: "strict mode on"},
    )
    order = EventOrder(prog, event_of, raising=None)
    witness = order.check(entry, spec)
    key = func_key(entry) + ": layer order"
    if witness is None:
        rule.ok(key, "project file, default file(s), --config, --set, then strict mode")
    else:
        rule.fail(key, where(entry), f"configuration layers are not applied in the documented order: {witness['message']}", list(witness["steps"]))  # type: ignore[arg-type]
    loads = 0
    for func in prog.cls(ACH).methods.values():
        for site in prog.sites_in(func):
            if (site.external or "").endswith(".load_and_set"):
                loads += 1
                keep = next((k.value for k in site.node.keywords if k.arg == "clear_property_map"), None)
                lkey = func_key(func, site.node)
                if isinstance(keep, ast.Constant) and keep.value is False:
                    rule.ok(lkey, "clear_property_map=False")
                else:
                    rule.fail(lkey, site.where, "a configuration file is loaded without clear_property_map=False: it wipes every lower layer instead of overriding it key by key")
    if loads < 3:
        raise AnalysisError(f"only {loads} load_and_set calls found (6 confirmed on the pinned tree; at least the default files, --config and the project file are needed)")
    # --config and --set are guarded by their own arguments only
    project = prog.method(ACH, "__process_project_specific_json_configuration")
    for site in prog.sites_in(project):
        ext = site.external or ""
        if ext.endswith("set_manual_property"):
            facts = [norm(t) for t, p in guards_of(project.node, site.node) if p]
            given = [norm(a) for a in site.node.args]
            if len(facts) == 1 and facts[0] in given and facts[0].endswith(".set_configuration"):
                rule.ok(func_key(project, site.node), "--set applied whenever given")
            else:
                rule.fail(func_key(project, site.node), site.where, f"--set is applied under {facts}")


def _identifier_loops(func: FuncInfo) -> List[ast.For]:
    return [n for n in walk_local(func.node) if isinstance(n, ast.For) and norm(n.iter).endswith("plugin_identifiers")]


def r17b(ctx: Context) -> None:
    prog = ctx.prog
    rule = ctx.rule("R17b", "enabled = command-line disable > command-line enable > configuration > default", 8)
    decide = prog.method(PM, "__determine_if_plugin_enabled")
    cmd = prog.method(PM, "__handle_command_line_settings")
    find = prog.method(PM, "__find_configuration_for_plugin")
    # decide: value from the command line first; configuration only when that is None; default last
    rets = returns_of(decide)
    key = func_key(decide)
    value_var = None
    for node in walk_local(decide.node):
        if isinstance(node, ast.Assign) and isinstance(node.value, ast.Call):
            site = site_for(prog, decide, node.value)
            if site and cmd in site.targets and isinstance(node.targets[0], ast.Name):
                value_var = node.targets[0].id
    if value_var is None:
        rule.fail(key + ": command line first", where(decide), "the enabled decision no longer starts from the command-line settings")
        return
    rule.ok(key + ": command line first", f"{value_var} = command-line decision")
    def _enabled_read(expr: ast.AST) -> bool:
        return isinstance(expr, ast.Call) and isinstance(expr.func, ast.Attribute) and expr.func.attr.startswith("get_") and bool(expr.args) and isinstance(expr.args[0], ast.Constant) and expr.args[0].value == "enabled"

    def _config_helper(helper: FuncInfo) -> bool:
        """a helper of the manager that looks the rule's section up and returns its 'enabled' entry (or None)"""
        if helper in (decide, cmd, find) or helper.cls != decide.cls or find.qualname not in prog.reachable([helper]):
            return False
        rets = returns_of(helper)

        def configured(expr: ast.AST, depth: int = 0) -> bool:
            if isinstance(expr, ast.Constant) and expr.value is None or _enabled_read(expr):
                return True
            if isinstance(expr, ast.Name) and depth < 3:
                values = [n.value for n in walk_local(helper.node) if isinstance(n, ast.Assign) and any(isinstance(t, ast.Name) and t.id == expr.id for t in n.targets)]
                return bool(values) and all(configured(v, depth + 1) for v in values)
            return False

        return bool(rets) and all(configured(r) for r in rets) and any(not (isinstance(r, ast.Constant) and r.value is None) for r in rets)

    config_helpers = [t for s in prog.sites_in(decide) for t in s.targets if _config_helper(t)]
    consults = lambda site: bool(site) and (find in site.targets or any(t in config_helpers for t in site.targets))  # noqa: E731
    config_sites = [s for s in prog.sites_in(decide) if consults(s)]
    if not config_sites:
        rule.fail(key + ": configuration", where(decide), "the enabled decision never consults the configuration section of the rule")
    # The chain as a property of every path through the function (whatever its shape: nested ifs, early returns,
    # a conditional expression): each value carries its source (command line / configuration / rule default) and
    # what the path has established about it being None.
    from sa.cfg import CFG
    from sa.util import enumerate_paths

    cfg = CFG(decide.node, raising=lambda n: False)

    def source_of(expr: ast.AST) -> Optional[str]:
        if isinstance(expr, ast.Call):
            site = site_for(prog, decide, expr)
            if site and cmd in site.targets:
                return "cmd"
            if _enabled_read(expr) or (site and site.targets and all(t in config_helpers for t in site.targets)):
                return "config"
        if isinstance(expr, ast.Attribute) and expr.attr == "plugin_enabled_by_default":
            return "default"
        return None

    def narrow(test: ast.AST, outcome: bool, env: Dict[str, str], known: Dict[str, str]) -> None:
        """record what the branch establishes about the source held by the tested local"""
        name, is_none = None, None
        if isinstance(test, ast.Compare) and len(test.ops) == 1 and isinstance(test.left, ast.Name) and isinstance(test.comparators[0], ast.Constant) and test.comparators[0].value is None:
            name = test.left.id
            is_none = outcome if isinstance(test.ops[0], ast.Is) else (not outcome) if isinstance(test.ops[0], ast.IsNot) else None
        elif isinstance(test, ast.Name) and outcome:
            name, is_none = test.id, False
        if name is not None and is_none is not None and name in env:
            known[env[name]] = "none" if is_none else "value"

    problems: List[str] = []
    verdict_paths = 0
    for path in enumerate_paths(cfg, loop_bound=1):
        if path[-1][0] != cfg.exit:
            continue
        env: Dict[str, str] = {}
        known: Dict[str, str] = {}
        consulted = False
        returned: Optional[ast.AST] = None
        for nid, label in path:
            node = cfg.nodes[nid]
            stmt = node.ast_node
            if stmt is None:
                continue
            if node.kind == "cond":
                for sub in ast.walk(stmt):
                    if isinstance(sub, ast.Call):
                        site = site_for(prog, decide, sub)
                        if consults(site):
                            consulted = True
                            if known.get("cmd") != "none":
                                problems.append("the configuration section is consulted on a path on which the command line has not been found silent")
                narrow(stmt, label == "true", env, known)
            elif isinstance(stmt, ast.Assign):
                for sub in ast.walk(stmt.value):
                    if isinstance(sub, ast.Call):
                        site = site_for(prog, decide, sub)
                        if consults(site):
                            consulted = True
                            if known.get("cmd") != "none":
                                problems.append("the configuration section is consulted on a path on which the command line has not been found silent")
                source = source_of(stmt.value)
                for target in stmt.targets:
                    if isinstance(target, ast.Name):
                        if source:
                            env[target.id] = source
                            known.pop(source, None) if source != "default" else None
                        elif isinstance(stmt.value, ast.Name) and stmt.value.id in env:
                            env[target.id] = env[stmt.value.id]
                        else:
                            env.pop(target.id, None)
            elif isinstance(stmt, ast.Return):
                returned = stmt.value
        if returned is None:
            continue
        verdict_paths += 1
        cases: List[Tuple[ast.AST, Dict[str, str]]] = [(returned, dict(known))]
        if isinstance(returned, ast.IfExp):
            cases = []
            for outcome, branch in ((True, returned.body), (False, returned.orelse)):
                branch_known = dict(known)
                narrow(returned.test, outcome, env, branch_known)
                cases.append((branch, branch_known))
        for value, facts in cases:
            source = source_of(value) or (env.get(value.id) if isinstance(value, ast.Name) else None)
            if source is None:
                problems.append(f"a path returns '{norm(value)[:50]}', which is neither the command-line decision, the configured value nor the rule's default")
            elif source in ("cmd", "config") and facts.get(source) != "value":
                problems.append(f"a path returns the {'command-line' if source == 'cmd' else 'configured'} value without having established that it is not None: the next layer never gets its turn")
            if source in ("config", "default") and facts.get("cmd") != "none":
                problems.append(f"a path returns the {'configured value' if source == 'config' else 'default'} although the command line may have decided: -e/-d are outranked")
            if source == "default" and "config" in env.values() and facts.get("config") != "none":
                problems.append("a path returns the rule's default although the configuration may have set 'enabled'")
        _ = consulted
    if verdict_paths == 0:
        raise AnalysisError(f"{decide.short}: no path returns a decision")
    if problems:
        rule.fail(key + ": chain", where(decide), sorted(set(problems))[0] + (f" (+{len(set(problems)) - 1} more)" if len(set(problems)) > 1 else ""))
    else:
        rule.ok(key + ": chain", f"{verdict_paths} path(s): command line, then configuration when it is silent, then the default when both are silent")
    # the 'enabled' key is read as a boolean with no default (None = not mentioned)
    reads = [(f, n) for f in [decide] + config_helpers for n in walk_local(f.node) if isinstance(n, ast.Call) and isinstance(n.func, ast.Attribute) and n.func.attr.startswith("get_") and n.args and isinstance(n.args[0], ast.Constant)]
    for holder, read in reads:
        if read.args[0].value == "enabled":
            default = next((k.value for k in read.keywords if k.arg == "default_value"), None)
            if read.func.attr == "get_boolean_property" and isinstance(default, ast.Constant) and default.value is None:
                rule.ok(func_key(holder, read), "tri-state read of 'enabled'")
            else:
                rule.fail(func_key(holder, read), where(holder, read), "'enabled' is not read as a boolean with default None: an unset key cannot be told from false")
    # command line: a rule named by -d is off whatever -e says; -e turns it on only when -d was silent; otherwise
    # the command line is silent (None).  Checked on every path through the function, whatever its shape.
    ckey = func_key(cmd)
    set_params = [a.arg for a in cmd.node.args.args if a.annotation is not None and ast.unparse(a.annotation).startswith(("Set[", "set["))]  # type: ignore[attr-defined]
    if len(set_params) != 2:
        raise AnalysisError(f"{cmd.short}: the two command-line rule sets were not found among the parameters")
    cmd_cfg = CFG(cmd.node, raising=lambda n: False)
    outcomes: Dict[Tuple[bool, bool], Set[str]] = {}
    checked_before_true: List[bool] = []
    for path in enumerate_paths(cmd_cfg, loop_bound=2, budget=20000):
        if path[-1][0] != cmd_cfg.exit:
            continue
        hits = {name: False for name in set_params}
        infeasible = False
        seen = {name: False for name in set_params}
        bound_value: Dict[str, str] = {}
        result = "None"
        for nid, label in path:
            node = cmd_cfg.nodes[nid]
            stmt = node.ast_node
            if stmt is None:
                continue
            if node.kind == "cond":
                # prune paths that contradict a constant the path itself has just stored (x = False; ... x is None)
                tested = stmt.left if isinstance(stmt, ast.Compare) and len(stmt.ops) == 1 and isinstance(stmt.comparators[0], ast.Constant) and stmt.comparators[0].value is None else stmt
                if isinstance(tested, ast.Name) and tested.id in bound_value:
                    held = bound_value[tested.id]
                    if isinstance(stmt, ast.Compare):
                        truth = (held == "None") if isinstance(stmt.ops[0], ast.Is) else (held != "None") if isinstance(stmt.ops[0], ast.IsNot) else None
                    else:
                        truth = held not in ("None", "False", "0", "''")
                    if truth is not None and truth != (label == "true"):
                        infeasible = True
                        break
                for name in set_params:
                    if any(isinstance(sub, ast.Name) and sub.id == name for sub in ast.walk(stmt)):
                        seen[name] = True
                        if isinstance(stmt, ast.Compare) and isinstance(stmt.ops[0], ast.In) and label == "true":
                            hits[name] = True
                        if isinstance(stmt, ast.Compare) and isinstance(stmt.ops[0], ast.NotIn) and label == "false":
                            hits[name] = True
            elif isinstance(stmt, ast.Assign) and isinstance(stmt.value, ast.Constant):
                for target in stmt.targets:
                    if isinstance(target, ast.Name):
                        bound_value[target.id] = repr(stmt.value.value)
            elif isinstance(stmt, ast.Return):
                value = stmt.value
                result = "None" if value is None else repr(value.value) if isinstance(value, ast.Constant) else bound_value.get(value.id, "?") if isinstance(value, ast.Name) else "?"
        if infeasible:
            continue
        first, second = set_params
        outcomes.setdefault((hits[first], hits[second]), set()).add(result)
        if result == "True":
            checked_before_true.append(all(seen.values()))
    single = {name: outcomes.get((name == set_params[0], name == set_params[1]), set()) for name in set_params}
    disabled = [name for name in set_params if single[name] == {"False"}]
    enabled = [name for name in set_params if single[name] == {"True"}]
    if len(disabled) != 1 or len(enabled) != 1:
        rule.fail(ckey, where(cmd), f"command-line settings no longer produce both False (disable) and True (enable): a rule named in one set only ends as {{{', '.join(f'{n}: {sorted(v)}' for n, v in single.items())}}}")
    else:
        both = outcomes.get((True, True), set())
        neither = outcomes.get((False, False), set())
        problems = []
        if both - {"False"}:
            problems.append(f"a rule named in both -d and -e ends as {sorted(both)}, not disabled")
        if neither - {"None"}:
            problems.append(f"a rule named in neither set ends as {sorted(neither)}, not undecided")
        if not all(checked_before_true):
            problems.append("a path enables a rule without having looked at the disable set first")
        if problems:
            rule.fail(ckey + ": disable wins", where(cmd), "; ".join(problems) + ": enable is not conditioned on disable having been silent")
        else:
            rule.ok(ckey + ": disable wins", f"'{disabled[0]}' hit -> False, '{enabled[0]}' hit alone -> True, both -> False, neither -> None")
    # the command-line decision depends on the command-line sets and the rule's identifiers, nothing else
    param = cmd.params[1] if len(cmd.params) > 1 else "plugin_object"
    for node in walk_local(cmd.node):
        if isinstance(node, ast.Attribute) and isinstance(node.value, ast.Name) and node.value.id == param and node.attr not in ("plugin_identifiers", "plugin_id", "plugin_names"):
            rule.fail(func_key(cmd) + f": reads {node.attr}", where(cmd, node), f"the command-line decision reads '{param}.{node.attr}': -e/-d no longer apply uniformly (for example -e is ignored for a rule that a configuration file turned off), so a lower layer outranks the command line")
    rule.ok(func_key(cmd) + ": inputs", "decides from -e/-d and the rule's identifiers only")
    # every lookup goes over the rule's identifiers (id + names)
    for func in (cmd, find):
        loops = _identifier_loops(func)
        expected = 2 if func == cmd else 1
        if len(loops) >= expected:
            rule.ok(func_key(func) + ": identifiers", f"{len(loops)} loop(s) over plugin_identifiers")
        else:
            wider = []
            for node in walk_local(func.node):
                if isinstance(node, ast.For) and isinstance(node.iter, ast.Name):
                    values = [n.value for n in walk_local(func.node) if isinstance(n, ast.Assign) and any(isinstance(t, ast.Name) and t.id == node.iter.id for t in n.targets)]
                    wider += [v for v in values if "plugin_identifiers" in norm(v) and not norm(v).endswith("plugin_identifiers")]
            if wider:
                rule.fail(func_key(func) + ": identifiers", where(func, wider[0]), f"{func.short} looks a rule up under '{norm(wider[0])[:100]}', i.e. under identifiers that are not its own: another rule's section (its 'enabled' key included) now configures this rule, so enabling or configuring one rule changes another")
            else:
                rule.fail(func_key(func) + ": identifiers", where(func), f"{func.short} no longer looks the rule up by every identifier (id and names): a rule addressed by an alias is treated differently")
    # identifiers = [id, *names]
    details = prog.method(PM, "__get_plugin_details")
    listed = []
    for call in [n for n in walk_local(details.node) if isinstance(n, ast.Call) and (dotted(n.func) or "").endswith("FoundPlugin")]:
        for arg in call.args:
            if isinstance(arg, ast.List) and len(arg.elts) == 2 and isinstance(arg.elts[0], ast.Name) and isinstance(arg.elts[1], ast.Starred) and isinstance(arg.elts[1].value, ast.Name):
                # the id is the constructor's first argument, the names its second
                if len(call.args) >= 2 and norm(call.args[0]) == arg.elts[0].id and norm(call.args[1]) == arg.elts[1].value.id:
                    listed.append(arg)
    if listed:
        rule.ok(func_key(details) + ": identifier list", "[plugin_id, *plugin_names]")
    else:
        rule.fail(func_key(details) + ": identifier list", where(details), "plugin_identifiers is no longer the id followed by the names")
    # configuration section: first identifier that has a section wins (break)
    loops = _identifier_loops(find)
    if loops and any(isinstance(n, (ast.Break, ast.Return)) for n in ast.walk(loops[0])):
        rule.ok(func_key(find) + ": first section wins", "the loop is left at the first identifier with a section")
    else:
        rule.fail(func_key(find) + ": first section wins", where(find), "the section lookup does not stop at the first identifier that has a section")
    # the section a rule is configured from is the one that lookup finds: addressed by id or by any name alike
    setter_sites = [
        site for func in prog.cls(PM).methods.values() for site in prog.sites_in(func)
        if isinstance(site.node.func, ast.Attribute) and site.node.func.attr == "set_configuration_map" and site.node.args
    ]
    if not setter_sites:
        raise AnalysisError("no set_configuration_map call found in the plugin manager")

    def leaves(func: FuncInfo, expr: ast.AST, depth: int = 0) -> List[ast.AST]:
        if isinstance(expr, ast.BoolOp):
            return [leaf for value in expr.values for leaf in leaves(func, value, depth)]
        if isinstance(expr, ast.IfExp):
            return leaves(func, expr.body, depth) + leaves(func, expr.orelse, depth)
        if isinstance(expr, ast.Name) and depth < 5 and expr.id not in func.params:
            values = [n.value for n in walk_local(func.node) if isinstance(n, (ast.Assign, ast.AnnAssign)) and getattr(n, "value", None) is not None
                      and any(isinstance(t, ast.Name) and t.id == expr.id for t in (n.targets if isinstance(n, ast.Assign) else [n.target]))]
            if values:
                return [leaf for value in values for leaf in leaves(func, value, depth + 1)]
        return [expr]

    def looks_up_all_identifiers(func: FuncInfo, depth: int = 0) -> bool:
        if _identifier_loops(func):
            return True
        return depth < 2 and any(looks_up_all_identifiers(t, depth + 1) for s in prog.sites_in(func) for t in s.targets if t.cls == func.cls)

    for site in setter_sites:
        skey = func_key(site.caller, site.node) + " [section]"
        bad = []
        for leaf in leaves(site.caller, site.node.args[0]):
            call_site = site_for(prog, site.caller, leaf) if isinstance(leaf, ast.Call) else None
            if not (call_site and call_site.targets and all(looks_up_all_identifiers(t) for t in call_site.targets)):
                bad.append(norm(leaf)[:80])
        if bad:
            rule.fail(skey, site.where, f"a rule can be configured from {bad}, which is not the result of the lookup over all of the rule's identifiers: settings given under one of its names (or under its id) are ignored on that path")
        else:
            rule.ok(skey, "the section found by the lookup over id and names")
    # sibling: extension manager
    ext_decide = prog.method(EM, "__determine_if_extension_enabled")
    text = [norm(n) for n in walk_local(ext_decide.node) if isinstance(n, ast.Call) and isinstance(n.func, ast.Attribute) and n.func.attr == "get_boolean_property"]
    uses_default = any("extension_enabled_by_default" in norm(n) for n in walk_local(ext_decide.node))
    if text and uses_default:
        rule.ok(func_key(ext_decide), "configuration 'enabled' key, else the extension's default")
    else:
        rule.fail(func_key(ext_decide), where(ext_decide), "extension enablement no longer follows 'configuration, else default'")


def _getter_calls(prog: Program, funcs: List[FuncInfo]) -> List[Tuple[FuncInfo, ast.Call]]:
    """the typed property reads of the given functions.  A read inside a helper whose item name (default, validator)
    is a parameter of the helper is returned once per call of the helper, with the caller's arguments filled in."""
    import copy

    out = []
    for func in funcs:
        for node in walk_local(func.node):
            if isinstance(node, ast.Call) and isinstance(node.func, ast.Attribute) and re.match(r"get_(boolean|integer|string)_property$", node.func.attr):
                name = node.args[0] if node.args else None
                if isinstance(name, ast.Name) and name.id in func.params:
                    sites = [s for s in prog.callers.get(func.qualname, []) if s.caller in funcs]
                    for site in sites:
                        bound = Program.bind_args(func, site.node, skip_self=func.kind in ("instance", "class"))
                        fill = lambda expr: bound.get(expr.id, expr) if isinstance(expr, ast.Name) and expr.id in func.params else expr  # noqa: E731
                        special = copy.copy(node)
                        special.args = [fill(a) for a in node.args]
                        special.keywords = [ast.keyword(arg=k.arg, value=fill(k.value)) for k in node.keywords]
                        out.append((func, special))
                    if sites:
                        continue
                out.append((func, node))
    return out


def r17c(ctx: Context) -> None:
    prog = ctx.prog
    rule = ctx.rule("R17c", "configuration is read through typed getters; errors are raised only inside valid_value_fn", 45)
    base = prog.cls(RULE_PLUGIN)
    ext_base = prog.cls("pymarkdown.extension_manager.parser_extension.ParserExtension")
    subjects: List[Tuple[ClassInfo, str]] = []
    for cls in base.all_subclasses():
        if cls.module.rel.startswith("pymarkdown/plugins/"):
            subjects.append((cls, "initialize_from_config"))
    for cls in ext_base.all_subclasses():
        subjects.append((cls, "apply_configuration"))
    for cls, entry_name in sorted(subjects, key=lambda item: item[0].qualname):
        stop = base if base in cls.mro else ext_base
        closure = method_closure(prog, cls, [entry_name], stop_at=stop)
        if not closure:
            rule.ok(f"{cls.name}.{entry_name}", "no configuration")
            continue
        validators: Set[str] = set()
        for func, call in _getter_calls(prog, closure):
            for keyword in call.keywords:
                if keyword.arg == "valid_value_fn":
                    for target in prog._function_ref(func, keyword.value):
                        validators.add(target.qualname)
        raises = []
        for func in closure:
            if func.qualname in validators:
                continue
            for node in walk_local(func.node):
                if isinstance(node, ast.Raise):
                    raises.append((func, node))
        key = f"{cls.name}.{entry_name}: raises in lenient mode"
        if raises:
            if cls.name in C17_RAISE_EXCEPTIONS:
                rule.ok(key, f"named exception: {C17_RAISE_EXCEPTIONS[cls.name]}")
                continue
            func, node = raises[0]
            rule.fail(
                key, where(func, node),
                f"{cls.name}.{entry_name} raises {len(raises)} exception(s) directly ('{norm(node)[:70]}') instead of validating through valid_value_fn: "
                "an invalid value aborts the run even without --strict-config, where the documented behaviour is to fall back to the default",
            )
        else:
            rule.ok(key, f"{len(_getter_calls(prog, closure))} getter call(s), {len(validators)} validator(s)")


def code_config(prog: Program, cls: ClassInfo) -> Dict[str, Any]:
    """What the code of one rule says: ids, defaults, fix, configuration items."""
    details = cls.find_method("get_details")
    info: Dict[str, Any] = {"items": {}}
    if details is None:
        raise AnalysisError(f"{cls.name}.get_details missing")
    for ret in returns_of(details):
        if isinstance(ret, ast.Call):
            for keyword in ret.keywords:
                if isinstance(keyword.value, ast.Constant):
                    info[keyword.arg] = keyword.value.value
    base = prog.cls(RULE_PLUGIN)
    closure = method_closure(prog, cls, ["initialize_from_config"], stop_at=base)
    for func, call in _getter_calls(prog, closure):
        if not (call.args and isinstance(call.args[0], ast.Constant) and isinstance(call.args[0].value, str)):
            continue
        receiver = call.func.value
        if isinstance(receiver, ast.Name):  # a local that holds the configuration facade
            held = [n.value for n in walk_local(func.node) if isinstance(n, ast.Assign) and any(isinstance(t, ast.Name) and t.id == receiver.id for t in n.targets)]
            if len(held) == 1:
                receiver = held[0]
        if not norm(receiver).endswith("plugin_configuration"):
            continue
        kind = {"get_boolean_property": "boolean", "get_integer_property": "integer", "get_string_property": "string"}[call.func.attr]  # type: ignore[attr-defined]
        default_node = next((k.value for k in call.keywords if k.arg == "default_value"), None)
        default: Any = "<none>"
        if isinstance(default_node, ast.Constant):
            default = default_node.value
        elif isinstance(default_node, ast.Attribute) or isinstance(default_node, ast.Name):
            # class constant
            for klass in cls.mro:
                attr = default_node.attr if isinstance(default_node, ast.Attribute) else default_node.id
                for candidate in (attr, attr.lstrip("_")):
                    value = klass.class_attrs.get(attr) or klass.class_attrs.get("__" + candidate.lstrip("_"))
                    if isinstance(value, ast.Constant):
                        default = value.value
            if default == "<none>":
                default = "<expr>"
        elif default_node is not None:
            default = "<expr>"
        info["items"][call.args[0].value] = (kind, default, call, func)
    return info


def doc_config(text: str) -> Dict[str, Any]:
    info: Dict[str, Any] = {"items": {}, "prefixes": None}
    for table in md_tables(text):
        header = [strip_code(c).lower() for c in table["header"]]
        if header[:2] == ["property", "value"]:
            for row in table["rows"]:
                if len(row) >= 2:
                    info[row[0].strip().lower()] = row[1].strip()
        elif header[:1] == ["prefixes"]:
            info["prefixes"] = [strip_code(row[0]) for row in table["rows"] if row]
        elif header[:3] == ["value name", "type", "default"]:
            for row in table["rows"]:
                if len(row) >= 3:
                    info["items"][strip_code(row[0])] = (strip_code(row[1]).lower(), strip_code(row[2]), table["line"])
    return info


def _default_equal(kind: str, code_default: Any, doc_default: str) -> Optional[bool]:
    """True/False when comparable, None when the doc gives a prose default."""
    doc = doc_default.strip()
    if kind == "boolean":
        if doc.lower() in ("true", "false"):
            return (doc.lower() == "true") == bool(code_default) if isinstance(code_default, bool) else None
        return None
    if kind == "integer":
        if re.fullmatch(r"-?\d+", doc):
            return isinstance(code_default, int) and int(doc) == code_default
        return None
    if kind == "string":
        if code_default in ("<expr>",):
            return None
        if doc.lower() in ("none", "", "`none`"):
            return code_default in ("", None, "<none>")
        if doc.startswith('"') and doc.endswith('"'):
            doc = doc[1:-1]
        if isinstance(code_default, str):
            if doc == code_default:
                return True
            # prose such as (see below) / lists shown without quotes
            if " " in doc and "," not in doc and doc != code_default:
                return None
            return doc.replace("\\", "") == code_default.replace("\\", "")
        return None
    return None


def r17d(ctx: Context) -> None:
    prog = ctx.prog
    rule = ctx.rule("R17d", "each rule's documentation page agrees with its code (ids, defaults, items)", 200)
    base = prog.cls(RULE_PLUGIN)
    rules = [c for c in base.all_subclasses() if c.module.rel.startswith("pymarkdown/plugins/rule_")]
    pages = 0
    for cls in sorted(rules, key=lambda c: c.qualname):
        code = code_config(prog, cls)
        plugin_id = str(code.get("plugin_id", "")).lower()
        if not plugin_id:
            raise AnalysisError(f"{cls.name}: plugin_id not literal")
        doc_rel = f"newdocs/src/plugins/rule_{plugin_id}.md"
        if not prog.source.exists(doc_rel):
            rule.fail(f"{plugin_id}: page", cls.module.rel, f"rule {plugin_id} has no documentation page {doc_rel}")
            continue
        pages += 1
        doc = doc_config(prog.source.read(doc_rel))
        names = [n.strip().lower() for n in str(code.get("plugin_name", "")).split(",") if n.strip()]
        identifiers = [plugin_id] + names
        # aliases
        aliases = sorted(strip_code(a.strip()).lower() for a in doc.get("aliases", "").split(",") if a.strip())
        key = f"{plugin_id}: aliases"
        if aliases == sorted(identifiers):
            rule.ok(key, ", ".join(identifiers))
        else:
            rule.fail(key, doc_rel, f"documented aliases {aliases} differ from the identifiers the code registers {sorted(identifiers)}: a documented name does not address the rule")
        # enabled by default
        enabled_doc = doc.get("enabled by default", "").lower()
        enabled_code = bool(code.get("plugin_enabled_by_default"))
        key = f"{plugin_id}: enabled by default"
        if enabled_doc.startswith(("yes", "no")) and enabled_doc.startswith("yes") == enabled_code:
            rule.ok(key, str(enabled_code))
        else:
            rule.fail(key, doc_rel, f"documentation says enabled by default '{doc.get('enabled by default')}', the code says {enabled_code}")
        # prefixes
        if doc["prefixes"] is not None:
            expected = sorted(f"plugins.{ident}." for ident in identifiers)
            key = f"{plugin_id}: prefixes"
            if sorted(doc["prefixes"]) == expected:
                rule.ok(key, ", ".join(expected))
            else:
                rule.fail(key, doc_rel, f"documented configuration prefixes {sorted(doc['prefixes'])} differ from {expected}: settings written as documented are ignored")
        # items
        doc_items = dict(doc["items"])
        enabled_row = doc_items.pop("enabled", None)
        if enabled_row is not None:
            key = f"{plugin_id}: item enabled"
            if enabled_row[1].lower() in ("true", "false") and (enabled_row[1].lower() == "true") == enabled_code:
                rule.ok(key, enabled_row[1])
            else:
                rule.fail(key, doc_rel, f"the configuration table documents 'enabled' default {enabled_row[1]}, the rule is {'enabled' if enabled_code else 'disabled'} by default")
        code_items = code["items"]
        for name in sorted(set(doc_items) | set(code_items)):
            key = f"{plugin_id}: item {name}"
            if name not in code_items:
                rule.fail(key, doc_rel, f"documented configuration item '{name}' is never read by the rule (it reads {sorted(code_items)}): the documented key is ignored")
                continue
            if name not in doc_items:
                if doc["prefixes"] is None and not doc_items:
                    rule.fail(key, doc_rel, f"the rule reads configuration item '{name}' but its page documents no configuration")
                else:
                    rule.fail(key, doc_rel, f"the rule reads configuration item '{name}', which its page does not document")
                continue
            kind, default, call, func = code_items[name]
            doc_kind, doc_default, _ = doc_items[name]
            if doc_kind.split()[0] != kind:
                rule.fail(key, doc_rel, f"item '{name}' is documented as {doc_kind} but read with get_{kind}_property")
                continue
            verdict = _default_equal(kind, default, doc_default)
            if verdict is False:
                rule.fail(key, where(func, call), f"item '{name}': documented default '{doc_default}' differs from the default in the code ({default!r})")
            else:
                rule.ok(key, f"{kind}, default {default!r}" + ("" if verdict else " (documentation gives the default in prose)"))
    if pages < 40:
        raise AnalysisError(f"only {pages} rule pages matched")


def _evaluate_int_predicate(expr: ast.AST, name: str, value: int) -> Optional[bool]:
    """Evaluate a closed predicate over one integer parameter: comparisons with integer constants,
    ``in`` / ``not in`` range(...) or a literal collection, and/or/not.  None = not of that form."""
    def term(node: ast.AST) -> Optional[int]:
        if isinstance(node, ast.Name) and node.id == name:
            return value
        if isinstance(node, ast.Constant) and isinstance(node.value, int) and not isinstance(node.value, bool):
            return node.value
        if isinstance(node, ast.UnaryOp) and isinstance(node.op, ast.USub):
            inner = term(node.operand)
            return -inner if inner is not None else None
        return None

    def members(node: ast.AST) -> Optional[Set[int]]:
        if isinstance(node, ast.Call) and isinstance(node.func, ast.Name) and node.func.id == "range" and 1 <= len(node.args) <= 3:
            numbers = [term(a) for a in node.args]
            if any(n is None for n in numbers):
                return None
            return set(range(*numbers))  # type: ignore[arg-type]
        if isinstance(node, (ast.Tuple, ast.List, ast.Set)):
            numbers = [term(e) for e in node.elts]
            return None if any(n is None for n in numbers) else set(numbers)  # type: ignore[arg-type]
        return None

    if isinstance(expr, ast.BoolOp):
        parts = [_evaluate_int_predicate(v, name, value) for v in expr.values]
        if any(p is None for p in parts):
            return None
        return all(parts) if isinstance(expr.op, ast.And) else any(parts)
    if isinstance(expr, ast.UnaryOp) and isinstance(expr.op, ast.Not):
        inner = _evaluate_int_predicate(expr.operand, name, value)
        return None if inner is None else not inner
    if isinstance(expr, ast.Compare):
        operands = [expr.left] + list(expr.comparators)
        verdict = True
        for left, op, right in zip(operands, expr.ops, operands[1:]):
            if isinstance(op, (ast.In, ast.NotIn)):
                a, collection = term(left), members(right)
                if a is None or collection is None:
                    return None
                step = (a in collection) == isinstance(op, ast.In)
            else:
                a, b = term(left), term(right)
                if a is None or b is None:
                    return None
                step = {ast.Lt: a < b, ast.LtE: a <= b, ast.Gt: a > b, ast.GtE: a >= b, ast.Eq: a == b, ast.NotEq: a != b}.get(type(op))
                if step is None:
                    return None
            verdict = verdict and step
        return verdict
    return None


def _stated_range(message: str) -> Optional[Tuple[Optional[int], Optional[int]]]:
    """(lowest, highest) accepted integer that the validator's own message states."""
    import re as _re

    text = " ".join(message.split()).lower()
    found = _re.search(r"between (-?\d+) and (-?\d+)", text)
    if found:
        return int(found.group(1)), int(found.group(2))
    found = _re.search(r"greater than or equal to (-?\d+)", text)
    if found:
        return int(found.group(1)), None
    found = _re.search(r"greater than (-?\d+)", text)
    if found:
        return int(found.group(1)) + 1, None
    if "non-negative" in text:
        return 0, None
    return None


def r17f(ctx: Context) -> None:
    """'An invalid value falls back to the default' presupposes that the validator rejects exactly the
    values it says it rejects.  Contradiction rule: the integer range in the validator's own error
    message and the set of integers its condition accepts (decided by evaluating the closed
    predicate over a window of integers) must coincide."""
    prog = ctx.prog
    rule = ctx.rule("R17f", "integer validators accept exactly the range their own message states", 6)
    for func in prog.iter_functions("pymarkdown.plugins."):
        if len(func.params) != 2 or not func.name.lstrip("_").startswith("validate"):
            continue
        for node in walk_local(func.node):
            if not (isinstance(node, ast.Raise) and isinstance(node.exc, ast.Call) and node.exc.args):
                continue
            message_node = node.exc.args[0]
            message = message_node.value if isinstance(message_node, ast.Constant) and isinstance(message_node.value, str) else None
            stated = _stated_range(message) if message else None
            if stated is None:
                continue
            low, high = stated
            window = range((low if low is not None else 0) - 3, (high if high is not None else (low or 0) + 12) + 4)
            facts = guards_of(func.node, node)  # the conjunction under which the value is rejected (if-block or early-return form)
            verdicts: Dict[int, Optional[bool]] = {}
            for v in window:
                parts = [_evaluate_int_predicate(test, func.params[1], v) for test, _pol in facts]
                if not facts or any(p is None for p in parts):
                    verdicts[v] = None
                else:
                    verdicts[v] = all(p == pol for p, (_t, pol) in zip(parts, facts))
            condition_text = " and ".join(("" if pol else "not ") + norm(t) for t, pol in facts)
            key = f"{func.short}: stated range"
            if any(v is None for v in verdicts.values()):
                rule.note(f"{func.short}: condition '{condition_text[:60]}' is not a closed integer predicate; not compared with its message")
                continue
            wrong = sorted(v for v, rejected in verdicts.items() if rejected == ((low is None or v >= low) and (high is None or v <= high)))
            if wrong:
                rule.fail(key, where(func, node), f"the validator says '{message}' but it rejects a value when '{condition_text}', which treats {wrong[:6]} the other way round: a documented valid value is replaced by the default (or stops the run in strict mode), or an invalid one is accepted")
            else:
                rule.ok(key, f"rejects exactly the integers outside [{low}, {high if high is not None else 'inf'}]")


def r17g(ctx: Context) -> None:
    """'Strict mode on: the run stops with a configuration error.'  The error reaches main as an exception of the
    initialisation phase; the handler hands it to the error reporter, which ends the process unless it is told
    not to.  From inside an exception handler it must never be told not to - whatever the other options say."""
    prog = ctx.prog
    rule = ctx.rule("R17g", "an exception caught by main always ends the run (the error reporter is never told to carry on from a handler)", 6)
    main_cls = prog.cls(MAIN)
    reporter = prog.method(MAIN, "__handle_error")
    exits = [s for s in prog.sites_in(reporter) if any(t.name == "exit_application" for t in s.targets)]
    if len(exits) != 1:
        raise AnalysisError("__handle_error no longer ends the process in exactly one place")
    flags = [test.id for test, pol in guards_of(reporter.node, exits[0].node, include_asserts=False) if pol and isinstance(test, ast.Name) and test.id in reporter.params]
    others = [norm(test) for test, pol in guards_of(reporter.node, exits[0].node, include_asserts=False) if not (pol and isinstance(test, ast.Name) and test.id in reporter.params)]
    if len(flags) != 1 or others:
        rule.fail(func_key(reporter), where(reporter, exits[0].node), f"the error reporter ends the process under {flags + others}: a reported error does not reliably stop the run")
        return
    flag = flags[0]
    default = None
    positional = reporter.node.args.args
    defaults = reporter.node.args.defaults
    for arg, value in zip(positional[len(positional) - len(defaults):], defaults):
        if arg.arg == flag:
            default = value
    for method in main_cls.methods.values():
        for site in prog.sites_in(method):
            if reporter not in site.targets:
                continue
            in_handler = any(isinstance(h, ast.ExceptHandler) and any(sub is site.node for sub in ast.walk(h)) for h in walk_local(method.node))
            if not in_handler:
                continue
            bound = Program.bind_args(reporter, site.node, skip_self=True)
            value = bound.get(flag, default)
            key = func_key(method, site.node)
            if isinstance(value, ast.Constant) and value.value is True:
                rule.ok(key, "the caught error ends the run")
            else:
                rule.fail(key, site.where, f"{method.short} reports a caught exception with {flag}={norm(value) if value is not None else 'nothing'}: the run carries on after the error (a strict-mode configuration error, a plugin that cannot be initialised) with whatever was set up before it")


def _display_of(func: FuncInfo, expr: ast.AST) -> ast.AST:
    """a literal display, or the display a local was bound to (once)"""
    if isinstance(expr, ast.Name):
        values = [n.value for n in walk_local(func.node) if isinstance(n, (ast.Assign, ast.AnnAssign)) and getattr(n, "value", None) is not None
                  and any(isinstance(t, ast.Name) and t.id == expr.id for t in (n.targets if isinstance(n, ast.Assign) else [n.target]))]
        if len(values) == 1:
            return values[0]
    return expr


class _LoopView:
    def __init__(self, target: ast.AST, iterable: ast.AST):
        self.target, self.iter = target, iterable


def _with_iter(node: ast.AST, iterable: ast.AST) -> "_LoopView":
    return _LoopView(node.target, iterable)  # type: ignore[attr-defined]


def _block_of(func: FuncInfo, node: ast.AST) -> Tuple[Optional[List[ast.stmt]], int]:
    """(innermost statement list holding ``node``, index of the statement that holds it)"""
    best: Tuple[Optional[List[ast.stmt]], int] = (None, -1)
    for holder in ast.walk(func.node):
        for field in ("body", "orelse", "finalbody"):
            block = getattr(holder, field, None)
            if isinstance(block, list):
                for index, stmt in enumerate(block):
                    if isinstance(stmt, ast.stmt) and any(sub is node for sub in ast.walk(stmt)):
                        best = (block, index)  # later hits are deeper: ast.walk is breadth first
    return best


def _string_tails(prog: Program, func: FuncInfo, expr: ast.AST, depth: int = 0, at: Optional[ast.AST] = None, env: Optional[Dict[str, ast.AST]] = None) -> Set[str]:
    """the constant texts ``expr`` can end in: literals, concatenations, f-strings, os.path.abspath / join, locals
    (the binding just before the use when it sits in the same block, else every binding), loop variables over
    literal displays, conditional expressions"""
    if depth > 8:
        return set()
    at = at if at is not None else expr
    if isinstance(expr, ast.Constant) and isinstance(expr.value, str):
        return {expr.value}
    if isinstance(expr, ast.BinOp) and isinstance(expr.op, ast.Add):
        rights = _string_tails(prog, func, expr.right, depth + 1, at=at, env=env)
        lefts = _string_tails(prog, func, expr.left, depth + 1, at=at, env=env) or {""}
        return {left + right for left in lefts for right in rights}
    if isinstance(expr, ast.JoinedStr):
        tails = {""}
        for part in expr.values:
            piece = _string_tails(prog, func, part.value if isinstance(part, ast.FormattedValue) else part, depth + 1, at=at, env=env) or {""}
            tails = {a + b for a in tails for b in piece}
        return tails
    if isinstance(expr, ast.IfExp):
        return _string_tails(prog, func, expr.body, depth + 1, at=at, env=env) | _string_tails(prog, func, expr.orelse, depth + 1, at=at, env=env)
    if isinstance(expr, ast.Call):
        name = dotted(expr.func) or ""
        if name.endswith(("abspath", "normpath", "realpath", "expanduser", "str")) and expr.args:
            return _string_tails(prog, func, expr.args[0], depth + 1, at=at, env=env)
        if name.endswith("path.join") and expr.args:
            return _string_tails(prog, func, expr.args[-1], depth + 1, at=at, env=env)
        return set()
    if isinstance(expr, ast.Name):
        found: Set[str] = set()
        if env and expr.id in env:
            return _string_tails(prog, func, env[expr.id], depth + 1, at=at)
        block, index = _block_of(func, at)
        if block is not None:
            for stmt in reversed(block[:index]):
                if isinstance(stmt, (ast.Assign, ast.AnnAssign)) and getattr(stmt, "value", None) is not None \
                        and any(isinstance(t, ast.Name) and t.id == expr.id for t in (stmt.targets if isinstance(stmt, ast.Assign) else [stmt.target])):
                    return _string_tails(prog, func, stmt.value, depth + 1, at=stmt, env=env)
        for node in walk_local(func.node):
            if isinstance(node, (ast.Assign, ast.AnnAssign)) and getattr(node, "value", None) is not None:
                if any(isinstance(t, ast.Name) and t.id == expr.id for t in (node.targets if isinstance(node, ast.Assign) else [node.target])):
                    found |= _string_tails(prog, func, node.value, depth + 1, at=node, env=env)
            elif isinstance(node, (ast.For, ast.comprehension)) and isinstance(_display_of(func, node.iter), (ast.Tuple, ast.List)):
                node = _with_iter(node, _display_of(func, node.iter))
                if isinstance(node.target, ast.Name) and node.target.id == expr.id:
                    for element in node.iter.elts:
                        found |= _string_tails(prog, func, element, depth + 1)
                elif isinstance(node.target, ast.Tuple):
                    for index, target in enumerate(node.target.elts):
                        if isinstance(target, ast.Name) and target.id == expr.id:
                            for element in node.iter.elts:
                                if isinstance(element, (ast.Tuple, ast.List)) and index < len(element.elts):
                                    found |= _string_tails(prog, func, element.elts[index], depth + 1)
        return found
    return set()


def r17h(ctx: Context) -> None:
    """'... then the default configuration file ...': the default configuration file has the names the documentation
    gives it.  Every documented name must be the file name of some call that loads a configuration layer, in the
    format its extension says."""
    prog = ctx.prog
    rule = ctx.rule("R17h", "every documented name of the default configuration file is loaded, in the documented format", 3)
    import re as _re

    doc = prog.source.read("newdocs/src/advanced_configuration.md")
    documented = sorted(set(_re.findall(r"`(\.pymarkdown(?:\.[a-z]+)?)`", doc)))
    if len(documented) < 2:
        raise AnalysisError(f"advanced_configuration.md: the names of the default configuration file were not found ({documented})")
    loads: List[Tuple[FuncInfo, ast.Call, Set[str], str]] = []  # (function, call, file-name tails, loader class)
    for func in prog.cls(ACH).methods.values():
        for call in [n for n in walk_local(func.node) if isinstance(n, ast.Call) and isinstance(n.func, ast.Attribute) and n.func.attr == "load_and_set" and len(n.args) >= 2]:
            receiver = call.func.value
            rows: List[Tuple[Dict[str, ast.AST], str]] = []
            if isinstance(receiver, ast.Name):
                # the loader comes out of a table that a loop walks: one load per row, file name and loader from the same row
                for loop in [n for n in walk_local(func.node) if isinstance(n, ast.For) and any(sub is call for sub in ast.walk(n))]:
                    table = _display_of(func, loop.iter)
                    if isinstance(loop.target, ast.Tuple) and isinstance(table, (ast.Tuple, ast.List)):
                        names = [t.id if isinstance(t, ast.Name) else None for t in loop.target.elts]
                        if receiver.id in names:
                            for row in table.elts:
                                if isinstance(row, (ast.Tuple, ast.List)) and len(row.elts) == len(names):
                                    env = {n: e for n, e in zip(names, row.elts) if n}
                                    rows.append((env, norm(env[receiver.id])))
            if rows:
                for env, loader in rows:
                    loads.append((func, call, _string_tails(prog, func, call.args[1], at=call, env=env), loader))
            else:
                loads.append((func, call, _string_tails(prog, func, call.args[1], at=call), norm(receiver)))
    if len(loads) < 3:
        raise AnalysisError(f"only {len(loads)} configuration loads found in the configuration helper")
    for name in documented:
        key = f"default configuration file {name}"
        loaders = [(func, call, loader) for func, call, tails, loader in loads if any(tail == name or tail.endswith("/" + name) for tail in tails)]
        if not loaders:
            rule.fail(key, "pymarkdown/application_configuration_helper.py", f"the documentation names '{name}' as a default configuration file, but no configuration layer is loaded from a file of that name: settings a user keeps there are silently ignored")
            continue
        wanted = "Yaml" if name.endswith((".yaml", ".yml")) else "Json"
        formats = {loader.split(".")[-1] for _func, _call, loader in loaders}
        if any(wanted in fmt for fmt in formats):
            rule.ok(key, f"loaded through {sorted(formats)}")
        else:
            rule.fail(key, where(loaders[0][0], loaders[0][1]), f"'{name}' is loaded through {sorted(formats)}, not as {wanted.upper()}")


def r17i(ctx: Context) -> None:
    """'An invalid value falls back to the default (lenient) or stops the run (strict)': a value is valid when it is
    one of the documented ones.  A validator that looks a *normalised* copy of the value up in the collection of
    allowed values (lower-cased, stripped) accepts values the collection does not hold, while the rule keeps and
    compares the value as written: 'Dash' passes validation and then matches no style."""
    prog = ctx.prog
    rule = ctx.rule("R17i", "validators look the value itself up in the collection of allowed values", 2)
    base = prog.cls(RULE_PLUGIN)
    checked = 0
    for cls in sorted(base.all_subclasses(), key=lambda c: c.qualname):
        if not cls.module.rel.startswith("pymarkdown/plugins/"):
            continue
        entry = cls.methods.get("initialize_from_config")
        if entry is None:
            continue
        validators: List[FuncInfo] = []
        for func, call in _getter_calls(prog, method_closure(prog, cls, ["initialize_from_config"], stop_at=base)):
            for keyword in call.keywords:
                if keyword.arg == "valid_value_fn":
                    validators.extend(prog._function_ref(func, keyword.value))
        for validator in validators:
            value_params = [p for p in validator.params if p not in ("self", "cls")]
            if not value_params:
                continue
            value = value_params[0]
            for node in walk_local(validator.node):
                if not (isinstance(node, ast.Compare) and len(node.ops) == 1 and isinstance(node.ops[0], (ast.In, ast.NotIn))):
                    continue
                if not any(isinstance(sub, ast.Name) and sub.id == value for sub in ast.walk(node.left)):
                    continue
                checked += 1
                key = func_key(validator, node)
                if isinstance(node.left, ast.Name):
                    rule.ok(key, "the value as written")
                else:
                    rule.fail(key, where(validator, node), f"{validator.short} looks '{norm(node.left)}' up in the allowed values, not the value as written: values that differ from an allowed one in case or padding pass validation (no fallback to the default, no strict-mode error) and then match nothing where the rule compares the stored value")
    if checked < 2:
        raise AnalysisError(f"only {checked} membership validators found (6 confirmed)")


def validated_items(prog: Program) -> Dict[str, Set[str]]:
    """rule class -> configuration items read with a validator (valid_value_fn given and not None)"""
    base = prog.cls(RULE_PLUGIN)
    table: Dict[str, Set[str]] = {}
    for cls in base.all_subclasses():
        if not cls.module.rel.startswith("pymarkdown/plugins/") or cls.methods.get("initialize_from_config") is None:
            continue
        items = table.setdefault(cls.name, set())
        for _func, call in _getter_calls(prog, method_closure(prog, cls, ["initialize_from_config"], stop_at=base)):
            name = call.args[0] if call.args else None
            validator = next((k.value for k in call.keywords if k.arg == "valid_value_fn"), None)
            if isinstance(name, ast.Constant) and isinstance(name.value, str) and validator is not None and not (isinstance(validator, ast.Constant) and validator.value is None):
                items.add(name.value)
    return table


def r17j(ctx: Context) -> None:
    """'An invalid value falls back to the default unless strict mode is on, in which case the run stops': that is what
    the validator of an item brings about.  An item that is read with a validator on the pinned tree and without one
    now takes whatever the configuration says - out of range, wrongly spelled - in both modes."""
    import json

    prog = ctx.prog
    rule = ctx.rule("R17j", "every configuration item that the pinned tree validates is still read with a validator", 20)
    path = os.path.join(os.path.dirname(os.path.dirname(os.path.abspath(__file__))), "baseline", "validated_items.json")
    if not os.path.exists(path):
        raise AnalysisError("sa/baseline/validated_items.json is missing (tools/gen_validated_baseline.py)")
    with open(path, encoding="utf-8") as handle:
        pinned = json.load(handle)
    now = validated_items(prog)
    base = prog.cls(RULE_PLUGIN)
    read_now: Dict[str, Set[str]] = {}
    for cls in base.all_subclasses():
        if cls.name in pinned and cls.methods.get("initialize_from_config") is not None:
            read_now[cls.name] = {call.args[0].value for _f, call in _getter_calls(prog, method_closure(prog, cls, ["initialize_from_config"], stop_at=base))
                                  if call.args and isinstance(call.args[0], ast.Constant) and isinstance(call.args[0].value, str)}
    for cls_name, items in sorted(pinned.items()):
        for item in items:
            key = f"{cls_name}: {item}"
            if cls_name not in read_now or item not in read_now[cls_name]:
                rule.ok(key, "the item is no longer read under this name (documentation agreement: R17d)")
            elif item in now.get(cls_name, set()):
                rule.ok(key, "validated")
            else:
                cls = next(c for c in base.all_subclasses() if c.name == cls_name)
                rule.fail(key, where(cls.methods["initialize_from_config"]), f"'{item}' of {cls_name} was read with a validator on the pinned tree and is read without one now: a value outside what the rule documents is used as it is (no fall-back to the default) and strict mode no longer stops the run")


def run(ctx: Context) -> None:
    r17a(ctx)
    r17b(ctx)
    r17c(ctx)
    r17d(ctx)
    r17f(ctx)
    r17g(ctx)
    r17h(ctx)
    r17i(ctx)
    r17j(ctx)
    from sa.rules import c18

    c18.config_read_after_load(ctx, "R17e")
