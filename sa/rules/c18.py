"""C18 — exit codes follow the documented table in both schemes."""

from __future__ import annotations

import ast
from typing import Dict, List, Optional, Set, Tuple

from sa.cfg import CFG
from sa.model import AnalysisError, CallSite, ClassInfo, FuncInfo, Program, dotted, norm, walk_local
from sa.report import Context
from sa.rules import common
from sa.util import (
    enum_member,
    func_key,
    guards_of,
    md_tables,
    reaching_values,
    returns_of,
    site_for,
    strip_code,
    where,
)

EXPLANATION = (
    "Decides, from /repo's current source: R18a the two scheme tables have exactly the ApplicationResult members "
    "as keys, equal the table in the property statement (0; 1/0; 2/2; 3/0; 1/0; 1/1) and the table in "
    "newdocs/src/user-guide.md, and the scheme name is chosen argument-before-configuration-before-default; "
    "R18b the process is left only through ReturnCodeHelper.exit_application, whose exit value derives from the "
    "scheme mapping of its parameter, and every call site passes values whose reaching definitions are "
    "ApplicationResult constants; R18c the end-of-run chain tests failed before fixed before triggered "
    "(path enumeration of the chain function); R18d the per-file success status is never dropped on the way to "
    "that chain; R18e every exit taken inside an error reporter passes SYSTEM_ERROR and help-printing exits pass "
    "COMMAND_LINE_ERROR; R18f (=R19d) the list-files branch consults the discovery error flag; R18g nothing reads the configuration (scheme, plugins, extensions, logging) before all layers are applied; R18h a per-file function that reported an error returns the failure status. "
    "R18k (=R16i) the 'system error' row for a document that is not valid UTF-8: every text-mode open of document content decodes strictly. "
    "Not decided: argparse's own exits (2 on bad arguments, 0 on --help) are library behaviour; which category "
    "a given run produces at run time."
)
ASSUMPTIONS = [
    "argparse exits with 2 on invalid arguments and 0 on --help (library behaviour, outside the repo)",
    "sys.exit is not monkey-patched; SystemExit is not caught inside pymarkdown except in api.py (checked under C16)",
]

RCH = "pymarkdown.return_code_helper.ReturnCodeHelper"
MAIN = "pymarkdown.main.PyMarkdownLint"
ENUM = "pymarkdown.return_code_helper.ApplicationResult"
SPEC = {  # from the property statement: category -> (default, minimal)
    "SUCCESS": (0, 0),
    "NO_FILES_TO_SCAN": (1, 0),
    "COMMAND_LINE_ERROR": (2, 2),
    "FIXED_AT_LEAST_ONE_FILE": (3, 0),
    "SCAN_TRIGGERED_AT_LEAST_ONCE": (1, 0),
    "SYSTEM_ERROR": (1, 1),
}


def enum_members(prog: Program) -> List[str]:
    cls = prog.cls(ENUM)
    return [name for name in cls.class_attrs if not name.startswith("_")]


def scheme_registry(prog: Program) -> Optional[Tuple[str, ast.Dict]]:
    """(name, dict display) of the registry of schemes: a constant of the helper class or of its module whose values are
    all constructor calls"""
    helper = prog.cls(RCH)
    candidates: List[Tuple[str, ast.AST]] = list(helper.class_attrs.items())
    for stmt in helper.module.tree.body:
        if isinstance(stmt, (ast.Assign, ast.AnnAssign)) and getattr(stmt, "value", None) is not None:
            for target in (stmt.targets if isinstance(stmt, ast.Assign) else [stmt.target]):
                if isinstance(target, ast.Name):
                    candidates.append((target.id, stmt.value))
    for name, value in candidates:
        if isinstance(value, ast.Dict) and value.values and all(isinstance(v, ast.Call) and (dotted(v.func) or "") in helper.module.classes for v in value.values):
            return name, value
    return None


def scheme_tables(prog: Program) -> Dict[str, Tuple[FuncInfo, Dict[str, int]]]:
    """scheme name -> (mapping function, {member: code}) resolved through __available_schemes."""
    helper = prog.cls(RCH)
    consts = {name: value.value for name, value in helper.class_attrs.items() if isinstance(value, ast.Constant)}
    found = scheme_registry(prog)
    if found is None:
        raise AnalysisError("ReturnCodeHelper: scheme registry dict not found")
    table_expr = found[1]
    out: Dict[str, Tuple[FuncInfo, Dict[str, int]]] = {}
    for key, value in zip(table_expr.keys, table_expr.values):
        if isinstance(key, ast.Constant):
            scheme_name = key.value
        elif isinstance(key, ast.Name) and key.id in consts:
            scheme_name = consts[key.id]
        else:
            raise AnalysisError(f"scheme registry key not constant: {norm(key)}")
        cls_name = dotted(value.func)
        scheme_cls = helper.module.classes.get(cls_name or "")
        if scheme_cls is None:
            raise AnalysisError(f"scheme class not found: {cls_name}")
        mapping_fn = scheme_cls.find_method("get_scheme_mapping")
        if mapping_fn is None:
            raise AnalysisError(f"{cls_name}.get_scheme_mapping missing")
        rets = returns_of(mapping_fn)
        if len(rets) == 1 and isinstance(rets[0], ast.Attribute):  # a class-level constant table
            owner_cls = scheme_cls
            attr = rets[0].attr
            if attr.startswith("_") and "__" in attr[1:] and not attr.startswith("__"):
                attr = attr[attr.index("__", 1):]
            constant = next((klass.class_attrs[attr] for klass in owner_cls.mro if attr in klass.class_attrs), None)
            if isinstance(constant, ast.Dict):
                rets = [constant]
        elif len(rets) == 1 and isinstance(rets[0], ast.Name):  # a local holding the literal
            values = [n.value for n in walk_local(mapping_fn.node) if isinstance(n, (ast.Assign, ast.AnnAssign)) and getattr(n, "value", None) is not None
                      and any(isinstance(t, ast.Name) and t.id == rets[0].id for t in (n.targets if isinstance(n, ast.Assign) else [n.target]))]
            if len(values) == 1 and isinstance(values[0], ast.Dict):
                rets = [values[0]]
        if len(rets) != 1 or not isinstance(rets[0], ast.Dict):
            raise AnalysisError(f"{cls_name}.get_scheme_mapping does not return one dict literal")
        mapping: Dict[str, int] = {}
        for m_key, m_value in zip(rets[0].keys, rets[0].values):
            member = enum_member(m_key, "ApplicationResult") if m_key is not None else None
            if member is None or not isinstance(m_value, ast.Constant) or not isinstance(m_value.value, int):
                raise AnalysisError(f"{cls_name}.get_scheme_mapping: non-literal entry {norm(m_key) if m_key else '**'}")
            if member in mapping:
                mapping[member + "#dup"] = m_value.value
            mapping[member] = m_value.value
        out[str(scheme_name)] = (mapping_fn, mapping)
    return out


def r18a(ctx: Context) -> None:
    prog = ctx.prog
    rule = ctx.rule("R18a", "scheme tables = ApplicationResult members = property table = user-guide table", 14)
    members = enum_members(prog)
    tables = scheme_tables(prog)
    for needed in ("default", "minimal"):
        if needed not in tables:
            rule.fail(f"scheme registry: {needed}", "pymarkdown/return_code_helper.py", f"scheme '{needed}' is not registered")
    doc_rows: Dict[str, Tuple[str, str]] = {}
    doc_rel = "newdocs/src/user-guide.md"
    for table in md_tables(prog.source.read(doc_rel)):
        header = [strip_code(cell).lower() for cell in table["header"]]
        if header[:3] == ["category", "default", "minimal"]:
            for row in table["rows"]:
                if len(row) >= 3:
                    doc_rows[strip_code(row[0])] = (row[1].strip(), row[2].strip())
    if not doc_rows:
        raise AnalysisError(f"{doc_rel}: return-code table (Category | default | minimal) not found")
    for index, scheme in enumerate(("default", "minimal")):
        if scheme not in tables:
            continue
        func, mapping = tables[scheme]
        keys = {k for k in mapping if not k.endswith("#dup")}
        if keys != set(members) or any(k.endswith("#dup") for k in mapping):
            rule.fail(
                func_key(func) + ": keys",
                where(func),
                f"scheme '{scheme}' keys {sorted(keys)} differ from ApplicationResult members {sorted(members)}",
            )
        else:
            rule.ok(func_key(func) + ": keys", f"{len(keys)} members")
        for member in members:
            code = mapping.get(member)
            spec = SPEC.get(member)
            if spec is None:
                rule.fail(f"ApplicationResult.{member}", "pymarkdown/return_code_helper.py", f"category {member} is not in the property's table")
                continue
            doc = doc_rows.get(member)
            problems = []
            if code != spec[index]:
                problems.append(f"property table says {spec[index]}")
            if doc is None:
                problems.append("user-guide table has no such row")
            elif doc[index] != str(code):
                problems.append(f"user-guide table says {doc[index]}")
            if problems:
                rule.fail(f"{func.short}: {member}", where(func), f"scheme '{scheme}' maps {member} to {code}; " + "; ".join(problems))
            else:
                rule.ok(f"{func.short}: {member}", f"{member} -> {code}")
    # scheme selection: argument, then configuration, then default
    setter = prog.method(RCH, "set_initial_state")
    from sa.util import decision_chain_problems

    stored = None
    for node in walk_local(setter.node):
        if isinstance(node, ast.Assign) and any(isinstance(t, ast.Attribute) and t.attr == "value" for t in node.targets):
            stored = node
    if stored is None:
        rule.fail(func_key(setter) + ": store", where(setter), "set_initial_state no longer stores the chosen scheme name")
        return
    chooser, pick = setter, (lambda stmt: stmt.value if stmt is stored else None)
    if isinstance(stored.value, ast.Call):
        site = site_for(prog, setter, stored.value)
        if site and len(site.targets) == 1 and site.targets[0].cls == setter.cls:
            chooser, pick = site.targets[0], None  # the name is chosen by a helper: its returned value
    namespace_params = {a.arg for a in chooser.node.args.args if a.annotation is not None and "Namespace" in ast.unparse(a.annotation)}  # type: ignore[attr-defined]
    registry_default = {name for name, value in prog.cls(RCH).class_attrs.items() if isinstance(value, ast.Constant) and isinstance(value.value, str) and value.value in scheme_tables(prog)}

    def layer_of(expr: ast.AST) -> Optional[str]:
        if isinstance(expr, ast.Attribute) and isinstance(expr.value, ast.Name) and expr.value.id in namespace_params:
            return "argument"
        if isinstance(expr, ast.Call) and isinstance(expr.func, ast.Attribute) and expr.func.attr == "get_string_property":
            return "configuration"
        if isinstance(expr, ast.Attribute) and expr.attr in registry_default:
            return "default"
        if isinstance(expr, ast.Constant) and isinstance(expr.value, str) and expr.value in scheme_tables(prog):
            return "default"
        return None

    chain_problems, deciding = decision_chain_problems(chooser, layer_of, ["argument", "configuration", "default"], pick)
    if deciding == 0:
        raise AnalysisError(f"{chooser.short}: no path chooses a scheme name")
    if chain_problems:
        rule.fail(func_key(chooser) + ": order", where(chooser), "scheme selection: " + chain_problems[0] + (f" (+{len(chain_problems) - 1} more)" if len(chain_problems) > 1 else ""))
    else:
        rule.ok(func_key(chooser) + ": order", f"{deciding} path(s): argument, then configuration, then the default scheme")
    # the configuration layer: an invalid scheme name in a configuration is a configuration error (the property read is
    # strict and validated against the registry), not a silent fall-back to the default scheme and not a late KeyError
    scheme_reads = [(f, n) for f in [prog.functions[q] for q in prog.reachable([setter]) if prog.functions[q].cls == setter.cls] + [setter]
                    for n in walk_local(f.node) if isinstance(n, ast.Call) and isinstance(n.func, ast.Attribute) and n.func.attr == "get_string_property"]
    seen_reads: Set[int] = set()
    for holder, read in scheme_reads:
        if id(read) in seen_reads:
            continue
        seen_reads.add(id(read))
        rkey = func_key(holder, read) + " [strict, validated]"
        strict = next((k.value for k in read.keywords if k.arg == "strict_mode"), None)
        validator = next((k.value for k in read.keywords if k.arg == "valid_value_fn"), None)
        problems = []
        if not (isinstance(strict, ast.Constant) and strict.value is True):
            problems.append("is not strict (an invalid name in a configuration file or --set is ignored silently and the run ends with the default scheme's codes)")
        if validator is None or (isinstance(validator, ast.Constant) and validator.value is None):
            problems.append("has no validator (a name that is not a scheme is stored and fails as a KeyError at the very end of the run, after files were fixed)")
        if problems:
            rule.fail(rkey, where(holder, read), "the read of the configured scheme name " + " and ".join(problems))
        else:
            rule.ok(rkey, "strict_mode=True, validated against the registry")
    # the argument layer must be able to be silent: no default on the argparse option
    adder = prog.method(RCH, "add_command_line_arguments")
    for node in walk_local(adder.node):
        if isinstance(node, ast.Call) and isinstance(node.func, ast.Attribute) and node.func.attr == "add_argument":
            dest = next((k.value for k in node.keywords if k.arg == "dest"), None)
            if isinstance(dest, ast.Constant) and dest.value == "return_code_scheme":
                default = next((k.value for k in node.keywords if k.arg == "default"), None)
                akey = func_key(adder) + ": argument default"
                if default is None or (isinstance(default, ast.Constant) and default.value is None):
                    rule.ok(akey, "no default: an absent --return-code-scheme leaves the decision to the configuration")
                else:
                    rule.fail(akey, where(adder, node), f"--return-code-scheme is registered with default={norm(default)}: the argument is never None, so the scheme set by configuration is ignored")


EXIT_EXTERNALS = {"sys.exit", "os._exit", "builtins.exit", "builtins.quit", "os.abort", "os.kill"}


def exit_sites(prog: Program) -> List[Tuple[FuncInfo, ast.AST]]:
    out: List[Tuple[FuncInfo, ast.AST]] = []
    for func in prog.iter_functions():
        for site in prog.sites_in(func):
            if site.external in EXIT_EXTERNALS:
                out.append((func, site.node))
        for node in walk_local(func.node):
            if isinstance(node, ast.Raise) and node.exc is not None:
                name = dotted(node.exc.func) if isinstance(node.exc, ast.Call) else dotted(node.exc)
                if name in ("SystemExit", "KeyboardInterrupt"):
                    out.append((func, node))
    return out


def r18b(ctx: Context) -> None:
    prog = ctx.prog
    rule = ctx.rule("R18b", "process exits only through exit_application, with ApplicationResult constants", 9)
    owner = prog.method(RCH, "exit_application")
    sites = exit_sites(prog)
    owner_sites = [s for s in sites if s[0] == owner]
    if not owner_sites:
        raise AnalysisError("exit_application no longer contains the process exit (anchor moved)")
    for func, node in sites:
        if func == owner:
            rule.ok(func_key(func, node), "the one process exit")
        else:
            rule.fail(func_key(func, node), where(func, node), "process exit outside ReturnCodeHelper.exit_application bypasses the scheme table")
    # the value given to sys.exit is <scheme>.apply_scheme(<the parameter>), and apply_scheme looks its own
    # parameter up in the scheme's mapping
    param = owner.params[0] if owner.params else None
    applier = prog.method("pymarkdown.return_code_helper.SchemeDefinition", "apply_scheme")
    def applied(func: FuncInfo, expr: ast.AST, name: Optional[str], depth: int = 0) -> bool:
        """``expr`` (in ``func``) is <scheme>.apply_scheme(<name>), directly, through a local or through a helper
        of the same class that is handed ``name``"""
        if name is None or depth > 4:
            return False
        if isinstance(expr, ast.Name):
            values = [n.value for n in walk_local(func.node) if isinstance(n, (ast.Assign, ast.AnnAssign)) and n.value is not None and any(isinstance(t, ast.Name) and t.id == expr.id for t in (n.targets if isinstance(n, ast.Assign) else [n.target]))]
            return bool(values) and all(applied(func, v, name, depth + 1) for v in values)
        if not isinstance(expr, ast.Call):
            return False
        site = site_for(prog, func, expr)
        if site is None:
            return False
        handed = [i for i, a in enumerate(expr.args) if isinstance(a, ast.Name) and a.id == name]
        handed_kw = [k.arg for k in expr.keywords if isinstance(k.value, ast.Name) and k.value.id == name]
        if applier in site.targets:
            return bool(handed or handed_kw)
        if len(site.targets) == 1 and site.targets[0].cls == owner.cls and (handed or handed_kw):
            helper = site.targets[0]
            offset = 1 if helper.params and helper.params[0] in ("self", "cls") else 0
            inner = handed_kw[0] if handed_kw else helper.params[handed[0] + offset] if handed[0] + offset < len(helper.params) else None
            rets = returns_of(helper)
            return bool(rets) and all(applied(helper, r, inner, depth + 1) for r in rets)
        return False

    for func, node in owner_sites:
        if not (isinstance(node, ast.Call) and node.args):
            continue
        good = applied(owner, node.args[0], param)
        if good:
            rule.ok(func_key(owner) + ": mapping", "exit value = scheme.apply_scheme(application_result)")
        else:
            rule.fail(func_key(owner) + ": mapping", where(owner, node), f"the exit value is not the chosen scheme's apply_scheme applied to '{param}'")
    rets = returns_of(applier)
    lookup_ok = False
    applier_param = applier.params[1] if len(applier.params) > 1 else None
    for ret in rets:
        if isinstance(ret, ast.Subscript) and isinstance(ret.slice, ast.Name) and ret.slice.id == applier_param:
            table = ret.value
            sources = [table]
            if isinstance(table, ast.Name):
                sources = [n.value for n in walk_local(applier.node) if isinstance(n, ast.Assign) and any(isinstance(t, ast.Name) and t.id == table.id for t in n.targets)]
            if any(isinstance(src, ast.Call) and norm(src.func).endswith("get_scheme_mapping") for src in sources):
                lookup_ok = True
    if lookup_ok:
        rule.ok(func_key(applier), "return get_scheme_mapping()[application_result]")
    else:
        rule.fail(func_key(applier), where(applier), "apply_scheme does not return the mapping's entry for its argument (a default or a different key breaks the documented table)")
    # the scheme object comes from the registry entry of the chosen name, with the default name as fallback
    registry = scheme_registry(prog)
    registry_attrs = {registry[0]} if registry else set()
    lookers = [prog.functions[q] for q in prog.reachable([owner]) if prog.functions[q].cls == owner.cls]
    picks = [n for f in lookers for n in walk_local(f.node) if isinstance(n, ast.Subscript)
             and (isinstance(n.value, ast.Attribute) and n.value.attr in registry_attrs or isinstance(n.value, ast.Name) and n.value.id in registry_attrs)]
    if picks:
        rule.ok(func_key(owner) + ": scheme lookup", f"registry[{norm(picks[0].slice)}]")
    else:
        rule.fail(func_key(owner) + ": scheme lookup", where(owner), "exit_application does not take the scheme from the registry of available schemes")
    members = set(enum_members(prog))
    callers = prog.callers.get(owner.qualname, [])
    for site in callers:
        if not site.node.args:
            rule.fail(func_key(site.caller, site.node), site.where, "exit_application called without a category")
            continue
        values = reaching_values(prog, site.caller, site.node.args[0])
        cats: Set[str] = set()
        bad: List[str] = []
        for value in values:
            member = enum_member(value, "ApplicationResult")
            if member in members:
                cats.add(member)
            else:
                bad.append(norm(value))
        key = func_key(site.caller, site.node)
        if bad:
            rule.fail(key, site.where, f"exit category is not an ApplicationResult constant on every path: {bad}")
        else:
            rule.ok(key, f"categories {sorted(cats)}")


def chain_roles(prog: Program) -> Tuple[FuncInfo, FuncInfo, int, int]:
    """(chain function, per-run driver, index of the 'fixed' flag, index of the 'failed' flag)
    in the tuple returned by the per-run driver — roles derived from what sets each flag."""
    driver = prog.method("pymarkdown.file_scan_helper.FileScanHelper", "process_files_to_scan")
    rets = returns_of(driver)
    if not rets or any(not isinstance(r, ast.Tuple) or len(r.elts) != 2 for r in rets):
        raise AnalysisError("process_files_to_scan no longer returns 2-tuples of flags")
    # the return that hands back the flags accumulated over the files (other returns - the single stdin document - give
    # the pair directly)
    accumulated = [r for r in rets if all(isinstance(e, ast.Name) for e in r.elts)]
    if len(accumulated) != 1:
        raise AnalysisError("process_files_to_scan: the return of the two accumulated flags was not found")
    names = [elt.id if isinstance(elt, ast.Name) else None for elt in accumulated[0].elts]
    fixed_index = failed_index = None
    # roles by how each flag is raised: the failure flag is set when a per-file status is False (a negative
    # guard on a value that comes back from a call), the fixed flag when a per-file value is True
    for node in walk_local(driver.node):
        if not (isinstance(node, ast.Assign) and isinstance(node.value, ast.Constant) and node.value.value is True):
            continue
        for target in node.targets:
            if not (isinstance(target, ast.Name) and target.id in names):
                continue
            for test, polarity in guards_of(driver.node, node):
                from_call = isinstance(test, ast.Call)
                if isinstance(test, ast.Name):
                    for other in walk_local(driver.node):
                        if isinstance(other, ast.Assign):
                            for tgt_top in other.targets:
                                for tgt, value, _ in Program._unpack(tgt_top, other.value):
                                    if isinstance(tgt, ast.Name) and tgt.id == test.id and value is not None and any(isinstance(sub, ast.Call) for sub in ast.walk(value)):
                                        from_call = True
                if not from_call:
                    continue
                if polarity:
                    fixed_index = names.index(target.id)
                else:
                    failed_index = names.index(target.id)
    if fixed_index is None or failed_index is None or fixed_index == failed_index:
        raise AnalysisError("cannot derive the roles (fixed / failed) of the flags returned by process_files_to_scan")
    callers = prog.callers.get(driver.qualname, [])
    if len(callers) != 1:
        raise AnalysisError(f"expected one caller of process_files_to_scan, found {len(callers)}")
    return callers[0].caller, driver, fixed_index, failed_index


def r18c(ctx: Context) -> None:
    prog = ctx.prog
    rule = ctx.rule("R18c", "end-of-run chain: failed before fixed before triggered", 4)
    chain, driver, fixed_index, failed_index = chain_roles(prog)
    # names bound from the driver's tuple
    flag_names: Dict[str, str] = {}
    for node in walk_local(chain.node):
        if isinstance(node, ast.Assign) and isinstance(node.value, ast.Call):
            site = site_for(prog, chain, node.value)
            if site and driver in site.targets and isinstance(node.targets[0], ast.Tuple):
                elts = node.targets[0].elts
                flag_names[norm(elts[fixed_index])] = "fixed"
                flag_names[norm(elts[failed_index])] = "failed"
    if len(flag_names) != 2:
        raise AnalysisError("chain function does not unpack the two flags of process_files_to_scan")
    if not returns_of(chain):
        raise AnalysisError("chain function does not return a result")
    from sa.util import enumerate_paths

    def verdicts(func: FuncInfo, roles: Dict[str, str], need_driver: bool, depth: int = 0):
        """(facts established on a path, result of that path, description) for every path of ``func``; a result that
        is computed by a helper of the same class is followed into the helper with the flags mapped to its parameters"""
        cfg = CFG(func.node, raising=lambda n: False)
        for path in enumerate_paths(cfg, loop_bound=1):
            if path[-1][0] != cfg.exit:
                continue
            facts: Dict[str, bool] = {}
            result_expr: Optional[ast.AST] = None
            bound: Dict[str, ast.AST] = {}
            driver_called = False
            for nid, label in path:
                node = cfg.nodes[nid]
                if node.kind == "cond" and node.ast_node is not None:
                    text = norm(node.ast_node)
                    role = roles.get(text)
                    if role:
                        facts[role] = label == "true"
                    elif "number_of_scan_failures" in text:
                        facts["triggered"] = label == "true"
                    else:
                        facts[text] = label == "true"
                elif node.kind == "stmt" and isinstance(node.ast_node, ast.Assign):
                    stmt = node.ast_node
                    for target in stmt.targets:
                        if isinstance(target, ast.Name):
                            bound[target.id] = bound.get(stmt.value.id, stmt.value) if isinstance(stmt.value, ast.Name) else stmt.value
                    if isinstance(stmt.value, ast.Call):
                        site = site_for(prog, func, stmt.value)
                        if site and driver in site.targets:
                            driver_called = True
                elif node.kind == "stmt" and isinstance(node.ast_node, ast.Return) and node.ast_node.value is not None:
                    value = node.ast_node.value
                    result_expr = bound.get(value.id, value) if isinstance(value, ast.Name) else value
            if need_driver and not driver_called:
                continue
            described = [cfg.describe(n) for n, _ in path if cfg.nodes[n].kind in ("cond",)]
            helper_site = site_for(prog, func, result_expr) if isinstance(result_expr, ast.Call) else None
            if helper_site is not None and depth < 2 and len(helper_site.targets) == 1 and helper_site.targets[0].cls == func.cls:
                helper = helper_site.targets[0]
                mapping = Program.bind_args(helper, result_expr, skip_self=helper.kind == "instance")  # type: ignore[arg-type]
                inner_roles = {param: roles[norm(arg)] for param, arg in mapping.items() if arg is not None and norm(arg) in roles}
                for inner_facts, inner_result, inner_described in verdicts(helper, inner_roles, False, depth + 1):
                    merged = dict(facts)
                    conflict = any(k in merged and merged[k] != v for k, v in inner_facts.items())
                    if conflict:
                        continue
                    merged.update(inner_facts)
                    yield merged, inner_result, described + inner_described
                continue
            result = None if result_expr is None else (enum_member(result_expr, "ApplicationResult") or norm(result_expr))
            yield facts, result, described

    seen_paths = 0
    for facts, result, described in verdicts(chain, flag_names, True):
        seen_paths += 1
        # unconstrained flags take both values: check the implied verdict for each completion
        for failed in ([facts["failed"]] if "failed" in facts else [True, False]):
            for fixed in ([facts["fixed"]] if "fixed" in facts else [True, False]):
                for triggered in ([facts["triggered"]] if "triggered" in facts else [True, False]):
                    expected = (
                        "SYSTEM_ERROR" if failed else "FIXED_AT_LEAST_ONE_FILE" if fixed
                        else "SCAN_TRIGGERED_AT_LEAST_ONCE" if triggered else "SUCCESS"
                    )
                    key = f"{chain.short}: failed={failed} fixed={fixed} triggered={triggered}"
                    if result != expected:
                        rule.fail(
                            key, where(chain),
                            f"a run with failed={failed}, fixed={fixed}, triggered={triggered} ends as {result}, expected {expected} "
                            "(an application error must never be masked; fixed outranks triggered)",
                            described,
                        )
                    else:
                        rule.ok(key, f"-> {result}")
    if seen_paths == 0:
        raise AnalysisError("no path through the chain function reaches process_files_to_scan")


def r18e(ctx: Context) -> None:
    prog = ctx.prog
    rule = ctx.rule("R18e", "error reporters exit with SYSTEM_ERROR; help printers with COMMAND_LINE_ERROR", 3)
    owner = prog.method(RCH, "exit_application")
    for site in prog.callers.get(owner.qualname, []):
        caller = site.caller
        ext_calls = [dotted(c.func) or "" for c in walk_local(caller.node) if isinstance(c, ast.Call)]
        reporter = any(name.endswith(("print_system_error", "format_scan_error")) for name in ext_calls)
        values = reaching_values(prog, caller, site.node.args[0]) if site.node.args else []
        cats = {enum_member(v, "ApplicationResult") for v in values}
        if reporter:
            if cats != {"SYSTEM_ERROR"}:
                rule.fail(func_key(caller, site.node), site.where, f"error reporter exits with {sorted(str(c) for c in cats)}, must be SYSTEM_ERROR only")
            else:
                rule.ok(func_key(caller, site.node), "SYSTEM_ERROR")
        # exit taken right after print_help()
        stmt_block = _block_of(caller.node, site.node)
        if stmt_block is not None:
            block, index = stmt_block
            before = [dotted(c.func) or "" for s in block[:index] for c in ast.walk(s) if isinstance(c, ast.Call)]
            if any(name.endswith("print_help") for name in before):
                if cats != {"COMMAND_LINE_ERROR"}:
                    rule.fail(func_key(caller, site.node), site.where, f"exit after print_help passes {sorted(str(c) for c in cats)}, must be COMMAND_LINE_ERROR")
                else:
                    rule.ok(func_key(caller, site.node), "COMMAND_LINE_ERROR after print_help")
    # sub-command handlers: return after print_help is COMMAND_LINE_ERROR
    for func in prog.iter_functions():
        if func.name != "handle_argparse_subparser":
            continue
        for node in walk_local(func.node):
            if isinstance(node, ast.Return) and node.value is not None:
                located = _block_of(func.node, node)
                if located is None:
                    continue
                block, index = located
                before = [dotted(c.func) or "" for s in block[:index] for c in ast.walk(s) if isinstance(c, ast.Call)]
                if any(name.endswith("print_help") for name in before):
                    member = enum_member(node.value, "ApplicationResult")
                    if member != "COMMAND_LINE_ERROR":
                        rule.fail(func_key(func, node), where(func, node), f"missing sub-command prints help but returns {member}")
                    else:
                        rule.ok(func_key(func, node), "COMMAND_LINE_ERROR after print_help")


def _block_of(func_node: ast.AST, target: ast.AST):
    for node in ast.walk(func_node):
        for attr in ("body", "orelse", "finalbody"):
            block = getattr(node, attr, None)
            if isinstance(block, list):
                for index, stmt in enumerate(block):
                    if stmt is target or (isinstance(stmt, ast.Expr) and stmt.value is target):
                        return block, index
    return None


def config_read_after_load(ctx: Context, rule_id: str) -> None:
    """Nothing reads the configuration before every layer has been applied."""
    from sa.events import EventOrder, Spec

    prog = ctx.prog
    rule = ctx.rule(rule_id, "configuration is read only after all layers are applied", 1)
    init = prog.method("pymarkdown.main.PyMarkdownLint", "__initialize_subsystems")
    loader = prog.method("pymarkdown.application_configuration_helper.ApplicationConfigurationHelper", "apply_configuration_layers")
    readers = {
        prog.method(RCH, "set_initial_state").qualname: "return-code scheme",
        prog.method("pymarkdown.plugin_manager.plugin_manager.PluginManager", "initialize").qualname: "plugin registration",
        prog.method("pymarkdown.extension_manager.extension_manager.ExtensionManager", "initialize").qualname: "extension registration",
        prog.method("pymarkdown.application_logging.ApplicationLogging", "initialize").qualname: "logging",
    }

    def event_of(func, site):
        if loader in site.targets:
            return "L"
        for target in site.targets:
            if target.qualname in readers:
                return "R"
        if (site.external or "").endswith((".get_boolean_property", ".get_string_property", ".get_integer_property")) and func.cls is not None and func.cls.name == "PyMarkdownLint":
            return "R"
        return None

    spec = Spec(0, {(0, "L"): 1, (1, "R"): 1}, accept_normal={0, 1}, accept_raise={0, 1}, names={0: "configuration not loaded yet", 1: "configuration loaded"})
    order = EventOrder(prog, event_of, raising=None)
    witness = order.check(init, spec)
    key = func_key(init) + ": load before read"
    if witness is None:
        rule.ok(key, "apply_configuration_layers precedes every reader of the properties")
    else:
        rule.fail(key, where(init), f"a setting is read before the configuration layers are applied, so the value given in a configuration file or --set is ignored: {witness['message']}", list(witness["steps"]))  # type: ignore[arg-type]


def scheme_before_scheme_dependent_exits(ctx: Context, rule_id: str = "R18i") -> None:
    """An exit whose result maps to different codes under the two schemes must not happen before the
    scheme is resolved (ReturnCodeHelper.set_initial_state).  Event order over main(): S = the
    scheme is resolved, X = a process exit whose reaching result constants include a
    scheme-dependent one (or are unknown).  No path may reach X before S."""
    from sa.events import EventOrder, Spec

    prog = ctx.prog
    rule = ctx.rule(rule_id, "the return-code scheme is resolved before every exit whose code depends on it", 2)
    helper = prog.cls(RCH)
    setter = helper.methods.get("set_initial_state")
    exiter = helper.methods.get("exit_application")
    if setter is None or exiter is None:
        raise AnalysisError("ReturnCodeHelper.set_initial_state / exit_application not found")
    tables = {name: mapping for name, (_fn, mapping) in scheme_tables(prog).items()}
    if len(tables) < 2:
        raise AnalysisError("fewer than two return-code scheme tables found")
    members = set.intersection(*[set(t) for t in tables.values()])
    dependent = {m for m in members if len({t[m] for t in tables.values()}) > 1}
    if not dependent:
        raise AnalysisError("no result differs between the schemes (the tables moved?)")

    def result_constants(func: FuncInfo, expr: ast.AST) -> Optional[Set[str]]:
        names: Set[str] = set()
        for value in reaching_values(prog, func, expr):
            text = norm(value)
            if text.startswith("ApplicationResult."):
                names.add(text.split(".", 1)[1])
            else:
                return None
        return names

    def event_of(func: FuncInfo, site: CallSite) -> Optional[str]:
        if setter in site.targets:
            return "S"
        if exiter in site.targets and site.node.args:
            constants = result_constants(func, site.node.args[0])
            if constants is None or constants & dependent:
                return "X"
        return None

    # the initialisation phase: the direct callee of main() from which the scheme is resolved.  Everything main()
    # does after it comes after the scheme; inside it, no scheme-dependent exit may precede the resolution, and
    # every normal path through it resolves the scheme.
    main = prog.method(MAIN, "main")
    phases = [t for site in prog.sites_in(main) for t in site.targets if setter.qualname in prog.reachable([t])]
    if not phases:
        raise AnalysisError("main() never reaches ReturnCodeHelper.set_initial_state")
    phase = phases[0]
    spec = Spec(0, {(0, "S"): 1, (1, "S"): 1, (1, "X"): 1}, accept_normal={1}, accept_raise={0, 1}, names={0: "scheme not resolved yet", 1: "scheme resolved"})
    order = EventOrder(prog, event_of, raising=None)
    witness = order.check(phase, spec)
    key = f"{phase.short}: scheme before exits"
    if witness is None:
        rule.ok(key, f"every exit with a result in {sorted(dependent)} (or an unknown result) follows set_initial_state; every normal path resolves the scheme")
    else:
        rule.fail(key, where(phase), f"a run can end with a scheme-dependent result before the return-code scheme is resolved (or initialisation can finish without resolving it), so the default scheme's code is used whatever was configured: {witness['message']}", list(witness["steps"]))  # type: ignore[arg-type]
    rule.ok(f"{helper.name}: scheme-dependent results", f"{sorted(dependent)} differ between {sorted(tables)}")


def run(ctx: Context) -> None:
    r18a(ctx)
    r18b(ctx)
    r18c(ctx)
    common.status_not_dropped(ctx, "R18d")
    r18e(ctx)
    common.discovery_flag_consulted(ctx, "R18f")
    from sa.rules import c15

    c15.reported_means_failed(ctx, "R18h")
    config_read_after_load(ctx, "R18g")
    from sa.rules import c10

    c10.r10c(ctx)
    ctx.rules[-1].rule_id = "R18j"
    for finding in ctx.rules[-1].findings:
        finding.rule = "R18j"
    scheme_before_scheme_dependent_exits(ctx)
    from sa.rules import c16

    # 'system error' row: a document that cannot be decoded raises (and is reported), it is not scanned as other text
    c16.strict_decoding(ctx, "R18k")
    if ctx.tier == "thorough":
        from sa.rules import driver_exploration

        driver_exploration.c18_predicates(ctx)
