"""C19 — file discovery selects exactly the documented set, once each, in sorted order."""

from __future__ import annotations

import ast
from typing import Dict, List, Optional, Set, Tuple

from re import search as _re_search

from sa.cfg import CFG
from sa.model import AnalysisError, FuncInfo, Program, dotted, norm, walk_local
from sa.report import Context
from sa.rules import common
from sa.rules.common import MAIN
from sa.util import (
    all_paths_pass,
    forward_taint,
    describe_path,
    enum_member,
    func_key,
    guards_of,
    names_read,
    returns_of,
    site_for,
    where,
)

EXPLANATION = (
    "Decides, from /repo's current source: R19a the discovered files are collected in a set and returned as "
    "sorted(<that set>) (each file once, order independent of the arguments); R19b every add() to that set is "
    "control-dependent on the eligibility predicate applied to the added path (or the path it was normalised from), "
    "and the predicate consults both os.path.isfile and the extension list; R19c every path of the per-argument "
    "function that reports 'nothing found' calls the error reporter, and every error branch of the driver sets the "
    "error flag and leaves the loop; R19d the error flag is read on every path from discovery to a process exit and "
    "the listing is not printed after an error; R19e scan, fix, --list-files and the API share the one discovery "
    "function (glob/os.walk/os.listdir are called nowhere else for documents); R19f an empty selection ends in "
    "NO_FILES_TO_SCAN; R19g an argument is expanded as a glob exactly when it contains '*' or '?', as the user guide says. R19h every path entering the set is spelled canonically; R19i globs are expanded without the recursive flag; R19j no mutable state besides the result set is shared between the expansions of two arguments; R19l the list of sub-directories of the walk is not edited and the expansion of a glob is not filtered; R19k no error decision of discovery reads the set of files selected so far (the verdict on an argument is a matter of that argument alone). Not decided: the semantics of glob.glob / os.walk themselves, extension case rules."
)
ASSUMPTIONS = ["glob.glob, os.walk, os.path.isfile behave as documented"]

AFS = "pymarkdown.application_file_scanner.ApplicationFileScanner"


def discovery_set(prog: Program) -> Tuple[FuncInfo, str]:
    func = prog.method(AFS, "determine_files_to_scan")
    env = prog.env_of(func)
    sets = [name for name, typ in env.items() if typ and typ[0] == "set" and name not in func.params]
    if len(sets) == 1:
        return func, sets[0]
    # several local sets: the discovery set is the one whose elements are returned
    returned = set()
    for ret in returns_of(func):
        first = ret.elts[0] if isinstance(ret, ast.Tuple) and ret.elts else ret
        exprs = [first]
        if isinstance(first, ast.Name):
            exprs = [n.value for n in walk_local(func.node) if isinstance(n, ast.Assign) and any(isinstance(t, ast.Name) and t.id == first.id for t in n.targets)]
        for expr in exprs:
            returned |= {n.id for n in ast.walk(expr) if isinstance(n, ast.Name)}
    candidates = [name for name in sets if name in returned]
    if len(candidates) != 1:
        raise AnalysisError(f"determine_files_to_scan: cannot identify the set of discovered files among {sets}")
    return func, candidates[0]


def _first_argument(callee: FuncInfo, call: ast.Call) -> Optional[ast.AST]:
    """what the call passes for the callee's first parameter (after self / cls), by position or by keyword"""
    first = next((a.arg for a in callee.node.args.args if a.arg not in ("self", "cls")), None)  # type: ignore[attr-defined]
    if first is None:
        return None
    return Program.bind_args(callee, call, skip_self=callee.kind in ("instance", "class")).get(first)


def r19a(ctx: Context) -> None:
    prog = ctx.prog
    rule = ctx.rule("R19a", "files are collected in a set and returned through sorted()", 2)
    func, set_name = discovery_set(prog)
    rets = returns_of(func)
    if len(rets) != 1 or not isinstance(rets[0], ast.Tuple):
        raise AnalysisError("determine_files_to_scan does not return one tuple")
    first = rets[0].elts[0]
    values = [first]
    if isinstance(first, ast.Name):
        values = [n.value for n in walk_local(func.node) if isinstance(n, ast.Assign) and any(isinstance(t, ast.Name) and t.id == first.id for t in n.targets)]
    key = func_key(func) + ": returned list"
    ok = bool(values)
    for value in values:
        if not (isinstance(value, ast.Call) and dotted(value.func) == "sorted" and len(value.args) == 1 and isinstance(value.args[0], ast.Name) and value.args[0].id == set_name):
            ok = False
            rule.fail(key, where(func, value), f"the list of files to process is '{norm(value)}', not sorted({set_name}): order depends on the arguments or on hash order, duplicates are possible")
        elif any(k.arg in ("reverse", "key") for k in value.keywords):
            ok = False
            rule.fail(key, where(func, value), "sorted() of the file set is given reverse=/key=")
    if ok:
        rule.ok(key, f"sorted({set_name})")
    # the set is only ever added to (never replaced by a list)
    for node in walk_local(func.node):
        if isinstance(node, ast.Assign) and any(isinstance(t, ast.Name) and t.id == set_name for t in node.targets):
            typ = prog.infer(func, node.value)
            if not (typ and typ[0] == "set"):
                rule.fail(func_key(func, node), where(func, node), f"'{set_name}' is rebound to a non-set value")
    rule.ok(func_key(func) + f": {set_name} is a set", "annotated Set[str]")


def r19b(ctx: Context) -> None:
    prog = ctx.prog
    rule = ctx.rule("R19b", "every file added to the set passed the eligibility predicate", 3)
    eligible = prog.method(AFS, "__is_file_eligible_to_scan")
    # the predicate consults isfile and the extension list
    ret = returns_of(eligible)
    params = eligible.params
    reads = set()
    calls = set()
    for value in ret:
        reads |= names_read(value)
        calls |= {dotted(c.func) or "" for c in ast.walk(value) if isinstance(c, ast.Call)}
    for node in walk_local(eligible.node):
        if isinstance(node, ast.Call):
            calls.add(dotted(node.func) or "")
        if isinstance(node, (ast.Name,)):
            reads.add(node.id)
    key = func_key(eligible)
    problems = []
    if "os.path.isfile" not in calls:
        problems.append("does not test os.path.isfile")
    if len(params) < 2 or params[1] not in reads:
        problems.append("does not consult the extension list")
    if not any(c.endswith(".endswith") for c in calls):
        problems.append("does not compare the end of the path with an extension")
    if problems:
        rule.fail(key, where(eligible), "eligibility predicate " + "; ".join(problems))
    else:
        rule.ok(key, "isfile and endswith(extension) over the extension list")
    # adds
    scanner = prog.cls(AFS)
    adds = 0
    # the discovery set and the parameters it is passed for
    root_func, root_set = discovery_set(prog)
    carriers = forward_taint(prog, [(root_func, root_set)], any_expression=False)
    for func in scanner.methods.values():
        set_params = sorted(carriers.get(func.qualname, set()))
        for node in walk_local(func.node):
            if not (isinstance(node, ast.Call) and isinstance(node.func, ast.Attribute) and node.func.attr in ("add", "update") and isinstance(node.func.value, ast.Name) and node.func.value.id in set_params):
                continue
            adds += 1
            akey = func_key(func, node)
            if node.func.attr == "update":
                bulk = node.args[0] if node.args else None
                filtered = False
                if isinstance(bulk, (ast.GeneratorExp, ast.ListComp, ast.SetComp)):
                    element_names = names_read(bulk.elt)
                    for generator in bulk.generators:
                        for condition in generator.ifs:
                            for call in [c for c in ast.walk(condition) if isinstance(c, ast.Call)]:
                                site = site_for(prog, func, call)
                                if site and eligible in site.targets and _first_argument(eligible, call) is not None and names_read(_first_argument(eligible, call)) & element_names:
                                    filtered = True
                if filtered:
                    rule.ok(akey, "every element of the bulk add passed the eligibility predicate (comprehension filter)")
                else:
                    rule.fail(akey, where(func, node), "files are added in bulk without passing the eligibility predicate one by one")
                continue
            added = node.args[0]
            added_names = names_read(added)
            # names the added value was derived from
            derived = set(added_names)
            for stmt in walk_local(func.node):
                if isinstance(stmt, ast.Assign) and any(isinstance(t, ast.Name) and t.id in added_names for t in stmt.targets):
                    derived |= names_read(stmt.value)
            guarded = False
            for test, polarity in guards_of(func.node, node):
                if not polarity or not isinstance(test, ast.Call):
                    continue
                site = site_for(prog, func, test)
                if site and eligible in site.targets and _first_argument(eligible, test) is not None and names_read(_first_argument(eligible, test)) & derived:
                    guarded = True
            if guarded:
                rule.ok(akey, "control-dependent on the eligibility predicate for the same path")
            else:
                rule.fail(akey, where(func, node), f"'{norm(added)}' is added to the set of files without the eligibility predicate holding for it: ineligible files get processed")
    if adds < 2:
        raise AnalysisError(f"only {adds} add() sites found on the discovery set (2 confirmed)")


def r19c(ctx: Context) -> None:
    prog = ctx.prog
    rule = ctx.rule("R19c", "nothing-found paths report an error; error branches set the flag and stop", 4)
    per_arg = prog.method(AFS, "__process_next_path")
    driver, flag, _ = common.discovery_error_flag(prog)
    # per-argument function: every path returning False passed the error callback
    cfg = CFG(per_arg.node, raising=lambda n: False)
    from sa.util import enumerate_paths

    if not returns_of(per_arg):
        raise AnalysisError("__process_next_path does not return a status")
    error_param = next((p for p in per_arg.params if "error" in p), None)
    if error_param is None:
        raise AnalysisError("__process_next_path has no error callback parameter")
    paths = 0
    for path in enumerate_paths(cfg, loop_bound=1):
        if path[-1][0] != cfg.exit:
            continue
        paths += 1
        value: Optional[bool] = None
        reported = False
        conds = []
        held: Dict[str, Optional[bool]] = {}  # boolean constants held by locals along this path
        for nid, label in path:
            node = cfg.nodes[nid]
            if node.kind == "cond":
                conds.append(f"{norm(node.ast_node)}={label}")
            if node.kind == "stmt" and isinstance(node.ast_node, ast.Assign):
                const = node.ast_node.value
                constant = const.value if isinstance(const, ast.Constant) and isinstance(const.value, bool) else None
                for target in node.ast_node.targets:
                    if isinstance(target, ast.Name):
                        held[target.id] = constant
            if node.kind == "stmt" and isinstance(node.ast_node, ast.Return) and node.ast_node.value is not None:
                returned = node.ast_node.value
                if isinstance(returned, ast.Constant) and isinstance(returned.value, bool):
                    value = returned.value
                elif isinstance(returned, ast.Name):
                    value = held.get(returned.id)
            if node.kind == "stmt" and node.ast_node is not None:
                for call in [c for c in ast.walk(node.ast_node) if isinstance(c, ast.Call)]:
                    if isinstance(call.func, ast.Name) and call.func.id == error_param:
                        reported = True
        key = f"{per_arg.short}: path [{'; '.join(conds)}]"
        if value is False and not reported:
            rule.fail(key, where(per_arg), "a path that finds nothing for the argument returns the failure status without telling the user why")
        elif value is not False and reported:
            rule.fail(key, where(per_arg), "a path reports an error to the user but returns success: the run goes on to scan")
        else:
            rule.ok(key, f"status={value} reported={reported}")
    if paths < 3:
        raise AnalysisError("__process_next_path: fewer than 3 paths enumerated")
    # driver: every branch that observes an error sets the flag and breaks
    error_param_d = next((p for p in driver.params if "error" in p), None)
    for node in walk_local(driver.node):
        if isinstance(node, ast.If):
            for branch in (node.body,):
                sets_flag = any(isinstance(s, ast.Assign) and isinstance(s.value, ast.Constant) and s.value.value is True and any(isinstance(t, ast.Name) and t.id == flag for t in s.targets) for s in branch)
                breaks = any(isinstance(s, ast.Break) for s in branch)
                calls_error = any(isinstance(c, ast.Call) and isinstance(c.func, ast.Name) and c.func.id == error_param_d for s in branch if isinstance(s, (ast.Expr, ast.Assign)) for c in ast.walk(s))
                test_is_failure = False
                test = node.test
                if isinstance(test, ast.UnaryOp) and isinstance(test.op, ast.Not):
                    inner = test.operand
                    if isinstance(inner, ast.Call):
                        site = site_for(prog, driver, inner)
                        test_is_failure = bool(site and per_arg in site.targets)
                    elif isinstance(inner, ast.Name):
                        test_is_failure = True  # 'not globbed_paths'
                if not (test_is_failure or calls_error or sets_flag):
                    continue
                key = func_key(driver, node.test)
                if sets_flag and breaks:
                    rule.ok(key, "sets the error flag and leaves the loop")
                elif test_is_failure or calls_error:
                    rule.fail(key, where(driver, node), f"the branch '{norm(node.test)}' observes a discovery failure but does not both set '{flag}' and stop: later arguments are still collected and the run scans them")
    # calls to the per-argument function whose result is ignored
    for site in prog.sites_in(driver):
        if per_arg in site.targets:
            parents = [n for n in walk_local(driver.node) if isinstance(n, ast.Expr) and n.value is site.node]
            key = func_key(driver, site.node) + " [result]"
            if parents:
                enclosing_for = [n for n in walk_local(driver.node) if isinstance(n, ast.For) and any(sub is site.node for sub in ast.walk(n)) and "glob" in norm(n.iter)]
                if enclosing_for:
                    rule.ok(key, "named exception: ineligible matches of a glob are skipped, as documented")
                else:
                    rule.fail(key, site.where, "the result of the per-argument discovery is ignored for a literal path argument")
            else:
                rule.ok(key, "result consulted")


def r19d_listing(ctx: Context) -> None:
    prog = ctx.prog
    rule = ctx.rule("R19d2", "the listing is not printed after a discovery error", 1)
    driver, flag, _ = common.discovery_error_flag(prog)
    lister = prog.method(AFS, "__handle_main_list_files")
    for site in prog.sites_in(driver):
        if lister not in site.targets:
            continue
        key = func_key(driver) + ": listing after error"
        guards = [norm(t) for t, _ in guards_of(driver.node, site.node)]
        arg_reads = set()
        for arg in list(site.node.args) + [k.value for k in site.node.keywords]:
            arg_reads |= names_read(arg)
        if flag in arg_reads or any(flag in g for g in guards):
            rule.ok(key, "listing arguments / guard depend on the error flag")
        else:
            rule.fail(key, site.where, f"the list of files is handed to the lister regardless of '{flag}': after an error on one argument the other arguments' files are still listed")


def r19e(ctx: Context) -> None:
    prog = ctx.prog
    rule = ctx.rule("R19e", "one discovery function serves scan, fix, list and the API", 3)
    disc = prog.method(AFS, "determine_files_to_scan")
    wrapper = prog.method(AFS, "determine_files_to_scan_with_args")
    for func in prog.iter_functions():
        for site in prog.sites_in(func):
            if site.external in ("glob.glob", "glob.iglob", "os.walk", "os.scandir"):
                key = func_key(func, site.node)
                if func.cls is not None and func.cls.qualname == AFS:
                    rule.ok(key, "inside the file scanner")
                else:
                    rule.fail(key, site.where, f"{func.short} enumerates files itself instead of using the shared discovery: its selection can differ from scan/fix/list")
    callers = {s.caller.qualname for s in prog.callers.get(disc.qualname, [])}
    if callers - {wrapper.qualname}:
        rule.fail(func_key(disc) + ": callers", where(disc), f"discovery is invoked from {sorted(callers)}")
    else:
        rule.ok(func_key(disc) + ": callers", "only through determine_files_to_scan_with_args")
    wcallers = {s.caller.qualname for s in prog.callers.get(wrapper.qualname, [])}
    finder = prog.method(MAIN, "__find_files_to_scan")
    if wcallers != {finder.qualname}:
        rule.fail(func_key(wrapper) + ": callers", where(wrapper), f"discovery wrapper is invoked from {sorted(wcallers)}")
    else:
        rule.ok(func_key(wrapper) + ": callers", "only from main's __find_files_to_scan (scan, fix and list share it)")
    # the sub-commands scan and fix get the same path arguments
    fsh_add = prog.method("pymarkdown.file_scan_helper.FileScanHelper", "add_argparse_subparser")
    shared = [s for s in prog.sites_in(fsh_add) if any(t.name == "add_default_command_line_arguments" for t in s.targets)]
    conditional = [s for s in shared if any(True for t, p in guards_of(fsh_add.node, s.node))]
    if len(shared) == 1 and not conditional:
        rule.ok(func_key(fsh_add), "scan and fix register the same path/recurse/extension/list arguments")
    else:
        rule.fail(func_key(fsh_add), where(fsh_add), "scan and fix no longer register identical discovery arguments")


def r19f(ctx: Context) -> None:
    prog = ctx.prog
    rule = ctx.rule("R19f", "an empty selection ends in NO_FILES_TO_SCAN", 1)
    chain = prog.method(MAIN, "__scan_files_if_no_errors")
    driver = prog.method("pymarkdown.file_scan_helper.FileScanHelper", "process_files_to_scan")
    files_param = None
    for site in prog.sites_in(chain):
        if driver in site.targets:
            bound = Program.bind_args(driver, site.node, skip_self=True)
            list_params = [a.arg for a in driver.node.args.args if a.annotation is not None and ast.unparse(a.annotation) in ("List[str]", "list[str]", "Sequence[str]")]  # type: ignore[attr-defined]
            arg = bound.get(list_params[0]) if list_params else None
            if isinstance(arg, ast.Name):
                files_param = arg.id
    if files_param is None:
        raise AnalysisError("chain function does not pass a file list to the driver")
    consulted = False
    for node in walk_local(chain.node):
        if isinstance(node, (ast.If, ast.IfExp)) and files_param in {n.split(".")[0] for n in names_read(node.test)}:
            consulted = True
    key = f"{chain.short}: empty selection"
    if consulted:
        rule.ok(key, "the emptiness of the file list decides the result")
    else:
        rule.fail(key, where(chain), f"'{files_param}' is never tested: arguments that select no file (an empty directory) end as SUCCESS instead of NO_FILES_TO_SCAN, while --list-files on the same arguments ends as NO_FILES_TO_SCAN")


def r19g(ctx: Context) -> None:
    prog = ctx.prog
    rule = ctx.rule("R19g", "an argument is a glob exactly when it contains '*' or '?' (as documented)", 1)
    func = prog.method(AFS, "determine_files_to_scan")
    doc = prog.source.read("newdocs/src/user-guide.md")
    documented = set()
    for line_index, line in enumerate(doc.split("\n")):
        if "character" in line and "glob" in " ".join(doc.split("\n")[line_index: line_index + 3]).lower():
            for token in ("`?`", "`*`", "`[`"):
                if token in line:
                    documented.add(token.strip("`"))
    pinned_reading = not documented
    if pinned_reading:
        documented = {"*", "?"}  # the sentence was reworded beyond recognition: the reading confirmed on the pinned tree
    closure = [f for f in prog.cls(AFS).methods.values() if f.qualname in prog.reachable([func])]
    sites = [s for f in closure for s in prog.sites_in(f) if s.external in ("glob.glob", "glob.iglob")]
    if not sites:
        raise AnalysisError("determine_files_to_scan no longer expands globs")
    closure_names = {f.qualname for f in closure}

    def contexts(holder: FuncInfo, node: ast.AST, depth: int = 0) -> List[List[Tuple[ast.AST, bool]]]:
        """the guard facts under which ``node`` runs, per call path from determine_files_to_scan"""
        own = list(guards_of(holder.node, node, include_asserts=False))
        if holder == func or depth > 4:
            return [own]
        ups = [s for s in prog.callers.get(holder.qualname, []) if s.caller.qualname in closure_names and s.caller != holder]
        if not ups:
            return [own]
        def selected_under(up) -> List[Tuple[ast.AST, bool]]:
            """the call goes through a local that a conditional expression binds to one function or another: the
            condition under which it is this one"""
            callee = up.node.func
            if not isinstance(callee, ast.Name):
                return []
            bound = [n.value for n in walk_local(up.caller.node) if isinstance(n, (ast.Assign, ast.AnnAssign)) and getattr(n, "value", None) is not None
                     and any(isinstance(t, ast.Name) and t.id == callee.id for t in (n.targets if isinstance(n, ast.Assign) else [n.target]))]
            if len(bound) == 1 and isinstance(bound[0], ast.IfExp):
                names_holder = lambda expr: (dotted(expr) or "").split(".")[-1].lstrip("_") == holder.name.lstrip("_")  # noqa: E731
                if names_holder(bound[0].body) and not names_holder(bound[0].orelse):
                    return [(bound[0].test, True)]
                if names_holder(bound[0].orelse) and not names_holder(bound[0].body):
                    return [(bound[0].test, False)]
            return []

        return [outer + selected_under(up) + own for up in ups for outer in contexts(up.caller, up.node, depth + 1)]

    for site in [(s, c) for s in sites for c in contexts(s.caller, s.node)]:
        site, context = site
        holder = site.caller
        key = func_key(holder, site.node) + " [glob trigger]"
        # the condition under which the argument is expanded: the positive guard facts that test for characters
        chars: Set[str] = set()
        exact = True
        triggers = []
        for test, polarity in context:
            operands = test.values if isinstance(test, ast.BoolOp) and isinstance(test.op, ast.Or) else [test]
            membership = [o for o in operands if isinstance(o, ast.Compare) and len(o.ops) == 1 and isinstance(o.ops[0], ast.In) and isinstance(o.left, ast.Constant) and isinstance(o.left.value, str)]
            if not membership:
                continue
            triggers.append(test)
            if not polarity or len(membership) != len(operands):
                exact = False
            chars |= {o.left.value for o in membership}
        if not triggers:
            rule.fail(key, site.where, "every path argument is expanded as a glob: a literal name containing glob characters can no longer be named")
            continue
        other = [norm(t) for t, p in context if t not in triggers]
        if exact and chars == documented and not other:
            rule.ok(key, "'*' in path or '?' in path")
        else:
            text = " and ".join([norm(t) for t in triggers] + other)
            rule.fail(key, site.where, f"a path argument is treated as a glob when '{text[:100]}': the documented rule is 'contains * or ?', so literal names (for example with '[') are expanded as patterns or rejected as unmatched globs")


CANONICALISERS = {"os.path.normpath", "os.path.abspath", "os.path.realpath"}


def r19h(ctx: Context) -> None:
    """'Each file once however many arguments reach it': the set de-duplicates by string, so
    every string that enters it must be spelled canonically - the result of normpath /
    abspath / realpath, or built from the roots os.walk yields for a canonical top plus the
    plain file names it lists.  Separator replacement, stripping a trailing separator and
    joining do not change that."""
    prog = ctx.prog
    rule = ctx.rule("R19h", "every path that enters the discovery set is spelled canonically (normpath), so one file has one spelling", 2)
    scanner = prog.cls(AFS)
    root_func, root_set = discovery_set(prog)
    carriers = forward_taint(prog, [(root_func, root_set)], any_expression=False)

    def bindings(func: FuncInfo, name: str) -> List[Tuple[str, ast.AST]]:
        """(kind, expr) for every binding of a local: plain assignment, or position in a for-target"""
        found: List[Tuple[str, ast.AST]] = []
        for node in walk_local(func.node):
            if isinstance(node, ast.Assign):
                for target in node.targets:
                    if isinstance(target, ast.Name) and target.id == name:
                        found.append(("value", node.value))
            elif isinstance(node, ast.AnnAssign) and isinstance(node.target, ast.Name) and node.target.id == name and node.value is not None:
                found.append(("value", node.value))
            elif isinstance(node, (ast.For, ast.comprehension)):
                target = node.target
                if isinstance(target, ast.Name) and target.id == name:
                    found.append(("element", node.iter))
                elif isinstance(target, ast.Tuple):
                    for index, element in enumerate(target.elts):
                        if isinstance(element, ast.Name) and element.id == name:
                            found.append((f"element[{index}]", node.iter))
        return found

    def plain_name(func: FuncInfo, expr: ast.AST, depth: int) -> bool:
        """a file name listed by os.walk (third element of its tuples)"""
        if isinstance(expr, ast.Name) and depth < 30:
            binds = bindings(func, expr.id)
            return bool(binds) and all(kind == "element" and walk_files(func, it, depth + 1) for kind, it in binds)
        return False

    def walk_files(func: FuncInfo, expr: ast.AST, depth: int) -> bool:
        if isinstance(expr, ast.Name) and depth < 30:
            binds = bindings(func, expr.id)
            return bool(binds) and all(kind == "element[2]" and is_walk(func, it, depth + 1) for kind, it in binds)
        return False

    def is_walk(func: FuncInfo, expr: ast.AST, depth: int) -> bool:
        return isinstance(expr, ast.Call) and dotted(expr.func) == "os.walk" and bool(expr.args) and canonical(func, expr.args[0], depth + 1)

    def separator(expr: ast.AST) -> bool:
        return dotted(expr) in ("os.sep", "os.altsep", "os.path.sep") or (isinstance(expr, ast.Constant) and expr.value in ("/", "\\"))

    def canonical(func: FuncInfo, expr: ast.AST, depth: int = 0) -> bool:
        if depth > 24:
            return False
        if isinstance(expr, ast.Call):
            name = dotted(expr.func) or ""
            if name in CANONICALISERS and expr.args:
                return True
            if isinstance(expr.func, ast.Attribute) and expr.func.attr == "replace" and len(expr.args) == 2 and all(separator(a) for a in expr.args):
                return canonical(func, expr.func.value, depth + 1)
            if name == "os.path.join" and len(expr.args) >= 2:
                return canonical(func, expr.args[0], depth + 1) and all(plain_name(func, a, depth + 1) for a in expr.args[1:])
            return False
        if isinstance(expr, ast.IfExp):
            return canonical(func, expr.body, depth + 1) and canonical(func, expr.orelse, depth + 1)
        if isinstance(expr, ast.Subscript) and isinstance(expr.slice, ast.Slice):
            return canonical(func, expr.value, depth + 1)  # a trailing separator stripped
        if isinstance(expr, ast.JoinedStr):
            parts = [v.value if isinstance(v, ast.FormattedValue) else v for v in expr.values]
            if not parts or not canonical(func, parts[0], depth + 1):
                return False
            return all(separator(part) or plain_name(func, part, depth + 1) for part in parts[1:])
        if isinstance(expr, ast.Name):
            if expr.id in func.params:
                return False
            if expr.id in visiting:
                return True  # a binding in terms of the local itself (x = x[:-1]) keeps what the others establish
            binds = bindings(func, expr.id)
            if not binds:
                return False
            if all(kind == "element" for kind, _ in binds) and not plain_name(func, expr, depth):
                # an element of a local collection: canonical when everything put into that collection is
                return all(elements_canonical(func, iterable, depth + 1) for _kind, iterable in binds)
            visiting.add(expr.id)
            try:
                return all_bindings_canonical(func, binds, depth)
            finally:
                visiting.discard(expr.id)
        return False

    visiting: Set[str] = set()

    def elements_canonical(func: FuncInfo, iterable: ast.AST, depth: int) -> bool:
        if depth > 24:
            return False
        if isinstance(iterable, (ast.ListComp, ast.GeneratorExp, ast.SetComp)):
            return canonical(func, iterable.elt, depth + 1)
        if isinstance(iterable, (ast.List, ast.Tuple, ast.Set)):
            return all(canonical(func, e, depth + 1) for e in iterable.elts)
        if isinstance(iterable, ast.Name):
            binds = bindings(func, iterable.id)
            return bool(binds) and all(kind == "value" and elements_canonical(func, value, depth + 1) for kind, value in binds)
        return False

    def all_bindings_canonical(func: FuncInfo, binds: List[Tuple[str, ast.AST]], depth: int) -> bool:
        for kind, value in binds:
            if kind == "value":
                if not canonical(func, value, depth + 1):
                    return False
            elif kind == "element[0]":
                if not is_walk(func, value, depth + 1):  # the roots os.walk yields extend its top
                    return False
            else:
                return False
        return True

    for func in scanner.methods.values():
        set_params = sorted(carriers.get(func.qualname, set()))
        for node in walk_local(func.node):
            if not (isinstance(node, ast.Call) and isinstance(node.func, ast.Attribute) and node.func.attr in ("add", "update") and isinstance(node.func.value, ast.Name) and node.func.value.id in set_params and node.args):
                continue
            key = func_key(func, node) + " [spelling]"
            spelled = elements_canonical(func, node.args[0], 0) if node.func.attr == "update" else canonical(func, node.args[0])
            if spelled:
                rule.ok(key, "normalised before it is added")
            else:
                rule.fail(key, where(func, node), f"'{norm(node.args[0])}' enters the set of files as the user spelled it: the same file reached through another spelling ('./d/a.md', 'd//a.md', a directory next to a file argument) is selected and processed twice")


def r19i(ctx: Context) -> None:
    prog = ctx.prog
    rule = ctx.rule("R19i", "globs are expanded without the recursive flag (as documented)", 1)
    doc = " ".join(prog.source.read("newdocs/src/user-guide.md").split())
    # the pinned user guide says "the `recursive` flag to the `glob.glob` function is not enabled"; a page that says it is
    # enabled would turn the obligation around, any other wording keeps the pinned reading
    if _re_search(r"`recursive` flag[^.]*\bis enabled", doc):
        raise AnalysisError("user guide: the page now says that glob's recursive flag is enabled; the rule was written for the opposite statement")
    func = prog.method(AFS, "determine_files_to_scan")
    sites = [s for f in prog.cls(AFS).methods.values() for s in prog.sites_in(f) if s.external in ("glob.glob", "glob.iglob")]
    if not sites:
        raise AnalysisError("no glob expansion found in the file scanner")
    for site in sites:
        key = func_key(site.caller, site.node) + " [recursive]"
        extra = [norm(a) for a in site.node.args[1:]] + [f"{k.arg}={norm(k.value)}" for k in site.node.keywords if not (k.arg == "recursive" and isinstance(k.value, ast.Constant) and k.value.value is False)]
        if extra:
            rule.fail(key, site.where, f"the glob is expanded with {extra}: the user guide says the recursive flag is not enabled ('**' matches one level, --recurse only governs directories)")
        else:
            rule.ok(key, "glob.glob(pattern)")
    _ = func


STATE_MUTATORS = {"add", "update", "append", "extend", "insert", "pop", "remove", "clear", "discard", "setdefault", "popitem", "sort", "reverse"}


def r19j(ctx: Context) -> None:
    """'Independent of the order of the arguments': what one argument selects may depend on that
    argument, the flags and the file system only.  Apart from the result set itself (whose adds
    commute) and the error flag, nothing that is changed while one argument is expanded may be
    visible when the next one is."""
    prog = ctx.prog
    rule = ctx.rule("R19j", "arguments are expanded independently: no mutable state besides the result set is shared between them", 2)
    func, set_name = discovery_set(prog)
    from sa.util import param_by_annotation

    paths_param = param_by_annotation(func, "List[str]", exact=True)
    loop = None
    for stmt in func.node.body:  # a for statement, or a statement holding a comprehension / generator, over the path arguments
        iterables = [n.iter for n in ast.walk(stmt) if isinstance(n, (ast.For, ast.comprehension))]
        if any(isinstance(it, ast.Name) and it.id == paths_param for it in iterables):
            loop = stmt
            break
    if loop is None:
        raise AnalysisError("determine_files_to_scan: the iteration over the path arguments was not found")
    before = {}
    for stmt in func.node.body:
        if stmt is loop:
            break
        for node in ast.walk(stmt):
            targets = node.targets if isinstance(node, ast.Assign) else [node.target] if isinstance(node, ast.AnnAssign) and node.value is not None else []
            for target in targets:
                if isinstance(target, ast.Name):
                    before[target.id] = node
    used_in_loop = {n.id for n in ast.walk(loop) if isinstance(n, ast.Name)}
    scanner = prog.cls(AFS)
    for name in sorted(set(before) & used_in_loop):
        typ = prog.env_of(func).get(name)
        key = f"{func.short}: {name}"
        if name == set_name:
            rule.ok(key, "the result set")
            continue
        if not (typ and typ[0] in ("set", "list", "dict")):
            continue
        carriers = forward_taint(prog, [(func, name)], any_expression=False)
        mutation = None
        for method in scanner.methods.values():
            names = carriers.get(method.qualname, set())
            for node in walk_local(method.node):
                if isinstance(node, ast.Call) and isinstance(node.func, ast.Attribute) and node.func.attr in STATE_MUTATORS and isinstance(node.func.value, ast.Name) and node.func.value.id in names:
                    mutation = (method, node)
                elif isinstance(node, (ast.Assign, ast.AugAssign, ast.Delete)):
                    targets = node.targets if isinstance(node, (ast.Assign, ast.Delete)) else [node.target]
                    for target in targets:
                        if isinstance(target, ast.Subscript) and isinstance(target.value, ast.Name) and target.value.id in names:
                            mutation = (method, node)
        if mutation is None:
            rule.ok(key, "read-only while the arguments are expanded")
        else:
            rule.fail(key, where(mutation[0], mutation[1]), f"'{name}' is created once, changed while one argument is expanded ({mutation[0].short}: '{norm(mutation[1])[:60]}') and consulted for the next: the selection depends on which arguments came before")


def r19k(ctx: Context) -> None:
    """'However many arguments reach it, in any order': whether an argument counts as an error is a matter of that
    argument alone.  A decision that reads the set of files selected so far (its size, its contents) makes the
    verdict on one argument depend on the arguments before it - a glob whose files an earlier argument already
    selected 'adds nothing'."""
    prog = ctx.prog
    rule = ctx.rule("R19k", "no error decision of discovery reads the set of files selected so far", 2)
    root_func, root_set = discovery_set(prog)
    carriers = forward_taint(prog, [(root_func, root_set)], any_expression=False)
    _disc, flag, raising_ids = common.discovery_error_flag(prog)
    scanner = prog.cls(AFS)
    for qual, names in sorted(carriers.items()):
        func = prog.functions[qual]
        if func.cls != scanner:
            continue
        derived: Set[str] = set(names)

        def reads_selection(expr: ast.AST) -> bool:
            """the value of ``expr`` depends on what the set holds (not: the set is handed to a helper that fills it)"""
            for sub in ast.walk(expr):
                if isinstance(sub, ast.Name) and sub.id in derived and sub.id not in names:
                    return True
                if isinstance(sub, ast.Compare) and any(isinstance(side, ast.Name) and side.id in names for side in [sub.left] + list(sub.comparators)):
                    return True
                if isinstance(sub, ast.BinOp) and any(isinstance(side, ast.Name) and side.id in names for side in (sub.left, sub.right)):
                    return True
                if isinstance(sub, ast.Call):
                    site = site_for(prog, func, sub)
                    builtin = site is not None and not site.targets and (site.external or "").startswith("builtins.")
                    if builtin and any(isinstance(a, ast.Name) and a.id in names for a in sub.args):
                        return True
                    if isinstance(sub.func, ast.Attribute) and isinstance(sub.func.value, ast.Name) and sub.func.value.id in names and sub.func.attr not in ("add", "update", "discard", "remove", "clear"):
                        return True
                if isinstance(sub, (ast.UnaryOp,)) and isinstance(sub.op, ast.Not) and isinstance(sub.operand, ast.Name) and sub.operand.id in names:
                    return True
            return False

        changed = True
        while changed:
            changed = False
            for node in walk_local(func.node):
                if isinstance(node, (ast.Assign, ast.AnnAssign)) and getattr(node, "value", None) is not None and reads_selection(node.value):
                    targets = node.targets if isinstance(node, ast.Assign) else [node.target]
                    for target in targets:
                        for sub in ast.walk(target):
                            if isinstance(sub, ast.Name) and sub.id not in derived:
                                derived.add(sub.id)
                                changed = True
        verdicts: List[Tuple[ast.AST, str]] = []
        for node in walk_local(func.node):
            if isinstance(node, (ast.Assign, ast.AnnAssign)) and getattr(node, "value", None) is not None and id(node.value) in raising_ids:
                verdicts.append((node, f"'{flag}' is raised"))
            elif isinstance(node, ast.Return) and func != root_func and isinstance(node.value, ast.Constant) and node.value.value is False:
                verdicts.append((node, "the helper answers 'not usable'"))
            elif isinstance(node, ast.Call):
                site = site_for(prog, func, node)
                if site is not None and isinstance(node.func, ast.Name) and node.func.id in func.params and "error" in node.func.id:
                    verdicts.append((node, "an error is reported"))
        for node, what in verdicts:
            key = func_key(func, node) + " [own argument only]"
            bad = [test for test, _pol in guards_of(func.node, node, include_asserts=False) if reads_selection(test) or (isinstance(test, ast.Name) and test.id in names)]
            if bad:
                rule.fail(key, where(func, node), f"{what} under '{norm(bad[0])[:80]}', which reads the set of files selected so far: whether this argument is an error depends on the arguments that came before it (a file or glob that adds nothing new is reported as unusable)")
            else:
                rule.ok(key, f"{what} on the argument's own outcome")


def r19l(ctx: Context) -> None:
    """'All descendants with --recurse' and 'the expansion of a glob': what the operating system lists is what is
    considered.  The walk's list of sub-directories may not be edited (os.walk descends only into what is left in it),
    and the paths a glob expands to may not be thinned out before each is handed to the per-path function - a
    directory that a glob yields contributes its files, a dot-directory is a directory."""
    prog = ctx.prog
    rule = ctx.rule("R19l", "the directory walk is not pruned and the expansion of a glob is not filtered", 2)
    scanner = prog.cls(AFS)
    walks = 0
    globs = 0
    for func in sorted(scanner.methods.values(), key=lambda f: f.qualname):
        for loop in [n for n in walk_local(func.node) if isinstance(n, (ast.For, ast.comprehension))]:
            source = loop.iter
            if isinstance(source, ast.Name):  # a local holding the listing
                bound = [n.value for n in walk_local(func.node) if isinstance(n, ast.Assign) and any(isinstance(t, ast.Name) and t.id == source.id for t in n.targets)]
                source = bound[0] if len(bound) == 1 else source
            calls = [c for c in ast.walk(source) if isinstance(c, ast.Call)]
            is_walk = any((dotted(c.func) or "") == "os.walk" for c in calls)
            is_glob = any((dotted(c.func) or "") in ("glob.glob", "glob.iglob") for c in calls)
            if is_walk and isinstance(loop, ast.For):
                walks += 1
                key = func_key(func, loop) + " [walk not pruned]"
                dirs = loop.target.elts[1] if isinstance(loop.target, ast.Tuple) and len(loop.target.elts) == 3 else None
                edits = []
                if isinstance(dirs, ast.Name) and dirs.id != "_":
                    for node in [n for stmt in loop.body for n in ast.walk(stmt)]:
                        if isinstance(node, (ast.Assign, ast.AugAssign, ast.Delete)):
                            targets = node.targets if isinstance(node, (ast.Assign, ast.Delete)) else [node.target]
                            if any((isinstance(t, ast.Subscript) and isinstance(t.value, ast.Name) and t.value.id == dirs.id) or (isinstance(t, ast.Name) and t.id == dirs.id and isinstance(node, ast.AugAssign)) for t in targets):
                                edits.append(node)
                        if isinstance(node, ast.Call) and isinstance(node.func, ast.Attribute) and isinstance(node.func.value, ast.Name) and node.func.value.id == dirs.id \
                                and node.func.attr in ("remove", "pop", "clear", "sort", "reverse", "insert", "append", "extend"):
                            edits.append(node)
                if edits:
                    rule.fail(key, where(func, edits[0]), f"the walk's list of sub-directories is edited ('{norm(edits[0])[:70]}'): os.walk descends only into what is left in it, so descendants that --recurse promises are never visited")
                else:
                    rule.ok(key, "the list of sub-directories is left alone")
            if is_glob:
                globs += 1
                key = func_key(func, loop if isinstance(loop, ast.For) else loop.iter) + " [glob not filtered]"
                filters = list(loop.ifs) if isinstance(loop, ast.comprehension) else []
                # a comprehension over the expansion that feeds the loop counts as part of it
                if isinstance(source, (ast.ListComp, ast.GeneratorExp, ast.SetComp)):
                    filters += [cond for gen in source.generators for cond in gen.ifs]
                if filters:
                    rule.fail(key, where(func, filters[0]), f"the paths a glob expands to are filtered by '{norm(filters[0])[:70]}' before they are handed on: a directory (or whatever else the filter drops) that the pattern matches no longer contributes its files, and a pattern matching only such paths becomes the 'did not match' error")
                else:
                    rule.ok(key, "every path of the expansion is handed on")
    if walks < 1 or globs < 1:
        raise AnalysisError(f"{walks} directory walk(s) and {globs} glob expansion loop(s) found in the file scanner (1 and 1 confirmed)")


def run(ctx: Context) -> None:
    r19a(ctx)
    r19b(ctx)
    r19c(ctx)
    common.discovery_flag_consulted(ctx, "R19d")
    r19d_listing(ctx)
    r19e(ctx)
    r19f(ctx)
    r19g(ctx)
    r19h(ctx)
    r19i(ctx)
    r19j(ctx)
    r19k(ctx)
    r19l(ctx)
