"""C20 — extensions are inert unless enabled and needed; front matter only shifts lines."""

from __future__ import annotations

import ast
from typing import Dict, List, Optional, Set, Tuple

from sa.model import AnalysisError, ClassInfo, FuncInfo, Program, dotted, norm, walk_local
from sa.report import Context
from sa.util import func_key, guards_of, md_tables, returns_of, site_for, strip_code, where

EXPLANATION = (
    "Decides, from /repo's current source: R20a every direct call of, and every reference to, a function defined in "
    "pymarkdown/extensions from the parser packages (block, container, leaf, list, link, inline, html, coalesce, "
    "general) is control-dependent — locally, through all callers, or through a container all of whose writers are "
    "gated — on the enabled flag of the extension that defines it; calls through the inline handler table are covered "
    "by the gate on their registration; the '~' delimiter joins the emphasis characters only under the "
    "strike-through flag; R20b each is_*_enabled value is exactly 'this extension's identifier is in the enabled "
    "list', the enabled list receives an identifier only when its enabled decision is true, and the copies kept by "
    "the parser properties pair each flag with the same-named manager flag; R20c front matter is looked for before "
    "the block pass loop and only under its flag; R20d each extension's documentation page states the identifier "
    "and the enabled default the code uses; R20f conversely, every test of an extension flag in the parser (or of a proxy for it: 'the extension's delimiter is in the gated emphasis set') opens a region in which that extension is used (directly or through a parser helper within three calls) - a flag test that only steers ordinary parser logic changes the parse of documents that do not contain the extension's syntax; R20e (=R11e) the per-document state of the pragma extension is re-created for every document, so a document without pragma syntax never carries pragmas. R20g the call into the YAML library from the front-matter extension sits under a handler for the root of that library's exceptions, so a block that is not loadable YAML falls back to plain Markdown whatever the library raises; R20h the disallowed-tag decision compares whole tag names (no prefix / suffix / substring / unanchored-pattern construct). Not decided in general: that an enabled extension changes only documents containing "
    "its syntax, and that front matter shifts positions by exactly the block's length (run-time behaviour)."
)
ASSUMPTIONS = ["extension code is reached only through the sites enumerated by R20a (the call graph resolves ~100 % of call sites; checked by the resolution floor)"]

PARSER_PACKAGES = (
    "pymarkdown/block_quotes/", "pymarkdown/coalesce/", "pymarkdown/container_blocks/", "pymarkdown/general/",
    "pymarkdown/html/", "pymarkdown/inline/", "pymarkdown/leaf_blocks/", "pymarkdown/links/", "pymarkdown/list_blocks/",
    "pymarkdown/tokens/",
)
# extension module -> flag name fragments that gate it
FLAGS = {
    "front_matter_extension": ("front_matter_enabled",),
    "front_matter_markdown_token": ("front_matter_enabled",),
    "pragma_token": ("pragmas_enabled",),
    "task_list_items": ("task_list",),
    "extended_autolinks": ("extended_autolinks_enabled",),
    "disallowed_raw_html": ("disallow_raw_html",),
    "markdown_strikethrough": ("strike_through_enabled",),
}
NEUTRAL = {"register_for_markdown_transform", "register_for_html_transform", "get_markdown_token_type", "get_identifier", "get_details", "get_token_types"}
EM = "pymarkdown.extension_manager.extension_manager.ExtensionManager"
PBP = "pymarkdown.container_blocks.parse_block_pass_properties.ParseBlockPassProperties"
FLAG_CLASSES = {
    "is_front_matter_enabled": "FrontMatterExtension",
    "is_linter_pragmas_enabled": "PragmaExtension",
    "is_disallow_raw_html_enabled": "MarkdownDisallowRawHtmlExtension",
    "is_task_list_items_enabled": "MarkdownTaskListItemsExtension",
    "is_strike_through_enabled": "MarkdownStrikeThroughExtension",
    "is_extended_autolinks_enabled": "MarkdownExtendedAutolinksExtension",
}


def _ext_module(func: FuncInfo) -> Optional[str]:
    if func.rel.startswith("pymarkdown/extensions/"):
        return func.rel.split("/")[-1][:-3]
    return None


def _gated_locally(func: FuncInfo, node: ast.AST, fragments: Tuple[str, ...]) -> Optional[str]:
    # an assert states a belief; only a test that steers control is a gate
    for test, polarity in guards_of(func.node, node, include_asserts=False):
        text = norm(test)
        if polarity and any(fragment in text for fragment in fragments):
            return text
    return None


def _derived_gate(prog: Program, func: FuncInfo, node: ast.AST, fragments: Tuple[str, ...]) -> Optional[str]:
    """A non-emptiness test of a container all of whose writers are gated (pragma_lines)."""
    for test, polarity in guards_of(func.node, node):
        if not polarity:
            continue
        if isinstance(test, ast.Attribute) and test.attr == "pragma_lines":
            writers_ok = True
            writers = 0
            for other in prog.iter_functions():
                for sub in walk_local(other.node):
                    if isinstance(sub, ast.Assign) and isinstance(sub.targets[0], ast.Subscript) and isinstance(sub.targets[0].value, ast.Attribute) and sub.targets[0].value.attr == "pragma_lines":
                        writers += 1
                        if not _gated(prog, other, sub, fragments, set()):
                            writers_ok = False
            if writers and writers_ok:
                return f"{norm(test)} (all {writers} writer(s) gated)"
        if "is_pragma" in norm(test) and "pragmas_enabled" in fragments[0]:
            return norm(test) + " (a pragma token exists only when the recogniser ran)"
    return None


def _gated(prog: Program, func: FuncInfo, node: ast.AST, fragments: Tuple[str, ...], seen: Set[str]) -> Optional[str]:
    local = _gated_locally(func, node, fragments)
    if local:
        return local
    derived = _derived_gate(prog, func, node, fragments)
    if derived:
        return derived
    if func.qualname in seen or len(seen) > 6:
        return None
    callers = [s for s in prog.callers.get(func.qualname, []) if not s.wild]
    if not callers:
        return None
    reasons = []
    for site in callers:
        reason = _gated(prog, site.caller, site.node, fragments, seen | {func.qualname})
        if reason is None:
            return None
        reasons.append(f"{site.caller.short}: {reason}")
    return "all callers gated [" + "; ".join(reasons[:3]) + "]"


def r20a(ctx: Context) -> None:
    prog = ctx.prog
    rule = ctx.rule("R20a", "parser code reaches extension code only under that extension's flag", 10)
    seen_keys: Set[str] = set()
    for func in prog.iter_functions():
        if not func.rel.startswith(PARSER_PACKAGES):
            continue
        for node in walk_local(func.node):
            targets: List[FuncInfo] = []
            kind = ""
            if isinstance(node, ast.Call):
                site = site_for(prog, func, node)
                if site and not site.dynamic:
                    targets = [t for t in site.targets if _ext_module(t)]
                    kind = "call"
            elif isinstance(node, ast.Attribute) and isinstance(node.ctx, ast.Load):
                typ = prog.infer(func, node)
                if typ and typ[0] == "func" and _ext_module(typ[1]):
                    targets, kind = [typ[1]], "reference"
            for target in targets:
                if target.name in NEUTRAL or target.kind == "property":
                    continue
                module = _ext_module(target) or ""
                fragments = FLAGS.get(module)
                key = f"{func.short} -> {target.short} [{kind}]"
                if key in seen_keys:
                    continue
                seen_keys.add(key)
                if fragments is None:
                    rule.fail(key, where(func, node), f"parser code uses {target.short} from extension module '{module}', for which no enabled flag is known")
                    continue
                reason = _gated(prog, func, node, fragments, set())
                if reason:
                    rule.ok(key, f"gated: {reason[:160]}")
                else:
                    rule.fail(key, where(func, node), f"{func.short} reaches {target.short} without testing the '{fragments[0]}' flag (neither here nor in every caller): the extension acts on documents although it is disabled")
    # strike-through: the '~' character joins the emphasis set only under the flag
    init = prog.method("pymarkdown.inline.emphasis_helper.EmphasisHelper", "initialize")
    adds = [n for n in walk_local(init.node) if isinstance(n, ast.AugAssign) and "inline_emphasis" in norm(n.target)]
    base = [n for n in walk_local(init.node) if isinstance(n, ast.Assign) and any("inline_emphasis" in norm(t) for t in n.targets)]
    for node in adds:
        key = func_key(init, node)
        if _gated_locally(init, node, FLAGS["markdown_strikethrough"]):
            rule.ok(key, "under is_strike_through_enabled")
        else:
            rule.fail(key, where(init, node), "a delimiter character is added to the emphasis set without the strike-through flag: '~~text~~' is parsed as strike-through although the extension is disabled")
    for node in base:
        if "strikethrough" in norm(node.value):
            rule.fail(func_key(init, node), where(init, node), "the base emphasis set already contains the strike-through delimiter")
    if not adds:
        raise AnalysisError("EmphasisHelper.initialize no longer extends the emphasis characters (anchor moved)")


def r20b(ctx: Context) -> None:
    prog = ctx.prog
    rule = ctx.rule("R20b", "enabled flags mean 'this extension's id is in the enabled list'", 12)
    manager = prog.cls(EM)
    apply_fn = prog.method(EM, "apply_configuration")
    # the functions that run, unconditionally, whenever the configuration is applied
    apply_closure = [apply_fn]
    for site in prog.sites_in(apply_fn):
        if not guards_of(apply_fn.node, site.node):
            apply_closure.extend(t for t in site.targets if t.cls == manager and t not in apply_closure)
    # each property must evaluate to '<its extension class>().get_identifier() in <enabled list>' - returned
    # directly, through a field that apply_configuration assigns once and unconditionally, or through a helper
    def resolve(func: FuncInfo, expr: ast.AST, bindings: Dict[str, ast.AST], depth: int = 0) -> Tuple[Optional[str], Optional[str], str]:
        """(extension class, list attribute, problem)"""
        if depth > 4:
            return None, None, "too deep"
        if isinstance(expr, ast.Name) and expr.id in bindings:
            return resolve(func, bindings[expr.id], {}, depth + 1)
        if isinstance(expr, ast.Compare) and len(expr.ops) == 1 and isinstance(expr.ops[0], ast.In):
            left, right = expr.left, expr.comparators[0]
            if isinstance(left, ast.Call) and isinstance(left.func, ast.Attribute) and left.func.attr == "get_identifier":
                owner = left.func.value
                if isinstance(owner, ast.Name) and owner.id in bindings:
                    owner = bindings[owner.id]
                if isinstance(owner, ast.Call) and isinstance(owner.func, ast.Name) and isinstance(right, ast.Attribute) and right.attr.endswith("enabled_extensions"):
                    return owner.func.id, right.attr, ""
            return None, None, f"computed as '{norm(expr)[:80]}'"
        if isinstance(expr, ast.Attribute) and isinstance(expr.value, ast.Name) and func.params and expr.value.id == func.params[0]:
            field = expr.attr
            writers = [(m, n) for m in manager.methods.values() for n in walk_local(m.node) if isinstance(n, (ast.Assign, ast.AnnAssign)) and getattr(n, "value", None) is not None
                       and any(isinstance(t, ast.Attribute) and t.attr == field for t in (n.targets if isinstance(n, ast.Assign) else [n.target]))]
            outside = [(m, n) for m, n in writers if m not in apply_closure and m.name != "__init__"]
            if outside:
                return None, None, f"'{field}' is also written by {outside[0][0].short}"
            inside = [(m, n) for m, n in writers if m in apply_closure]
            if len(inside) != 1:
                return None, None, f"'{field}' is assigned {len(inside)} times while the configuration is applied"
            writer, assignment = inside[0]
            if guards_of(writer.node, assignment):
                return None, None, f"'{field}' is assigned conditionally"
            return resolve(writer, assignment.value, {}, depth + 1)
        if isinstance(expr, ast.Call) and isinstance(expr.func, ast.Name):
            # a function defined inside this one (a local closure)
            nested = [n for n in ast.walk(func.node) if isinstance(n, ast.FunctionDef) and n is not func.node and n.name == expr.func.id]
            if len(nested) == 1:
                returned = [r.value for r in ast.walk(nested[0]) if isinstance(r, ast.Return) and r.value is not None]
                parameters = [a.arg for a in nested[0].args.args]
                if len(returned) == 1 and len(parameters) == len(expr.args):
                    return resolve(func, returned[0], dict(zip(parameters, expr.args)), depth + 1)
        if isinstance(expr, ast.Call):
            site = site_for(prog, func, expr)
            if site and len(site.targets) == 1 and site.targets[0].cls == manager:
                helper = site.targets[0]
                returned = returns_of(helper)
                if len(returned) == 1:
                    bound = Program.bind_args(helper, expr, skip_self=helper.kind == "instance")
                    return resolve(helper, returned[0], {k: v for k, v in bound.items() if v is not None}, depth + 1)
        return None, None, f"computed as '{norm(expr)[:80]}'"

    for prop, cls_name in FLAG_CLASSES.items():
        key = f"ExtensionManager.{prop}"
        method = manager.methods.get(prop)
        returned = returns_of(method) if method is not None and method.kind == "property" else []
        if len(returned) != 1:
            rule.fail(key, where(apply_fn), f"property {prop} is missing or does not return a field")
            continue
        found_cls, list_attr, problem = resolve(method, returned[0], {})
        if found_cls == cls_name and list_attr:
            rule.ok(key, f"{cls_name}().get_identifier() in {list_attr}")
        elif found_cls:
            rule.fail(key, where(method), f"{prop} is '{found_cls}().get_identifier() in {list_attr}', not the flag of {cls_name}: the flag follows another extension")
        else:
            rule.fail(key, where(method), f"{prop} is not '{cls_name}().get_identifier() in <enabled list>' ({problem}): the flag can be true while the extension is disabled")
    # the enabled list grows only under the enabled decision
    appends = [(holder, n) for holder in apply_closure for n in walk_local(holder.node) if isinstance(n, ast.Call) and isinstance(n.func, ast.Attribute) and n.func.attr == "append" and "enabled_extensions" in norm(n.func.value)]
    for holder, node in appends:
        facts = [norm(t) for t, p in guards_of(holder.node, node) if p]
        key = func_key(holder, node)
        decided = False
        for fact in facts:
            for assign in walk_local(holder.node):
                if isinstance(assign, ast.Assign) and isinstance(assign.value, ast.Call) and "determine_if_extension_enabled" in norm(assign.value.func):
                    names = [norm(e) for t in assign.targets for e in (t.elts if isinstance(t, ast.Tuple) else [t])]
                    if fact in names:
                        decided = True
        if decided:
            rule.ok(key, "appended only when the enabled decision is true")
        else:
            rule.fail(key, where(holder, node), f"an extension id is added to the enabled list under {facts}, not under its enabled decision")
    if not appends:
        raise AnalysisError("apply_configuration never fills the enabled list")
    # parser properties: each copy pairs with the same-named manager flag
    props_init = prog.method(PBP, "__init__")
    pairs = {"front_matter": "is_front_matter_enabled", "pragmas": "is_linter_pragmas_enabled", "disallow_raw_html": "is_disallow_raw_html_enabled", "task_lists": "is_task_list_items_enabled"}
    found = 0
    for node in walk_local(props_init.node):
        if isinstance(node, (ast.Assign, ast.AnnAssign)) and getattr(node, "value", None) is not None:
            for target in (node.targets if isinstance(node, ast.Assign) else [node.target]):
                for tgt, value, _ in Program._unpack(target, node.value):
                    if isinstance(tgt, ast.Attribute) and isinstance(value, ast.Attribute) and value.attr in FLAG_CLASSES:
                        found += 1
                        core = tgt.attr.strip("_").replace("_enabled", "")
                        key = f"ParseBlockPassProperties.{tgt.attr}"
                        if pairs.get(core) == value.attr:
                            rule.ok(key, f"<- {value.attr}")
                        else:
                            rule.fail(key, where(props_init, node), f"'{tgt.attr}' is filled from '{value.attr}': the parser consults another extension's flag")
    if found < 4:
        raise AnalysisError("ParseBlockPassProperties no longer copies the four parser flags")
    props = prog.cls(PBP)
    for prop_name, core in (("is_front_matter_enabled", "front_matter"), ("is_pragmas_enabled", "pragmas"), ("is_disallow_raw_html_enabled", "disallow_raw_html"), ("is_task_lists_enabled", "task_lists")):
        method = props.methods.get(prop_name)
        rets = returns_of(method) if method else []
        key = f"ParseBlockPassProperties.{prop_name}"
        if rets and isinstance(rets[0], ast.Attribute) and core in rets[0].attr:
            rule.ok(key, f"returns {rets[0].attr}")
        else:
            rule.fail(key, where(method) if method else where(props_init), f"{prop_name} does not return the '{core}' flag")


def r20c(ctx: Context) -> None:
    prog = ctx.prog
    rule = ctx.rule("R20c", "front matter is consumed before the block pass loop, under its flag", 2)
    block_pass = prog.method("pymarkdown.general.tokenized_markdown.TokenizedMarkdown", "__parse_blocks_pass")
    helper = prog.method("pymarkdown.general.tokenized_markdown.TokenizedMarkdown", "__process_front_matter_header_if_present")
    sites = [s for s in prog.sites_in(block_pass) if helper in s.targets]
    loops = [n for n in walk_local(block_pass.node) if isinstance(n, ast.While)]
    key = func_key(block_pass) + ": front matter first"
    if len(sites) == 1 and loops and sites[0].node.lineno < min(l.lineno for l in loops):
        rule.ok(key, "before the line loop")
    else:
        rule.fail(key, where(block_pass), "front matter is not looked for exactly once before the block pass loop")
    entry = prog.method("pymarkdown.extensions.front_matter_extension.FrontMatterExtension", "process_header_if_present")
    for site in prog.callers.get(entry.qualname, []):
        skey = func_key(site.caller, site.node)
        if _gated_locally(site.caller, site.node, FLAGS["front_matter_extension"]):
            # and only for the first line of the document
            facts = [norm(t) for t, p in guards_of(site.caller.node, site.node) if p]
            rule.ok(skey, f"under {facts}")
        else:
            rule.fail(skey, site.where, "front matter is processed without the front-matter flag")


def r20d(ctx: Context) -> None:
    prog = ctx.prog
    rule = ctx.rule("R20d", "each extension page documents the identifier and default the code uses", 10)
    base = prog.cls("pymarkdown.extension_manager.parser_extension.ParserExtension")
    code: Dict[str, Tuple[bool, ClassInfo]] = {}
    for cls in base.all_subclasses():
        ident = None
        method = cls.methods.get("get_identifier")
        if method:
            for ret in returns_of(method):
                if isinstance(ret, ast.Constant):
                    ident = ret.value
        details = cls.methods.get("get_details")
        default = None
        if details:
            for ret in returns_of(details):
                if isinstance(ret, ast.Call):
                    for keyword in ret.keywords:
                        if keyword.arg == "extension_enabled_by_default" and isinstance(keyword.value, ast.Constant):
                            default = keyword.value.value
        if ident is not None and default is not None:
            code[str(ident)] = (bool(default), cls)
    pages = prog.source.glob("newdocs/src/extensions", ".md")
    if len(pages) < 5:
        raise AnalysisError("extension documentation pages not found")
    for rel in pages:
        info: Dict[str, str] = {}
        prefixes: List[str] = []
        enabled_row = None
        for table in md_tables(prog.source.read(rel)):
            header = [strip_code(c).lower() for c in table["header"]]
            if header[:2] == ["item", "description"]:
                for row in table["rows"]:
                    if len(row) >= 2:
                        info[row[0].strip().lower()] = strip_code(row[1])
            elif header[:1] == ["prefixes"]:
                prefixes = [strip_code(r[0]) for r in table["rows"] if r]
            elif header[:3] == ["value name", "type", "default"]:
                for row in table["rows"]:
                    if strip_code(row[0]) == "enabled":
                        enabled_row = strip_code(row[2])
        ident = info.get("extension id", "")
        key = f"{rel}: id"
        if ident not in code:
            rule.fail(key, rel, f"the page documents extension id '{ident}', which no extension registers (known: {sorted(code)})")
            continue
        rule.ok(key, ident)
        default, cls = code[ident]
        for label, value in (("default value", info.get("default value")), ("enabled row", enabled_row)):
            if value is None:
                continue
            dkey = f"{rel}: {label}"
            if value.lower() in ("true", "false") and (value.lower() == "true") == default:
                rule.ok(dkey, value)
            else:
                rule.fail(dkey, rel, f"the page says the extension's enabled default is {value}, the code says {default}: a user relying on the page gets a different parse")
        item = info.get("configuration item")
        if item is not None:
            ikey = f"{rel}: configuration item"
            if item == f"extensions.{ident}.enabled":
                rule.ok(ikey, item)
            else:
                rule.fail(ikey, rel, f"documented configuration item '{item}' is not 'extensions.{ident}.enabled'")
        if prefixes:
            pkey = f"{rel}: prefix"
            if prefixes == [f"extensions.{ident}."]:
                rule.ok(pkey, prefixes[0])
            else:
                rule.fail(pkey, rel, f"documented prefix {prefixes} is not 'extensions.{ident}.'")


def r20f(ctx: Context) -> None:
    """The converse of R20a: a test of an extension's flag (or of a proxy for it - 'is the
    extension's delimiter in the gated set') may only open code that uses that extension.  A flag
    test that steers ordinary parser logic makes documents without the extension's syntax parse
    differently once the extension is switched on."""
    prog = ctx.prog
    rule = ctx.rule("R20f", "every test of an extension flag in the parser opens a region that uses that extension, nothing else", 5)
    fragment_to_modules: Dict[str, Set[str]] = {}
    for module, fragments in FLAGS.items():
        for fragment in fragments:
            fragment_to_modules.setdefault(fragment, set()).add(module)
    # proxies: constants added to a container under a flag (the '~' delimiter in the emphasis set)
    proxies: List[Tuple[str, str, str]] = []  # (container attr, element attr, fragment)
    init = prog.method("pymarkdown.inline.emphasis_helper.EmphasisHelper", "initialize")
    for node in walk_local(init.node):
        if isinstance(node, ast.AugAssign) and isinstance(node.target, ast.Attribute) and (isinstance(node.value, ast.Attribute) or isinstance(node.value, ast.Constant) and isinstance(node.value.value, str)):
            gate = _gated_locally(init, node, FLAGS["markdown_strikethrough"])
            if gate:
                # the element is named (an attribute) or spelled out (the literal the name stands for)
                element = node.value.attr if isinstance(node.value, ast.Attribute) else node.value.value
                proxies.append((node.target.attr, element, FLAGS["markdown_strikethrough"][0]))

    def flag_of(test: ast.AST) -> Optional[str]:
        text = norm(test)
        if isinstance(test, (ast.Attribute, ast.Name)):
            for fragment in fragment_to_modules:
                if fragment in text:
                    return fragment
        if isinstance(test, ast.Compare) and len(test.ops) == 1 and isinstance(test.ops[0], (ast.In, ast.NotIn)):
            for container, element, fragment in proxies:
                left_is_element = isinstance(test.left, ast.Attribute) and test.left.attr == element or isinstance(test.left, ast.Constant) and test.left.value == element
                if left_is_element and isinstance(test.comparators[0], ast.Attribute) and test.comparators[0].attr == container:
                    return fragment
        return None

    closure_cache: Dict[Tuple[str, str], bool] = {}

    def helper_uses_extension(target: FuncInfo, fragment: str, depth: int) -> bool:
        """a parser helper that (within three calls) uses the extension: calling it is using the extension"""
        mark = (target.qualname, fragment)
        if mark in closure_cache:
            return closure_cache[mark]
        closure_cache[mark] = False
        found = any(uses_extension(target, n, fragment, depth + 1) for n in walk_local(target.node) if isinstance(n, (ast.Call, ast.Attribute, ast.Name, ast.AugAssign)))
        closure_cache[mark] = found
        return found

    def uses_extension(func: FuncInfo, node: ast.AST, fragment: str, depth: int = 0) -> bool:
        modules = fragment_to_modules[fragment]
        if isinstance(node, ast.Call):
            site = site_for(prog, func, node)
            if site and any((_ext_module(t) or "") in modules for t in site.targets):
                return True
            if site and depth < 3 and not site.dynamic and any(t.rel.startswith(PARSER_PACKAGES) and helper_uses_extension(t, fragment, depth) for t in site.targets):
                return True
        if isinstance(node, ast.Attribute) and isinstance(node.ctx, ast.Load):
            typ = prog.infer(func, node)
            if typ and typ[0] == "func" and (_ext_module(typ[1]) or "") in modules:
                return True
            if typ and typ[0] in ("cls", "type") and typ[1].module.rel.startswith("pymarkdown/extensions/") and typ[1].module.rel.split("/")[-1][:-3] in modules:
                return True
        if isinstance(node, ast.Name) and isinstance(node.ctx, ast.Load):
            typ = prog.infer(func, node)
            if typ and typ[0] in ("cls", "type") and typ[1].module.rel.startswith("pymarkdown/extensions/") and typ[1].module.rel.split("/")[-1][:-3] in modules:
                return True
        if isinstance(node, ast.AugAssign) and isinstance(node.target, ast.Attribute) and any(node.target.attr == c for c, _e, f in proxies if f == fragment):
            return True
        return False

    for func in prog.iter_functions():
        if not func.rel.startswith(PARSER_PACKAGES):
            continue
        atoms: List[Tuple[ast.AST, str]] = []
        for node in walk_local(func.node):
            tests: List[ast.AST] = []
            if isinstance(node, (ast.If, ast.While, ast.IfExp)):
                tests = [node.test]
            for test in tests:
                stack = [test]
                while stack:
                    current = stack.pop()
                    if isinstance(current, ast.BoolOp):
                        stack.extend(current.values)
                    elif isinstance(current, ast.UnaryOp) and isinstance(current.op, ast.Not):
                        stack.append(current.operand)
                    else:
                        fragment = flag_of(current)
                        if fragment:
                            atoms.append((current, fragment))
        if not atoms:
            continue
        candidates = [n for n in walk_local(func.node) if isinstance(n, (ast.Call, ast.Attribute, ast.Name, ast.AugAssign))]
        for atom, fragment in atoms:
            key = func_key(func, atom) + " [flag region]"
            enabling = isinstance(atom, ast.Compare) and isinstance(atom.ops[0], ast.NotIn)
            used = False
            for node in candidates:
                if not uses_extension(func, node, fragment):
                    continue
                for test, polarity in guards_of(func.node, node, include_asserts=False):
                    if test is atom and polarity != enabling:
                        used = True
                        break
                if used:
                    break
            if used:
                rule.ok(key, f"the region opened by '{norm(atom)[:60]}' uses the extension")
            else:
                rule.fail(key, where(func, atom), f"'{norm(atom)[:80]}' tests whether an extension is enabled, but nothing that runs only when it holds belongs to that extension: the test steers ordinary parser logic, so documents without the extension's syntax parse differently once it is enabled")


# third-party parsers called from inside the parse pipeline, and the root of their exception hierarchy: a handler
# for a sub-family (yaml.MarkedYAMLError: scanner / parser / composer / constructor errors) lets the rest through
# (yaml.reader.ReaderError for a control character, ...)
LIBRARY_ERROR_ROOTS = {"yaml": {"YAMLError", "Exception", "BaseException"}}


def library_errors_contained(ctx: Context, rule_id: str = "R20g") -> None:
    """'A block that is not valid YAML is fed back to the normal processor': whatever the library raises for a text
    it cannot load must be caught where the extension calls it - otherwise enabling the extension turns a document
    that plain CommonMark parses into a tokenization error."""
    prog = ctx.prog
    rule = ctx.rule(rule_id, "every call into a third-party parser from the parse pipeline is enclosed by a handler for the library's root exception", 1)
    found = 0
    for func in prog.iter_functions():
        if not (func.rel.startswith(PARSER_PACKAGES) or func.rel.startswith("pymarkdown/extensions/")):
            continue
        for site in prog.sites_in(func):
            library = (site.external or "").split(".")[0]
            if library not in LIBRARY_ERROR_ROOTS or site.targets:
                continue
            found += 1
            key = func_key(func, site.node)
            caught: Set[str] = set()
            for candidate in walk_local(func.node):
                if isinstance(candidate, ast.Try) and any(sub is site.node for stmt in candidate.body for sub in ast.walk(stmt)):
                    for handler in candidate.handlers:
                        if handler.type is None:
                            caught.add("BaseException")
                        else:
                            for sub in (handler.type.elts if isinstance(handler.type, ast.Tuple) else [handler.type]):
                                caught.add((dotted(sub) or "").split(".")[-1])
            if caught & LIBRARY_ERROR_ROOTS[library]:
                rule.ok(key, f"{site.external} under a handler for {sorted(caught & LIBRARY_ERROR_ROOTS[library])}")
            else:
                rule.fail(key, site.where, f"{site.external} is called with document text under handlers for {sorted(caught) or 'nothing'} only: the other errors of the library ({library}.YAMLError is the root; e.g. ReaderError for a control character, or ComposerError / ConstructorError when only scanner and parser errors are named) escape and the document ends as a tokenization error instead of being parsed as plain Markdown")
    if found == 0:
        raise AnalysisError("no call into the YAML library found in the parse pipeline (front matter anchor moved)")


def r20h(ctx: Context) -> None:
    """'Enabling an extension changes the parse only of documents that contain its syntax': the syntax of the
    disallowed-raw-HTML extension is the configured tag names, whole.  Its decision function may compare the tag
    name with those names; anything that accepts a part of the name (prefix / suffix tests, unanchored or
    start-anchored regular-expression matching, substring search) also filters tags nobody configured."""
    prog = ctx.prog
    rule = ctx.rule("R20h", "the disallowed-tag decision compares whole tag names (no prefix, suffix, substring or unanchored pattern match)", 1)
    decide = prog.method("pymarkdown.extensions.disallowed_raw_html.MarkdownDisallowRawHtmlExtension", "is_html_tag_disallowed")
    closure = [prog.functions[q] for q in sorted(prog.reachable([decide])) if prog.functions[q].cls == decide.cls]
    partial = {"startswith", "endswith", "find", "rfind", "index", "rindex", "match", "search", "findall", "finditer", "partition", "rpartition"}
    problems = 0
    for func in closure:
        for node in walk_local(func.node):
            if isinstance(node, ast.Call) and isinstance(node.func, ast.Attribute) and node.func.attr in partial:
                problems += 1
                rule.fail(func_key(func, node), where(func, node), f"'{norm(node)[:70]}' accepts a tag whose name merely starts with / contains a configured name ('{node.func.attr}' is not a whole-name comparison): with the extension enabled, tags that were never disallowed (<titlebar>, <scripts>, ...) are filtered, so documents without the extension's syntax parse differently")
            if isinstance(node, ast.Compare) and len(node.ops) == 1 and isinstance(node.ops[0], (ast.In, ast.NotIn)):
                typ = prog.infer(func, node.comparators[0])
                if typ and typ[0] == "str":
                    problems += 1
                    rule.fail(func_key(func, node), where(func, node), f"'{norm(node)[:70]}' is a substring test on a string, not a membership test in the set of disallowed names")
    if not problems:
        rule.ok(func_key(decide), f"{len(closure)} function(s): whole-name comparison only")


def run(ctx: Context) -> None:
    r20a(ctx)
    r20b(ctx)
    r20c(ctx)
    r20d(ctx)
    r20f(ctx)
    library_errors_contained(ctx)
    r20h(ctx)
    from sa.rules import c11

    # a document without an extension's syntax must not inherit that extension's state from an earlier one
    c11.r11e(ctx)
    ctx.rules[-1].rule_id = "R20e"
    for finding in ctx.rules[-1].findings:
        finding.rule = "R20e"
