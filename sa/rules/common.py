"""Rules shared by several properties (each is registered under the caller's rule id)."""

from __future__ import annotations

import ast
from typing import Dict, List, Optional, Set, Tuple

from sa.cfg import CFG
from sa.model import AnalysisError, FuncInfo, Program, dotted, norm, walk_local
from sa.report import Context
from sa.util import (
    all_paths_pass,
    describe_path,
    func_key,
    names_read,
    reaching_values,
    returns_of,
    site_for,
    where,
)

FSH = "pymarkdown.file_scan_helper.FileScanHelper"
MAIN = "pymarkdown.main.PyMarkdownLint"
PM = "pymarkdown.plugin_manager.plugin_manager.PluginManager"


# --------------------------------------------------------------------------------------
# status functions: convert an exception into a boolean "did succeed" result
# --------------------------------------------------------------------------------------


def _returns_bool(func: FuncInfo) -> bool:
    ret = func.returns
    if ret == ("bool",):
        return True
    return bool(ret and ret[0] == "tuple" and any(t == ("bool",) for t in ret[1]))


def status_functions(prog: Program) -> List[FuncInfo]:
    """Functions of the run driver that turn a caught exception into a boolean status, plus
    (transitively) functions returning such a status."""
    base: List[FuncInfo] = []
    for func in prog.iter_functions("pymarkdown.file_scan_helper."):
        if not _returns_bool(func):
            continue
        handlers = [n for n in walk_local(func.node) if isinstance(n, ast.ExceptHandler)]
        swallowing = [h for h in handlers if not (h.body and isinstance(h.body[-1], ast.Raise) and len(h.body) <= 2)]
        if swallowing:
            base.append(func)
    changed = True
    result = list(base)
    while changed:
        changed = False
        for func in prog.iter_functions("pymarkdown.file_scan_helper."):
            if func in result or not _returns_bool(func):
                continue
            for ret in returns_of(func):
                for value in reaching_values(prog, func, ret):
                    if isinstance(value, ast.Call):
                        site = site_for(prog, func, value)
                        if site and any(t in result for t in site.targets):
                            result.append(func)
                            changed = True
                            break
                if func in result:
                    break
    return result


def status_not_dropped(ctx: Context, rule_id: str) -> None:
    """R15d / R18d / R10: the success status of a per-file function is consumed at every call site:
    never an expression statement, every bound name is read afterwards, and in the per-run driver the
    success component reaches the flag returned as 'failed'."""
    prog = ctx.prog
    rule = ctx.rule(rule_id, "per-file success status is consumed at every call site", 2)
    funcs = status_functions(prog)
    if not funcs:
        raise AnalysisError("no status-returning per-file function found in file_scan_helper")
    for func in funcs:
        for site in prog.callers.get(func.qualname, []):
            caller = site.caller
            key = func_key(caller, site.node)
            stmt = None
            for node in walk_local(caller.node):
                if isinstance(node, ast.stmt) and any(sub is site.node for sub in ast.walk(node)):
                    if stmt is None or any(sub is node for sub in ast.walk(stmt)):
                        stmt = node
            if isinstance(stmt, ast.Expr) and stmt.value is site.node:
                rule.fail(key, site.where, f"result of {func.short} (did the file succeed?) is discarded: a failure in this file cannot reach the exit code")
                continue
            if isinstance(stmt, ast.Assign):
                bound: List[str] = []
                for target in stmt.targets:
                    for sub in ast.walk(target):
                        if isinstance(sub, ast.Name):
                            bound.append(sub.id)
                unread = []
                for name in bound:
                    if name == "_":
                        unread.append(name)
                        continue
                    loaded = any(
                        isinstance(n, ast.Name) and n.id == name and isinstance(n.ctx, ast.Load)
                        for n in walk_local(caller.node)
                    )
                    if not loaded:
                        unread.append(name)
                if unread:
                    rule.fail(key, site.where, f"status component(s) {unread} of {func.short} are never read")
                else:
                    rule.ok(key, f"bound to {bound} and read")
            elif isinstance(stmt, ast.Return):
                rule.ok(key, "returned to the caller")
            else:
                rule.ok(key, f"used in {type(stmt).__name__}")


# --------------------------------------------------------------------------------------
# discovery error flag
# --------------------------------------------------------------------------------------


def discovery_error_flag(prog: Program) -> Tuple[FuncInfo, str, Set[int]]:
    """(discovery function, flag name, ids of the value nodes that can make it true).  The flag is the
    boolean local that the discovery function returns next to the list of files and that is not the
    answer of the list-files helper."""
    func = prog.method("pymarkdown.application_file_scanner.ApplicationFileScanner", "determine_files_to_scan")
    rets = returns_of(func)
    if len(rets) != 1 or not isinstance(rets[0], ast.Tuple):
        raise AnalysisError("determine_files_to_scan does not return one tuple")
    candidates: Dict[str, Set[int]] = {}
    for element in rets[0].elts[1:]:
        if not isinstance(element, ast.Name):
            continue
        values = []
        for node in walk_local(func.node):
            if isinstance(node, (ast.Assign, ast.AnnAssign)) and getattr(node, "value", None) is not None:
                targets = node.targets if isinstance(node, ast.Assign) else [node.target]
                if any(isinstance(t, ast.Name) and t.id == element.id for t in targets):
                    values.append(node.value)
        if not values or any(isinstance(v, ast.Call) for v in values):
            continue  # filled by a helper call: the 'only listed' answer
        raising = {id(v) for v in values if not (isinstance(v, ast.Constant) and v.value is False)}
        if raising:
            candidates[element.id] = raising
    if len(candidates) != 1:
        raise AnalysisError(f"determine_files_to_scan: cannot identify the discovery error flag (candidates {sorted(candidates)})")
    name = next(iter(candidates))
    return func, name, candidates[name]


def application_workflow(prog: Program, target: Optional[FuncInfo] = None, accept=None) -> Tuple[FuncInfo, bool]:
    """``main``, or the private method of the application object that main hands its work to: the nearest function
    (main first, then what it calls in its own class, two levels) that calls ``target`` directly / for which
    ``accept(func)`` holds.  Second element: the delegation from main down to it is unconditional."""
    from sa.util import guards_of

    main = prog.method(MAIN, "main")
    work: List[Tuple[FuncInfo, bool, int]] = [(main, True, 0)]
    seen: Set[str] = set()
    while work:
        func, unconditional, depth = work.pop(0)
        if func.qualname in seen:
            continue
        seen.add(func.qualname)
        if (target is not None and any(target in s.targets for s in prog.sites_in(func))) or (accept is not None and accept(func)):
            return func, unconditional
        if depth < 2:
            for site in prog.sites_in(func):
                for callee in site.targets:
                    if callee.cls == main.cls and callee != target:
                        work.append((callee, unconditional and not guards_of(func.node, site.node), depth + 1))
    return main, True


def discovery_flag_consulted(ctx: Context, rule_id: str) -> None:
    """R19d: in ``main`` every path from the discovery call to a process exit reads the discovery
    error flag (in a condition or by passing it on)."""
    prog = ctx.prog
    rule = ctx.rule(rule_id, "discovery error flag is read on every path from discovery to a process exit", 1)
    disc, flag, const_ids = discovery_error_flag(prog)
    def receives_flag(func: FuncInfo) -> Optional[Tuple[str, ast.stmt]]:
        for node in walk_local(func.node):
            if isinstance(node, ast.Assign) and isinstance(node.targets[0], ast.Tuple):
                for elt in node.targets[0].elts:
                    if isinstance(elt, ast.Name):
                        values = reaching_values(prog, func, elt)
                        if any(id(v) in const_ids for v in values):
                            return elt.id, node
        return None

    # main, or the method of the application object that main hands the run to
    main, _unconditional = application_workflow(prog, accept=lambda func: receives_flag(func) is not None)
    received = receives_flag(main)
    if received is None:
        raise AnalysisError("main: the variable receiving the discovery error flag was not found")
    flag_var, assign_stmt = received
    cfg = CFG(main.node)
    start = cfg.stmt_node.get(id(assign_stmt))
    if start is None:
        raise AnalysisError("main: CFG node of the discovery call not found")
    readers: Set[int] = set()
    exits: Set[int] = {cfg.exit}
    for node in cfg.nodes:
        if node.ast_node is None or node.nid == start:
            continue
        if node.kind in ("cond", "stmt", "with") and flag_var in {n.split(".")[0] for n in names_read(node.ast_node)}:
            readers.add(node.nid)
        if node.kind == "stmt":
            for sub in ast.walk(node.ast_node):
                if isinstance(sub, ast.Call) and (dotted(sub.func) or "").endswith("exit_application"):
                    exits.add(node.nid)
    # only normal flow: exceptional exits go to main's catch-all (R15e)
    witness = all_paths_pass(cfg, start, readers, ends=exits, labels={"next", "true", "false"})
    key = f"{main.short}: {flag_var}"
    if witness is not None:
        rule.fail(
            key, where(main, cfg.nodes[witness[-1]].ast_node),
            f"a path from file discovery to a process exit never reads '{flag_var}': after a discovery error the run "
            "still lists/exits as if discovery had succeeded",
            describe_path(cfg, witness),
        )
    else:
        rule.ok(key, f"{len(readers)} reader node(s) cut every path to {len(exits)} exit(s)")
    # 'an error ... and nothing is scanned': the call that processes the files runs only when the flag is
    # false - the flag alone decides, whatever else was collected before the error
    from sa.util import forward_taint, guards_of

    carriers = forward_taint(prog, [(main, flag_var)], any_expression=False)
    process = prog.method(FSH, "process_files_to_scan")
    sites = [site for site in prog.callers.get(process.qualname, [])]
    if not sites:
        raise AnalysisError("no call of FileScanHelper.process_files_to_scan found")
    for site in sites:
        names = carriers.get(site.caller.qualname, set())
        skey = func_key(site.caller, site.node) + " [only without a discovery error]"
        if not names:
            rule.fail(skey, site.where, f"{site.caller.short} processes files without having been given the discovery error flag")
            continue
        excluded = any((not polarity) and isinstance(test, ast.Name) and test.id in names for test, polarity in guards_of(site.caller.node, site.node))
        if excluded:
            rule.ok(skey, f"runs only when '{sorted(names)[0]}' is false")
        else:
            facts = [("" if pol else "not ") + norm(t)[:60] for t, pol in guards_of(site.caller.node, site.node)]
            rule.fail(skey, site.where, f"files are processed under {facts}: the discovery error flag alone does not stop the run, so after an unusable argument the files collected from the arguments before it are still scanned or fixed (and the outcome depends on the order of the arguments)")


# --------------------------------------------------------------------------------------
# plugin callbacks are contained (R07a / R15b) and only the manager calls them (R07b)
# --------------------------------------------------------------------------------------

RULE_PLUGIN = "pymarkdown.plugin_manager.rule_plugin.RulePlugin"
CALLBACKS = ("starting_new_file", "next_token", "next_line", "completed_file", "initialize_from_config", "query_config")


def plugin_call_sites(prog: Program):
    """Call sites in the repo whose receiver is a RulePlugin instance (plugin code runs there)."""
    base = prog.cls(RULE_PLUGIN)
    overridable = set()
    for sub in base.all_subclasses():
        overridable.update(name for name in sub.methods if not name.startswith("_"))
    overridable.update(name for name, m in base.methods.items() if not name.startswith("_"))
    out = []
    for func in prog.iter_functions():
        own = func.cls is not None and (func.cls == base or base in func.cls.mro)
        for site in prog.sites_in(func):
            node = site.node
            if not isinstance(node.func, ast.Attribute):
                continue
            if own and isinstance(node.func.value, ast.Name) and func.params and node.func.value.id == func.params[0]:
                continue  # a plugin calling its own methods on self
            if own and isinstance(node.func.value, ast.Call) and dotted(node.func.value.func) == "super":
                continue
            recv = prog.infer(func, node.func.value)
            if recv and recv[0] == "cls" and (recv[1] == base or base in recv[1].mro) and node.func.attr in overridable:
                out.append((func, site))
    return out


def callbacks_contained(ctx: Context, rule_id: str) -> None:
    from sa.util import catching_handler, handler_always_raises, is_catch_all

    prog = ctx.prog
    rule = ctx.rule(rule_id, "every call into plugin code sits in try/except Exception -> raise BadPluginError", 10)
    sites = plugin_call_sites(prog)
    extra = []
    loader = prog.cls(PM)
    for func in loader.methods.values():
        for site in prog.sites_in(func):
            if site.external == "builtins.__import__" or (site.wild and isinstance(site.node.func, ast.Name)):
                extra.append((func, site))
    for func, site in sites + extra:
        key = func_key(func, site.node)
        if func.rel.startswith("pymarkdown/plugins/") or func.rel.startswith("pymarkdown/extensions/"):
            continue
        handler = catching_handler(func.node, site.node, is_catch_all)
        if handler is None:
            rule.fail(key, site.where, "call into plugin code is not inside a try with an 'except Exception' handler: a plugin exception escapes as a raw internal error")
            continue
        ok, why = handler_always_raises(handler, {"BadPluginError"})
        if not ok:
            rule.fail(key, site.where, f"the handler guarding this plugin call does not always raise BadPluginError: {why}")
        else:
            rule.ok(key, "contained")


def callbacks_only_from_manager(ctx: Context, rule_id: str) -> None:
    prog = ctx.prog
    rule = ctx.rule(rule_id, "only PluginManager invokes RulePlugin life-cycle callbacks", 6)
    for func, site in plugin_call_sites(prog):
        name = site.node.func.attr  # type: ignore[attr-defined]
        if name not in CALLBACKS:
            continue
        key = func_key(func, site.node)
        if func.cls is not None and func.cls.qualname == PM:
            rule.ok(key, "in PluginManager")
        else:
            rule.fail(key, site.where, f"{func.short} invokes the plugin callback '{name}' outside PluginManager: the call bypasses containment, dispatch filtering and the life-cycle order")


# --------------------------------------------------------------------------------------
# R10d / R15h: the "file was changed" flag survives a later fault
# --------------------------------------------------------------------------------------

FAULT_CLASSES = {"BadPluginError", "BadPluginFixError", "BadTokenizationError"}


def write_back_sinks(prog: Program):
    """(function, call site) pairs that write onto the user's file in the fix path."""
    from sa.rules.c15 import WRITE_SINKS, user_file_params

    tainted = user_file_params(prog)
    out = []
    for qual, params in tainted.items():
        func = prog.functions[qual]
        for site in prog.sites_in(func):
            node = site.node
            if (site.external or "") in WRITE_SINKS and len(node.args) >= 2 and isinstance(node.args[1], ast.Name) and node.args[1].id in params:
                out.append((func, site))
    return out


def fixed_flag_survives_faults(ctx: Context, rule_id: str, ra) -> None:
    from sa.util import enclosing_tries

    prog = ctx.prog
    rule = ctx.rule(rule_id, "a plugin/parser fault after a write-back cannot lose the 'file was changed' flag", 2)
    sinks = write_back_sinks(prog)
    if not sinks:
        raise AnalysisError("no write-back sink found")
    sink_funcs = {func.qualname for func, _ in sinks}
    per_file = prog.method(FSH, "__fix_specific_file")
    chain = prog.reachable([per_file])
    # functions of the chain that may (transitively) write
    may_write: Set[str] = set(sink_funcs)
    changed = True
    while changed:
        changed = False
        for qual in chain:
            if qual in may_write:
                continue
            func = prog.functions[qual]
            if any(t.qualname in may_write for s in prog.sites_in(func) if not s.wild for t in s.targets):
                may_write.add(qual)
                changed = True
    faulty: List[Tuple[FuncInfo, List[str]]] = []
    for qual in sorted(may_write):
        if qual not in chain or qual == per_file.qualname:
            continue
        func = prog.functions[qual]
        cfg = CFG(func.node, raising=ra.raising_predicate(func))
        write_nodes: Set[int] = set()
        for node in cfg.nodes:
            if node.ast_node is None or node.kind not in ("stmt", "cond", "with"):
                continue
            for call in [c for c in ast.walk(node.ast_node) if isinstance(c, ast.Call)]:
                site = site_for(prog, func, call)
                if site is None:
                    continue
                if any(site is s for f, s in sinks if f == func) or any(t.qualname in may_write for t in site.targets if not site.wild):
                    write_nodes.add(node.nid)
        found = None
        for wnode in sorted(write_nodes):
            starts = [dst for dst, label in cfg.succ[wnode] if label != "exc"]
            parent = cfg.reachable_from(starts, labels={"next", "true", "false"})
            for nid in parent:
                node = cfg.nodes[nid]
                if node.ast_node is None:
                    continue
                classes = {c.split("@")[0] for c in ra.may_raise_at(func, node.ast_node)} if node.kind in ("stmt", "cond", "with") else set()
                if not classes & FAULT_CLASSES:
                    continue
                # does that exception leave the function?
                exc_parent = cfg.reachable_from([dst for dst, label in cfg.succ[nid] if label == "exc"])
                if cfg.raise_exit in exc_parent:
                    found = (wnode, nid, sorted(classes & FAULT_CLASSES))
                    break
            if found:
                break
        key = f"{func.short}: fault after write-back"
        if found:
            wnode, nid, classes = found
            faulty.append((func, [f"write-back possible at {cfg.describe(wnode)}", f"then {cfg.describe(nid)} may raise {classes} and leave {func.short}"]))
        else:
            rule.ok(key, "no plugin/parser fault can follow a write-back inside this function")
    # the per-file function: does any handler recompute the flag?
    rets = returns_of(per_file)
    flag_names: Set[str] = set()
    for ret in rets:
        if isinstance(ret, ast.Tuple) and ret.elts and isinstance(ret.elts[0], ast.Name):
            flag_names.add(ret.elts[0].id)
        elif isinstance(ret, ast.Name):
            flag_names.add(ret.id)
    handlers = [n for n in walk_local(per_file.node) if isinstance(n, ast.ExceptHandler)]
    recomputes = False
    for handler in handlers:
        for stmt in handler.body:
            for sub in ast.walk(stmt):
                if isinstance(sub, ast.Assign) and any(isinstance(t, ast.Name) and t.id in flag_names for t in sub.targets):
                    recomputes = True
    for func, steps in faulty:
        key = f"{func.short}: fault after write-back"
        if recomputes:
            rule.ok(key, "the per-file handler recomputes the flag")
        else:
            rule.fail(
                key, where(func),
                f"{func.short} can write the user's file and then fail with a plugin/parser error; the exception carries no flag and "
                f"{per_file.short} returns its initial 'not fixed' value: the file is changed but not announced as 'Fixed:' and the run "
                "cannot end as fixed",
                steps,
            )


def optional_dereferences(ctx: Context, rule_id: str, title: str, scope, floor: int) -> None:
    """No parameter / local that may be None is dereferenced without a guard on some path
    (may-be-None dataflow over the CFG, sa/nonnull.py): such a path ends in TypeError /
    AttributeError inside the parser or a rule, i.e. in an internal error instead of a result."""
    from sa.nonnull import optional_dereferences as analyse
    from sa.util import func_key, where

    prog = ctx.prog
    rule = ctx.rule(rule_id, title, floor)
    functions = 0
    for func in sorted(prog.functions.values(), key=lambda f: f.qualname):
        if not scope(func.module.rel):
            continue
        reports, guarded = analyse(prog, func)
        if guarded or reports:
            functions += 1
        for node, name, how in reports:
            rule.fail(f"{func.short}: {name} [{how.split(' of ')[0]}]", where(func, node), f"'{name}' may be None here ({how}) on some path through {func.short}: the document that takes that path ends in a TypeError / AttributeError instead of a result")
        if guarded > len(reports):
            rule.ok(f"{func.short}", f"{guarded - len(reports)} dereference(s) of names that may be None elsewhere in the function, each guarded on every path")
            rule.obligations += guarded - len(reports) - 1
    rule.note(f"{functions} functions hold a name that may be None; every dereference of such a name was checked on every path")
