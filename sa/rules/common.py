"""Rules shared by several properties (each is registered under the caller's rule id)."""

from __future__ import annotations

import ast
from typing import Dict, List, Optional, Set, Tuple

from sa.cfg import CFG
from sa.model import AnalysisError, FuncInfo, Program, dotted, norm, walk_local
from sa.report import Context
from sa.util import (
    all_paths_pass,
    describe_path,
    func_key,
    names_read,
    reaching_values,
    returns_of,
    site_for,
    where,
)

FSH = "pymarkdown.file_scan_helper.FileScanHelper"
MAIN = "pymarkdown.main.PyMarkdownLint"
PM = "pymarkdown.plugin_manager.plugin_manager.PluginManager"


# --------------------------------------------------------------------------------------
# status functions: convert an exception into a boolean "did succeed" result
# --------------------------------------------------------------------------------------


def _returns_bool(func: FuncInfo) -> bool:
    ret = func.returns
    if ret == ("bool",):
        return True
    return bool(ret and ret[0] == "tuple" and any(t == ("bool",) for t in ret[1]))


def status_functions(prog: Program) -> List[FuncInfo]:
    """Functions of the run driver that turn a caught exception into a boolean status, plus
    (transitively) functions returning such a status."""
    base: List[FuncInfo] = []
    for func in prog.iter_functions("pymarkdown.file_scan_helper."):
        if not _returns_bool(func):
            continue
        handlers = [n for n in walk_local(func.node) if isinstance(n, ast.ExceptHandler)]
        swallowing = [h for h in handlers if not (h.body and isinstance(h.body[-1], ast.Raise) and len(h.body) <= 2)]
        if swallowing:
            base.append(func)
    changed = True
    result = list(base)
    while changed:
        changed = False
        for func in prog.iter_functions("pymarkdown.file_scan_helper."):
            if func in result or not _returns_bool(func):
                continue
            for ret in returns_of(func):
                for value in reaching_values(prog, func, ret):
                    if isinstance(value, ast.Call):
                        site = site_for(prog, func, value)
                        if site and any(t in result for t in site.targets):
                            result.append(func)
                            changed = True
                            break
                if func in result:
                    break
    return result


def status_not_dropped(ctx: Context, rule_id: str) -> None:
    """R15d / R18d / R10: the success status of a per-file function is consumed at every call site:
    never an expression statement, every bound name is read afterwards, and in the per-run driver the
    success component reaches the flag returned as 'failed'."""
    prog = ctx.prog
    rule = ctx.rule(rule_id, "per-file success status is consumed at every call site", 2)
    funcs = status_functions(prog)
    if not funcs:
        raise AnalysisError("no status-returning per-file function found in file_scan_helper")
    for func in funcs:
        for site in prog.callers.get(func.qualname, []):
            caller = site.caller
            key = func_key(caller, site.node)
            stmt = None
            for node in walk_local(caller.node):
                if isinstance(node, ast.stmt) and any(sub is site.node for sub in ast.walk(node)):
                    if stmt is None or any(sub is node for sub in ast.walk(stmt)):
                        stmt = node
            if isinstance(stmt, ast.Expr) and stmt.value is site.node:
                rule.fail(key, site.where, f"result of {func.short} (did the file succeed?) is discarded: a failure in this file cannot reach the exit code")
                continue
            if isinstance(stmt, ast.Assign):
                bound: List[str] = []
                for target in stmt.targets:
                    for sub in ast.walk(target):
                        if isinstance(sub, ast.Name):
                            bound.append(sub.id)
                unread = []
                for name in bound:
                    if name == "_":
                        unread.append(name)
                        continue
                    loaded = any(
                        isinstance(n, ast.Name) and n.id == name and isinstance(n.ctx, ast.Load)
                        for n in walk_local(caller.node)
                    )
                    if not loaded:
                        unread.append(name)
                if unread:
                    rule.fail(key, site.where, f"status component(s) {unread} of {func.short} are never read")
                else:
                    rule.ok(key, f"bound to {bound} and read")
            elif isinstance(stmt, ast.Return):
                rule.ok(key, "returned to the caller")
            else:
                rule.ok(key, f"used in {type(stmt).__name__}")


# --------------------------------------------------------------------------------------
# discovery error flag
# --------------------------------------------------------------------------------------


def discovery_error_flag(prog: Program) -> Tuple[FuncInfo, str, Set[int]]:
    """(discovery function, flag name, ids of the constant-True value nodes assigned to it)."""
    func = prog.method("pymarkdown.application_file_scanner.ApplicationFileScanner", "determine_files_to_scan")
    candidates: Dict[str, Set[int]] = {}
    for node in ast.walk(func.node):
        for attr in ("body", "orelse"):
            block = getattr(node, attr, None)
            if not isinstance(block, list):
                continue
            if any(isinstance(s, ast.Break) for s in block):
                for stmt in block:
                    if isinstance(stmt, ast.Assign) and isinstance(stmt.value, ast.Constant) and stmt.value.value is True:
                        for target in stmt.targets:
                            if isinstance(target, ast.Name):
                                candidates.setdefault(target.id, set()).add(id(stmt.value))
    if len(candidates) != 1:
        raise AnalysisError(f"determine_files_to_scan: cannot identify the discovery error flag (candidates {sorted(candidates)})")
    name = next(iter(candidates))
    return func, name, candidates[name]


def discovery_flag_consulted(ctx: Context, rule_id: str) -> None:
    """R19d: in ``main`` every path from the discovery call to a process exit reads the discovery
    error flag (in a condition or by passing it on)."""
    prog = ctx.prog
    rule = ctx.rule(rule_id, "discovery error flag is read on every path from discovery to a process exit", 1)
    disc, flag, const_ids = discovery_error_flag(prog)
    main = prog.method(MAIN, "main")
    flag_var: Optional[str] = None
    assign_stmt: Optional[ast.stmt] = None
    for node in walk_local(main.node):
        if isinstance(node, ast.Assign) and isinstance(node.targets[0], ast.Tuple):
            for elt in node.targets[0].elts:
                if isinstance(elt, ast.Name):
                    values = reaching_values(prog, main, elt)
                    if any(id(v) in const_ids for v in values):
                        flag_var = elt.id
                        assign_stmt = node
    if flag_var is None or assign_stmt is None:
        raise AnalysisError("main: the variable receiving the discovery error flag was not found")
    cfg = CFG(main.node)
    start = cfg.stmt_node.get(id(assign_stmt))
    if start is None:
        raise AnalysisError("main: CFG node of the discovery call not found")
    readers: Set[int] = set()
    exits: Set[int] = {cfg.exit}
    for node in cfg.nodes:
        if node.ast_node is None or node.nid == start:
            continue
        if node.kind in ("cond", "stmt", "with") and flag_var in {n.split(".")[0] for n in names_read(node.ast_node)}:
            readers.add(node.nid)
        if node.kind == "stmt":
            for sub in ast.walk(node.ast_node):
                if isinstance(sub, ast.Call) and (dotted(sub.func) or "").endswith("exit_application"):
                    exits.add(node.nid)
    # only normal flow: exceptional exits go to main's catch-all (R15e)
    witness = all_paths_pass(cfg, start, readers, ends=exits, labels={"next", "true", "false"})
    key = f"{main.short}: {flag_var}"
    if witness is not None:
        rule.fail(
            key, where(main, cfg.nodes[witness[-1]].ast_node),
            f"a path from file discovery to a process exit never reads '{flag_var}': after a discovery error the run "
            "still lists/exits as if discovery had succeeded",
            describe_path(cfg, witness),
        )
    else:
        rule.ok(key, f"{len(readers)} reader node(s) cut every path to {len(exits)} exit(s)")
