"""
Thorough tier of C10 / C15 / C18: exhaustive exploration of the run driver over an abstract
domain (sa/absint.py) and end-state predicates on every abstract path from main to a process
exit.  Nothing is executed; the explored paths are paths of the driver's CFGs with calls that
leave the driver treated as fault points.
"""

from __future__ import annotations

from typing import Callable, Dict, List, Optional, Tuple

from sa.absint import Exit, Explorer
from sa.model import AnalysisError
from sa.raises import RaiseAnalysis
from sa.report import Context, Rule

_CACHE: Dict[int, Explorer] = {}

FAULTLESS_OK = {"SUCCESS", "SCAN_TRIGGERED_AT_LEAST_ONCE", "NO_FILES_TO_SCAN", "FIXED_AT_LEAST_ONE_FILE", "COMMAND_LINE_ERROR", "<sub-command result>"}


def explorer_for(ctx: Context) -> Explorer:
    key = id(ctx.prog)
    if key not in _CACHE:
        ra = RaiseAnalysis(ctx.prog)
        explorer = Explorer(ctx.prog, ra, unroll=2, budget=1500000)
        explorer.explore()
        if explorer.truncated:
            raise AnalysisError(f"driver exploration exceeded its budget ({explorer.states} abstract states): refusing to vouch")
        if len(explorer.exits) < 20:
            raise AnalysisError(f"driver exploration reached only {len(explorer.exits)} process exits (>= 70 on the pinned tree): the skeleton was not recognised")
        _CACHE[key] = explorer
    return _CACHE[key]


def _describe(exit_state: Exit) -> str:
    world = exit_state.world
    return (
        f"category={exit_state.category} faults={list(world.faults)} written={sorted(world.written)} "
        f"announced={sorted(world.announced)} temps={sorted(world.temps)} modes={exit_state.modes}"
    )


def _check(rule: Rule, explorer: Explorer, name: str, predicate: Callable[[Exit], Optional[str]], where: str) -> None:
    bad: Dict[str, Exit] = {}
    good = 0
    for exit_state in explorer.exits:
        verdict = predicate(exit_state)
        if verdict is None:
            good += 1
        else:
            bad.setdefault(verdict, exit_state)
    if not bad:
        rule.ok(f"driver exploration: {name}", f"holds on all {good} abstract exit states")
    for verdict, exit_state in bad.items():
        rule.fail(
            f"driver exploration: {name}: {verdict}", where,
            f"an abstract path of the run driver ends with {_describe(exit_state)} — {verdict}",
            exit_state.trace[-22:],
        )


def add_notes(rule: Rule, explorer: Explorer) -> None:
    rule.note(f"abstract states {explorer.states}, transitions {explorer.transitions}, process exits {len(explorer.exits)}; files unrolled to 2, fix levels to 3, at most 2 injected faults per path")


def c15_predicates(ctx: Context, rule_id: str = "R15x") -> None:
    explorer = explorer_for(ctx)
    rule = ctx.rule(rule_id, "driver exploration: a fault always ends in SYSTEM_ERROR, no temp file outlives the process, main always exits through the scheme", 3)
    add_notes(rule, explorer)
    where = "pymarkdown/file_scan_helper.py"

    def fault_means_system_error(e: Exit) -> Optional[str]:
        if e.world.faults and e.category != "SYSTEM_ERROR":
            return f"a {e.world.faults[0][1]} during processing ends as {e.category}, not SYSTEM_ERROR"
        return None

    def no_temp_left(e: Exit) -> Optional[str]:
        if e.world.temps:
            return "a temporary file is still on disk when the process exits"
        return None

    def exits_through_scheme(e: Exit) -> Optional[str]:
        if e.category.startswith("RAISED") or e.category == "RETURNED":
            return f"main ends with {e.category} instead of calling exit_application"
        return None

    _check(rule, explorer, "fault => SYSTEM_ERROR", fault_means_system_error, where)
    _check(rule, explorer, "no temp file left", no_temp_left, where)
    _check(rule, explorer, "exit through the scheme", exits_through_scheme, "pymarkdown/main.py")


def c10_predicates(ctx: Context, rule_id: str = "R10x") -> None:
    explorer = explorer_for(ctx)
    rule = ctx.rule(rule_id, "driver exploration: written <=> announced <=> fixed result; scan writes nothing", 3)
    add_notes(rule, explorer)
    where = "pymarkdown/file_scan_helper.py"

    def scan_writes_nothing(e: Exit) -> Optional[str]:
        if e.modes.get("in_fix_mode") is False and e.world.written:
            return "a user file is written although the run is not in fix mode"
        if e.modes.get("use_standard_in") is True and e.world.written:
            return "a user file is written during scan-stdin"
        return None

    def announced_iff_written(e: Exit) -> Optional[str]:
        if e.world.announced - e.world.written:
            return "a file is announced as 'Fixed:' although it was not written"
        if e.world.written - e.world.announced:
            if e.world.faults:
                return "fault after write-back: a file was written but not announced"
            return "a file is written back without being announced as 'Fixed:'"
        return None

    def fixed_result(e: Exit) -> Optional[str]:
        if e.world.faults:
            return None
        if e.world.written and e.category != "FIXED_AT_LEAST_ONE_FILE":
            return f"files were written but the run ends as {e.category}"
        if not e.world.written and e.category == "FIXED_AT_LEAST_ONE_FILE":
            return "the run ends as FIXED_AT_LEAST_ONE_FILE although nothing was written"
        return None

    _check(rule, explorer, "scan writes nothing", scan_writes_nothing, where)
    _check(rule, explorer, "announced <=> written", announced_iff_written, where)
    _check(rule, explorer, "fixed result <=> written", fixed_result, "pymarkdown/main.py")


def c18_predicates(ctx: Context, rule_id: str = "R18x") -> None:
    explorer = explorer_for(ctx)
    rule = ctx.rule(rule_id, "driver exploration: every outcome category is produced only by its outcome", 2)
    add_notes(rule, explorer)

    def error_not_masked(e: Exit) -> Optional[str]:
        if e.world.faults and e.category != "SYSTEM_ERROR":
            return f"an application error in a file is masked: the run ends as {e.category}"
        return None

    def faultless_category(e: Exit) -> Optional[str]:
        if not e.world.faults and e.category not in FAULTLESS_OK and not (e.category == "SYSTEM_ERROR" and e.world.reported_errors):
            if e.category == "SYSTEM_ERROR":
                return None  # discovery / stdin spool errors are reported through the error handler (counted in R18e)
            return f"a fault-free run ends as {e.category}"
        return None

    _check(rule, explorer, "error never masked", error_not_masked, "pymarkdown/main.py")
    _check(rule, explorer, "fault-free categories", faultless_category, "pymarkdown/main.py")
