"""
Self-validation of the rules (thorough tier): every rule must fire on seeded mutants of the
*current* tree and stay silent on behaviour-preserving twins.  Variants are exact-once text
edits applied as in-memory overlays (no scratch copies); 16 workers.

A mutant whose anchor text is absent from the current tree is *inapplicable* (reported, not
an error): the tree under analysis may itself have been edited.
"""

from __future__ import annotations

import importlib
import multiprocessing
import os
import random
from dataclasses import dataclass, field
from typing import Any, Dict, List, Optional, Tuple

from sa.model import AnalysisError, Program, Source
from sa.report import Context


@dataclass
class Variant:
    name: str
    kind: str  # "mutant" | "twin"
    edits: List[Tuple[str, str, str]]  # (repo-relative file, old text, new text) — old must occur exactly once
    expect: List[str] = field(default_factory=list)  # rule ids that must report a new finding
    note: str = ""


def _apply(source: Source, variant: Variant) -> Optional[Dict[str, str]]:
    overlay: Dict[str, str] = {}
    for rel, old, new in variant.edits:
        if not source.exists(rel):
            return None
        text = overlay.get(rel, source.read(rel, raw=True))
        if text.count(old) != 1:
            return None
        overlay[rel] = text.replace(old, new)
    return overlay


def _rename_tool() -> Any:
    import importlib.util

    spec = importlib.util.spec_from_file_location("rename_twins", os.path.join(os.path.dirname(os.path.dirname(os.path.abspath(__file__))), "tools", "rename_twins.py"))
    module = importlib.util.module_from_spec(spec)
    assert spec and spec.loader
    spec.loader.exec_module(module)
    return module


def _renamed_overlay(source: Source, private: bool = False) -> Dict[str, str]:
    """Every function-local variable of the whole package renamed (a behaviour-preserving twin);
    with ``private`` every double-underscore method / field instead."""
    import ast

    module = _rename_tool()
    overlay: Dict[str, str] = {}
    for rel in source.python_files():
        if private:
            overlay[rel] = module.private_renamed(source.read(rel, raw=True))
            continue
        tree = module.Renamer().visit(ast.parse(source.read(rel)))
        ast.fix_missing_locations(tree)
        overlay[rel] = ast.unparse(tree)
    return overlay


def _run_one(args: Tuple[str, Variant, List[str]]) -> Dict[str, Any]:
    prop, variant, base_idents = args
    source = Source()
    if variant.name in (RENAME_TWIN, PRIVATE_TWIN) or variant.name.startswith(AUTO_TWIN_PREFIX):
        return _run_rename_twin(prop, source, base_idents, variant.name)
    overlay = _apply(source, variant)
    if overlay is None:
        return {"name": variant.name, "kind": variant.kind, "status": "inapplicable"}
    module = importlib.import_module(f"sa.rules.{prop.lower()}")
    try:
        prog = Program(source.with_overlay(overlay))
        ctx = Context(prog, "quick", prop)
        module.run(ctx)
        ctx.check_floors()
    except AnalysisError as exc:
        status = "caught" if variant.kind == "mutant" and "ANALYSIS-ERROR" in variant.expect else (
            "analysis-error")
        return {"name": variant.name, "kind": variant.kind, "status": status, "detail": str(exc)[:200]}
    new = [f for f in ctx.findings() if f.ident() not in base_idents]
    new_rules = sorted({f.rule for f in new})
    if variant.kind == "mutant":
        missing = [rule for rule in variant.expect if rule not in new_rules and rule != "ANALYSIS-ERROR"]
        status = "caught" if new and not missing else "missed"
        return {"name": variant.name, "kind": "mutant", "status": status, "rules": new_rules,
                "where": [f.where for f in new][:3], "missing": missing}
    status = "silent" if not new else "false-alarm"
    return {"name": variant.name, "kind": "twin", "status": status, "rules": new_rules,
            "detail": [f.message[:160] for f in new][:3]}


RENAME_TWIN = "twin: every local variable of the package renamed and every file re-printed"
PRIVATE_TWIN = "twin: every private method and field of the package renamed and every file re-printed"
AUTO_TWIN_PREFIX = "twin (whole package): "


def _run_rename_twin(prop: str, source: Source, base_idents: List[str], name: str = RENAME_TWIN) -> Dict[str, Any]:
    module = importlib.import_module(f"sa.rules.{prop.lower()}")
    try:
        if name.startswith(AUTO_TWIN_PREFIX):
            overlay = _rename_tool().transformed_overlay(source, name[len(AUTO_TWIN_PREFIX):])
        else:
            overlay = _renamed_overlay(source, private=name == PRIVATE_TWIN)
        prog = Program(source.with_overlay(overlay))
        ctx = Context(prog, "quick", prop)
        module.run(ctx)
        ctx.check_floors()
    except AnalysisError as exc:
        return {"name": name, "kind": "twin", "status": "analysis-error", "detail": str(exc)[:200]}
    # construct keys contain statement text, which the renaming changes: compare per rule
    ran = {rule.rule_id for rule in ctx.rules}  # thorough-only rules do not run in variants
    base_rules = sorted(r for r in (ident.split("|")[0] for ident in base_idents) if r in ran)
    new_rules = sorted(f.rule for f in ctx.findings())
    status = "silent" if base_rules == new_rules else "false-alarm"
    return {"name": name, "kind": "twin", "status": status, "rules": sorted(set(new_rules) - set(base_rules)), "detail": []}


def variants_for(prop: str) -> List[Variant]:
    try:
        module = importlib.import_module(f"sa.variants.{prop.lower()}")
    except ModuleNotFoundError:
        return []
    return list(module.VARIANTS)


def run(prop: str, seed: int = 0, base_idents: Optional[List[str]] = None) -> Dict[str, Any]:
    variants = variants_for(prop)
    random.Random(seed).shuffle(variants)
    if base_idents is None:
        module = importlib.import_module(f"sa.rules.{prop.lower()}")
        prog = Program(Source())
        ctx = Context(prog, "quick", prop)
        module.run(ctx)
        base_idents = [f.ident() for f in ctx.findings()]
    variants.append(Variant(RENAME_TWIN, "twin", []))
    variants.append(Variant(PRIVATE_TWIN, "twin", []))
    for name in ("swap", "early", "rettemp", "logging", "condtemp", "nest", "continue", "params2", "ternary", "typing", "strconst", "clsconst", "walrus", "kwargs"):
        variants.append(Variant(AUTO_TWIN_PREFIX + name, "twin", []))
    jobs = [(prop, variant, base_idents) for variant in variants]
    results: List[Dict[str, Any]] = []
    if jobs:
        workers = min(16, len(jobs), os.cpu_count() or 4)
        with multiprocessing.get_context("fork").Pool(workers) as pool:
            results = pool.map(_run_one, jobs, chunksize=1)
    missed = [r["name"] for r in results if r["status"] in ("missed",) or (r["kind"] == "mutant" and r["status"] == "analysis-error")]
    false_alarms = [r["name"] for r in results if r["status"] in ("false-alarm",) or (r["kind"] == "twin" and r["status"] == "analysis-error")]
    return {
        "variants": len(results),
        "mutants_caught": sum(1 for r in results if r["status"] == "caught"),
        "twins_silent": sum(1 for r in results if r["status"] == "silent"),
        "inapplicable": [r["name"] for r in results if r["status"] == "inapplicable"],
        "missed": missed,
        "false_alarms": false_alarms,
        "results": results,
    }


if __name__ == "__main__":
    import json
    import sys

    summary = run(sys.argv[1].upper(), 0)
    for result in summary["results"]:
        print(result)
    print(json.dumps({k: v for k, v in summary.items() if k != "results"}, indent=1))
