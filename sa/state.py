"""
State analyses shared by C12 / C13: writes to class-level (static) state, field effects of
methods on ``self``, closures of methods over ``self.m()`` calls, helper-object recursion.
"""

from __future__ import annotations

import ast
from dataclasses import dataclass, field
from typing import Dict, List, Optional, Set, Tuple

from sa.model import ClassInfo, FuncInfo, Program, dotted, norm, walk_local

MUTATORS = {
    "append", "extend", "insert", "pop", "clear", "remove", "add", "update", "discard", "setdefault",
    "popitem", "sort", "reverse", "appendleft", "popleft",
}


@dataclass
class StaticWrite:
    cls: ClassInfo
    attr: str
    func: FuncInfo
    node: ast.AST
    kind: str  # assign | aug | mut:<name> | del ; suffix [] for element writes

    @property
    def is_kill(self) -> bool:
        return self.kind == "assign"


def static_writes(prog: Program) -> List[StaticWrite]:
    """Every write, inside a function body, to an attribute of a *class object* of the repo."""
    out: List[StaticWrite] = []
    for func in prog.iter_functions():
        for node in walk_local(func.node):
            targets: List[ast.AST] = []
            kind = ""
            if isinstance(node, ast.Assign):
                for target in node.targets:
                    targets += [t for t, _, _ in Program._unpack(target, node.value)]
                kind = "assign"
            elif isinstance(node, ast.AnnAssign) and node.value is not None:
                targets, kind = [node.target], "assign"
            elif isinstance(node, ast.AugAssign):
                targets, kind = [node.target], "aug"
            elif isinstance(node, ast.Call) and isinstance(node.func, ast.Attribute) and node.func.attr in MUTATORS:
                targets, kind = [node.func.value], f"mut:{node.func.attr}"
            elif isinstance(node, ast.Delete):
                targets, kind = list(node.targets), "del"
            for target in targets:
                base = target
                element = False
                while isinstance(base, ast.Subscript):
                    base, element = base.value, True
                if not isinstance(base, ast.Attribute):
                    continue
                owner = prog.infer(func, base.value)
                if owner and owner[0] == "type":
                    attr = base.attr
                    if attr.startswith("_") and "__" in attr[1:] and not attr.startswith("__"):
                        attr = attr[attr.index("__", 1):]
                    out.append(StaticWrite(owner[1], attr, func, node, kind + ("[]" if element else "")))
                elif (
                    owner and owner[0] == "cls" and (element or kind.startswith("mut:"))
                    and _class_level_container(owner[1], base.attr)
                ):
                    # self.attr.append(...) / self.attr[k] = v where attr exists only as a class-level
                    # list / dict / set: one object shared by every instance
                    out.append(StaticWrite(_class_level_container(owner[1], base.attr), base.attr, func, node, kind + ("[]" if element else "") + " via instance"))
    return out


def _class_level_container(cls: ClassInfo, attr: str) -> Optional[ClassInfo]:
    """The class (in the MRO) that defines ``attr`` as a class-level mutable literal, when no class
    of the MRO ever assigns it as an instance field."""
    for klass in cls.mro or [cls]:
        if attr in klass.fields and klass.field_writers.get(attr):
            for _func, node in klass.field_writers[attr]:
                if isinstance(node, (ast.Assign, ast.AnnAssign)):
                    return None  # rebound per instance somewhere: the instance owns its own object
    for klass in cls.mro or [cls]:
        value = klass.class_attrs.get(attr)
        if value is None:
            continue
        if isinstance(value, (ast.List, ast.Dict, ast.Set, ast.ListComp, ast.DictComp, ast.SetComp)):
            return klass
        if isinstance(value, ast.Call) and (dotted(value.func) or "") in ("list", "dict", "set", "collections.defaultdict", "defaultdict", "collections.deque", "deque"):
            return klass
        return None
    return None


def global_writes(prog: Program) -> List[Tuple[FuncInfo, ast.AST, str]]:
    """``global x`` statements and mutator calls on module-level names from inside functions."""
    out: List[Tuple[FuncInfo, ast.AST, str]] = []
    for func in prog.iter_functions():
        local_names = set(func.params)
        for node in walk_local(func.node):
            if isinstance(node, ast.Assign):
                for target in node.targets:
                    for sub in ast.walk(target):
                        if isinstance(sub, ast.Name) and isinstance(sub.ctx, ast.Store):
                            local_names.add(sub.id)
            elif isinstance(node, (ast.For, ast.comprehension)):
                for sub in ast.walk(node.target):
                    if isinstance(sub, ast.Name):
                        local_names.add(sub.id)
            elif isinstance(node, (ast.With,)):
                for item in node.items:
                    if item.optional_vars is not None:
                        for sub in ast.walk(item.optional_vars):
                            if isinstance(sub, ast.Name):
                                local_names.add(sub.id)
        for node in walk_local(func.node):
            if isinstance(node, ast.Global):
                for name in node.names:
                    out.append((func, node, name))
            if isinstance(node, ast.Call) and isinstance(node.func, ast.Attribute) and node.func.attr in MUTATORS:
                base = node.func.value
                while isinstance(base, ast.Subscript):
                    base = base.value
                if isinstance(base, ast.Name) and base.id not in local_names and base.id in func.module.globals:
                    out.append((func, node, base.id))
            if isinstance(node, (ast.Assign, ast.AugAssign)):
                targets = node.targets if isinstance(node, ast.Assign) else [node.target]
                for target in targets:
                    base = target
                    element = False
                    while isinstance(base, ast.Subscript):
                        base, element = base.value, True
                    if element and isinstance(base, ast.Name) and base.id not in local_names and base.id in func.module.globals:
                        out.append((func, node, base.id))
    return out


@dataclass
class Effects:
    writes: Dict[str, List[ast.AST]] = field(default_factory=dict)  # field -> nodes (any write/mutation)
    kills: Dict[str, List[ast.AST]] = field(default_factory=dict)  # field -> nodes (assignment / clear)
    calls: List[Tuple[str, str, ast.Call]] = field(default_factory=list)  # (field, method, node): self.field.method(...)
    reads: Set[str] = field(default_factory=set)


def self_effects(func: FuncInfo, object_fields: Optional[Set[str]] = None) -> Effects:
    """``object_fields``: fields holding repo objects; a ``.clear()`` / ``.update()`` on them is a
    method call on the helper object, not a container mutation."""
    object_fields = object_fields or set()
    eff = Effects()
    if not func.params or func.kind not in ("instance", "property", "setter"):
        return eff
    me = func.params[0]

    def self_field(node: ast.AST) -> Optional[str]:
        if isinstance(node, ast.Attribute) and isinstance(node.value, ast.Name) and node.value.id == me:
            return node.attr
        return None

    for node in walk_local(func.node):
        targets: List[ast.AST] = []
        if isinstance(node, ast.Assign):
            for target in node.targets:
                targets += [t for t, _, _ in Program._unpack(target, node.value)]
        elif isinstance(node, (ast.AugAssign, ast.AnnAssign)):
            targets = [node.target]
        for target in targets:
            name = self_field(target)
            if name is not None:
                eff.writes.setdefault(name, []).append(node)
                if not isinstance(node, ast.AugAssign) and not (isinstance(node, ast.AnnAssign) and node.value is None):
                    eff.kills.setdefault(name, []).append(node)
            base = target
            element = False
            while isinstance(base, ast.Subscript):
                base, element = base.value, True
            name = self_field(base)
            if element and name is not None:
                eff.writes.setdefault(name, []).append(node)
        if isinstance(node, ast.Delete):
            for target in node.targets:
                base = target
                while isinstance(base, ast.Subscript):
                    base = base.value
                name = self_field(base)
                if name is not None:
                    eff.writes.setdefault(name, []).append(node)
        if isinstance(node, ast.Call) and isinstance(node.func, ast.Attribute):
            name = self_field(node.func.value)
            if name is not None:
                if node.func.attr in MUTATORS and name not in object_fields:
                    eff.writes.setdefault(name, []).append(node)
                    if node.func.attr == "clear":
                        eff.kills.setdefault(name, []).append(node)
                else:
                    eff.calls.append((name, node.func.attr, node))
        if isinstance(node, ast.Attribute) and isinstance(node.ctx, ast.Load):
            name = self_field(node)
            if name is not None:
                eff.reads.add(name)
    return eff


def method_closure(prog: Program, cls: ClassInfo, roots: List[str], stop_at: Optional[ClassInfo] = None) -> List[FuncInfo]:
    """Methods of ``cls`` (and its bases below ``stop_at``) reachable from ``roots`` through self.m() calls."""
    seen: List[FuncInfo] = []
    work: List[FuncInfo] = []
    for root in roots:
        method = cls.find_method(root)
        if method is not None and method.cls is not None and method.cls != stop_at:
            work.append(method)
    while work:
        func = work.pop()
        if func in seen:
            continue
        seen.append(func)
        if not func.params:
            continue
        me = func.params[0]
        for site in prog.sites_in(func):
            node = site.node
            if isinstance(node.func, ast.Attribute) and isinstance(node.func.value, ast.Name) and node.func.value.id == me:
                for target in site.targets:
                    if target.cls is not None and target.cls in cls.mro and target.cls != stop_at:
                        work.append(target)
            elif isinstance(node.func, ast.Attribute) and isinstance(node.func.value, ast.Name) and node.func.value.id == cls.name:
                for target in site.targets:
                    if target.cls is not None and target.cls in cls.mro:
                        work.append(target)
        # properties read through self.<prop>
        for node in walk_local(func.node):
            if isinstance(node, ast.Attribute) and isinstance(node.value, ast.Name) and node.value.id == me:
                prop = cls.find_method(node.attr)
                if prop is not None and prop.kind == "property" and prop.cls != stop_at:
                    work.append(prop)
    return seen
