"""Facts about the token classes, computed from source (shared by C02 and C04)."""

from __future__ import annotations

import ast
from dataclasses import dataclass, field
from typing import Dict, List, Optional, Set, Tuple

from sa.model import AnalysisError, ClassInfo, FuncInfo, Program, dotted, norm, walk_local
from sa.util import returns_of

MT = "pymarkdown.tokens.markdown_token.MarkdownToken"
END = "pymarkdown.tokens.markdown_token.EndMarkdownToken"
TOKEN_TYPES = "pymarkdown.tokens.token_types.TokenTypes"
EXT_TYPES = "pymarkdown.extensions.extension_token_types.ExtensionTokenTypes"


@dataclass
class TokenClass:
    cls: ClassInfo
    type_const: Optional[str]  # name of the MarkdownToken._token_xxx constant
    type_name: Optional[str]  # its string value
    requires_end: Optional[bool]
    token_class: Optional[str]  # CONTAINER_BLOCK / LEAF_BLOCK / INLINE_BLOCK / SPECIAL from the base-class chain
    registry: Optional[str]  # INLINE / LEAF / CONTAINER / SPECIAL / EXTENSION
    md_registration: Optional[Tuple[Optional[str], Optional[FuncInfo], Optional[FuncInfo]]] = None  # (class arg, start, end)
    html_registration: Optional[Tuple[Optional[str], Optional[FuncInfo], Optional[FuncInfo]]] = None


def token_constants(prog: Program) -> Dict[str, str]:
    base = prog.cls(MT)
    return {name: value.value for name, value in base.class_attrs.items() if name.startswith("_token_") and isinstance(value, ast.Constant)}


def registries(prog: Program) -> Dict[str, str]:
    """class name -> registry kind."""
    out: Dict[str, str] = {}
    for qual, default in ((TOKEN_TYPES, None), (EXT_TYPES, "EXTENSION")):
        cls = prog.cls(qual)
        for attr, value in cls.class_attrs.items():
            if isinstance(value, ast.List):
                kind = default or attr.strip("_").split("_")[0]
                for elt in value.elts:
                    name = dotted(elt)
                    if name:
                        out[name.split(".")[-1]] = kind
    return out


def _init_chain_keyword(prog: Program, cls: ClassInfo, keyword: str, depth: int = 0) -> Optional[ast.AST]:
    """Value passed for ``keyword`` along the chain of base-class __init__ calls."""
    if depth > 5:
        return None
    init = cls.methods.get("__init__")
    if init is None:
        for base in cls.bases:
            found = _init_chain_keyword(prog, base, keyword, depth + 1)
            if found is not None:
                return found
        return None
    for node in walk_local(init.node):
        if isinstance(node, ast.Call) and isinstance(node.func, ast.Attribute) and node.func.attr == "__init__":
            for kw in node.keywords:
                if kw.arg == keyword:
                    if isinstance(kw.value, ast.Name) and kw.value.id in init.params:
                        # passed through from this class's own parameter: look at its default
                        index = init.params.index(kw.value.id)
                        args = init.node.args
                        positional = args.posonlyargs + args.args
                        defaults = [None] * (len(positional) - len(args.defaults)) + list(args.defaults)
                        if index < len(defaults) and defaults[index] is not None:
                            return defaults[index]
                        return kw.value
                    return kw.value
            # not given here: the base decides
            owner = dotted(node.func.value)
            if owner and owner != "super()":
                base = next((b for b in cls.bases if b.name == owner.split(".")[-1]), None)
                if base is not None:
                    return _init_chain_keyword(prog, base, keyword, depth + 1)
            for base in cls.bases:
                found = _init_chain_keyword(prog, base, keyword, depth + 1)
                if found is not None:
                    return found
    return None


def _registration(prog: Program, cls: ClassInfo, method_name: str) -> Optional[Tuple[Optional[str], Optional[FuncInfo], Optional[FuncInfo]]]:
    method = cls.methods.get(method_name)
    if method is None:
        return None
    for node in walk_local(method.node):
        if isinstance(node, ast.Call) and isinstance(node.func, ast.Name) and node.func.id in method.params:
            args = list(node.args)
            class_arg = dotted(args[0]) if args else None
            handlers: List[Optional[FuncInfo]] = []
            for arg in args[1:3]:
                refs = prog._function_ref(method, arg)
                handlers.append(refs[0] if refs else None)
            while len(handlers) < 2:
                handlers.append(None)
            return (class_arg.split(".")[-1] if class_arg else None, handlers[0], handlers[1])
    return (None, None, None)


def token_classes(prog: Program) -> List[TokenClass]:
    base = prog.cls(MT)
    consts = token_constants(prog)
    reg = registries(prog)
    out: List[TokenClass] = []
    chain_names = {"ContainerMarkdownToken": "CONTAINER", "LeafMarkdownToken": "LEAF", "InlineMarkdownToken": "INLINE", "SpecialMarkdownToken": "SPECIAL"}
    for cls in [base] + base.all_subclasses():
        getter = cls.methods.get("get_markdown_token_type")
        if getter is None:
            continue
        type_const = None
        type_literal = None
        for ret in returns_of(getter):
            name = dotted(ret)
            if name:
                type_const = name.split(".")[-1]
            elif isinstance(ret, ast.Constant) and isinstance(ret.value, str):
                # a named type name is analysed as the literal it stands for
                type_literal = ret.value
                type_const = next((k for k, v in consts.items() if v == ret.value), repr(ret.value))
        requires = _init_chain_keyword(prog, cls, "requires_end_token")
        requires_value: Optional[bool] = None
        if isinstance(requires, ast.Constant):
            requires_value = bool(requires.value)
        elif requires is None:
            requires_value = False
        token_class = None
        for klass in cls.mro:
            if klass.name in chain_names:
                token_class = chain_names[klass.name]
                break
        out.append(
            TokenClass(
                cls=cls,
                type_const=type_const,
                type_name=type_literal if type_literal is not None else consts.get(type_const or ""),
                requires_end=requires_value,
                token_class=token_class,
                registry=reg.get(cls.name),
                md_registration=_registration(prog, cls, "register_for_markdown_transform"),
                html_registration=_registration(prog, cls, "register_for_html_transform"),
            )
        )
    if len(out) < 20:
        raise AnalysisError(f"only {len(out)} token classes with get_markdown_token_type found (26 confirmed)")
    return out
