"""
Named exceptions, one symbol each, with the reason it is not a violation.
Nothing here is a wildcard: a new field / static with the same shape is reported.
"""

# C13 R13a: statics that are deliberately process-wide
C13_STATICS = {
    "PluginManager.__argparse_subparser": "argparse sub-parser handle set while the command line is built, once per main(); holds no document data",
    "ExtensionManager.__argparse_subparser": "argparse sub-parser handle set while the command line is built, once per main(); holds no document data",
    "ParserLogger.__global_count": "generation counter that makes every ParserLogger re-read the log level; it only ever increases and carries no document data",
    "InlineCharacterReferenceHelper.__entity_map": "the HTML entity table loaded from resources/entities.json when the tokenizer is constructed; read-only afterwards",
}

# C13 R13b: fields of rules / helper objects that starting_new_file does not reset, each emptied when its
# construct closes (so quiescent at the end of any balanced token stream, C04) or rewritten before it is read
C13_FIELDS = {
    "RuleMd035.__actual_style": "reset (to empty) under the 'consistent' style; under every other style the field holds the configured style, is non-empty, and the only run-time write sits in the branch taken when the field is empty",
    "RuleMd022.__start_heading_blank_line_count": "assigned at every heading start before the only place that reads it (the matching heading end)",
    "RuleMd027.__delayed_bleading_fixes": "entries are keyed by the open block-quote token and deleted when that block quote ends",
    "RuleMd031.__fix_requests": "filled and drained within one token's handling in fix mode (cleared after the requests are applied)",
    "RuleMd031.__last_end_container_tokens": "re-assigned by the first non-end token of a file before it is read",
    "RuleMd031.__second_last_token": "shift register over tokens: overwritten by the first token of the next file before any read that matters",
    "RuleMd037.__pending_fixes": "cleared at the end of every emphasis scan of a paragraph",
    "RuleMd044.__replacement_items": "cleared whenever the enclosing paragraph/heading text has been handled",
    "RuleMd046.__token_before_start_fix_token": "reset to None whenever a code block that needed a fix has been closed",
    "MyStartOfLineTokenParser.__delayed_line": "set and consumed within one paragraph; cleared at paragraph end",
    "StartOfLineTokenParser.__delayed_line": "set and consumed within one paragraph; cleared at paragraph end",
    "StartOfLineTokenParser.__first_line_after_hard_break": "reset at every paragraph start",
    "StartOfLineTokenParser.__inside_of_link": "cleared by the matching link end token",
    "LeadingSpaceIndexTracker.__since_last_non_end_token": "emptied by the first non-end token, and every file starts with one",
    "ContainerTokenManager.list_adjust_map": "entries are removed when the list they belong to closes",
}

# C17 R17c: classes whose configuration entry raises on purpose
C17_RAISE_EXCEPTIONS = {
    "PluginOne": "debug rule MD999 shipped for the test-suite: raises when its 'test_value' item is set, to exercise the plugin error path; disabled by default",
    "DebugExtension": "test hook: raises on demand so that the test-suite can exercise main's error paths; never enabled by a user configuration",
}

# C04 R04c: removals from the parser token stack that legitimately generate no end token
C04_POP_EXCEPTIONS = {
    "LinkReferenceDefinitionContinuationHelper.__stop_lrd_continuation": "the entry removed is the link-reference-definition entry, which has no start token and must never generate an end token (asserted in the factory)",
    "LinkReferenceDefinitionHelper.__prepare_for_requeue_reset_document_and_stack": "LRD rewind: the lines are requeued and the stack is cut back to / restored from the copy taken when the definition started, so the removed entries are re-created when the lines are parsed again",
}

# C04 R04d: classes whose constructor needs no companion
C04_START_EXCEPTIONS = {
    "NewListItemMarkdownToken": "a new-list-item token is never closed by an end token of its own (the list's end closes it); requires_end_token is inherited from the container base",
}

# C02 R02f: boolean locals of the parse / regeneration pipeline that hold one constant by design
# (keyed by function and constant, one local each - local names are not part of the key)
C02_CONSTANT_FLAGS = {
    "BlockQuoteNonFencedHelper.__do_block_quote_leading_spaces_adjustments: False": "'special_case' names the constant argument handed to the adjustment helper (the special case is decided by the other caller)",
    "TransformContainers.__apply_line_transformation_check: True": "'kludge_flag' is the switch that turns the line-by-line consistency assertion off, documented as a kludge in the source",
    "TransformContainers.__adjust_for_list_adjust_block_quote: True": "'block_start_on_remove' names the constant argument of this call path; the sibling path computes it",
}

# C13 R13c: fields of the plugin manager that are written while a file is processed and deliberately survive it
C13_MANAGER_FIELDS = {
    "PluginManager.number_of_scan_failures": "per-run accumulator by design (named in the property): decides the exit code of the run, zeroed by initialize (R13d)",
    "PluginManager.number_of_pragma_failures": "per-run accumulator by design (named in the property): decides the exit code of the run, zeroed by initialize (R13d)",
}
